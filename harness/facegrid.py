"""Shared helpers for the face-connected properties (C03, C04, C05, C06, C12)."""
from __future__ import annotations

import numpy as np
import xarray as xr

from common import dec_rat, enc_rat, frac

POSDIM = {("X", "center"): "xc", ("X", "left"): "xg", ("X", "right"): "xr",
          ("Y", "center"): "yc", ("Y", "left"): "yg", ("Y", "right"): "yr"}


def random_links(rng, nfaces, p_link=0.85, allow_rev=True, allow_swap=True):
    """random reciprocated table: {face: {axis: [left, right]}} with links [face, axis, rev] / None"""
    tbl = {f: {a: [None, None] for a in ("X", "Y")} for f in range(nfaces)}
    free = [(f, a, s) for f in range(nfaces) for a in ("X", "Y") for s in (0, 1)]
    rng.shuffle(free)
    while free and rng.random() < p_link:
        f, a, s = free.pop()
        cands = [x for x in free if (allow_swap or x[1] == a) and (allow_rev or x[2] != s)]
        if not cands:
            continue
        g, b, s2 = rng.choice(cands)
        free.remove((g, b, s2))
        rev = (s == s2)
        tbl[f][a][s] = [g, b, rev]
        tbl[g][b][s2] = [f, a, rev]
    return tbl


def link_kinds(tbl):
    kinds = set()
    for f, ent in tbl.items():
        for a, pr in ent.items():
            for s, lk in enumerate(pr):
                if lk is not None:
                    kinds.add(("L" if s == 0 else "R") + ("swap" if lk[1] != a else "same") + ("rev" if lk[2] else ""))
    return kinds


def fc_arg(tbl, shuffle=True):
    """the face_connections argument.  The ORDER in which faces (and the axes of a face) are listed carries no
    meaning; it is shuffled deterministically (seeded by the table's content) for about half of the tables."""
    import json
    import random
    import zlib
    items = [(int(f), [(a, tuple(None if lk is None else (int(lk[0]), lk[1], bool(lk[2])) for lk in pr))
                       for a, pr in ent.items()]) for f, ent in tbl.items()]
    seed = zlib.crc32(json.dumps([[f, [[a, [None if l is None else list(l) for l in pr]] for a, pr in ent]]
                                  for f, ent in items]).encode())
    if shuffle and seed % 2 == 0:
        rr = random.Random(seed)
        rr.shuffle(items)
        for _, ent in items:
            rr.shuffle(ent)
    if shuffle and (seed // 4) % 3 == 0:
        # reverse flags as numpy booleans (tables computed from the face orientations rather than typed in)
        items = [(f, [(a, tuple(None if l is None else (l[0], l[1], np.bool_(l[2])) for l in pr)) for a, pr in ent])
                 for f, ent in items]
    if shuffle and (seed // 2) % 2 == 0:
        # an axis without links on a face may simply be left out of that face's entry
        items = [(f, [(a, pr) for a, pr in ent if any(l is not None for l in pr)]) for f, ent in items]
    return {"face": {f: dict(ent) for f, ent in items}}


def dataset(nfaces, N, extra):
    coords = {"face": ("face", np.arange(nfaces))}
    for d in ("xc", "xg", "xr", "yc", "yg", "yr"):
        coords[d] = (d, np.arange(N, dtype=float))
    for d, s in extra:
        coords[d] = (d, np.arange(s, dtype=float))
    return xr.Dataset(coords=coords)


GRID_COORDS = {"X": {"center": "xc", "left": "xg", "right": "xr"},
               "Y": {"center": "yc", "left": "yg", "right": "yr"}}


def make_grid(ds, tbl, boundary, fill_value, coords=None):
    import xgcm
    return xgcm.Grid(ds, coords=coords or GRID_COORDS, face_connections=fc_arg(tbl),
                     boundary=dict(boundary), fill_value=dict(fill_value), autoparse_metadata=False)


def canon_faces(da, xdim, ydim):
    """-> array (nface, nx, ny, R) of exact values, rest dims flattened in sorted-name order"""
    rest = sorted(d for d in da.dims if d not in ("face", xdim, ydim))
    a = da.transpose("face", xdim, ydim, *rest).values
    return a.reshape(a.shape[0], a.shape[1], a.shape[2], -1)


def enc_faces(arr4):
    nf, nx, ny, R = arr4.shape
    return f"{nx} {ny} " + " ".join(enc_rat(v) for v in arr4.reshape(-1).tolist())


def enc_table(tbl):
    def link(lk):
        return "N" if lk is None else f"L {lk[0]} {lk[1]} {'T' if lk[2] else 'F'}"
    return str(len(tbl)) + "".join(
        f" {f} {len(ent)}" + "".join(f" {a} {link(pr[0])} {link(pr[1])}" for a, pr in ent.items())
        for f, ent in tbl.items())


def dec_faces(line, nfaces, R):
    toks = line.split(" ")
    assert toks[0] == "ok", line[:200]
    nx, ny = int(toks[1]), int(toks[2])
    vals = [dec_rat(t) for t in toks[3:]]
    assert len(vals) == nfaces * nx * ny * R, (len(vals), nfaces, nx, ny, R)
    return np.array(vals, dtype=object).reshape(nfaces, nx, ny, R)


def nanify(arr):
    """a model that only moves values around was fed NAN_SENTINEL for missing values: map them back"""
    from common import NAN, NAN_SENTINEL
    out = arr.copy()
    flat = out.reshape(-1)
    for i, v in enumerate(flat):
        if v == NAN_SENTINEL or v == -NAN_SENTINEL:
            flat[i] = NAN
    return out


def exact(arr):
    return np.array([frac(v) for v in np.asarray(arr).reshape(-1).tolist()], dtype=object).reshape(np.asarray(arr).shape)


def ext_index(rule, n, i):
    """index into a line of length n for position i under rule, or None for 'fill value'"""
    if 0 <= i < n:
        return i
    if rule == "periodic":
        return i % n
    if rule == "extend":
        return 0 if i < 0 else n - 1
    return None


def spec_padded(tbl, data4, partner4, vec_axis, req, rules, fills):
    """Independent oracle written from the C05 statement.  Returns (expected, mask) over the
    padded extents; mask is True on cells the property pins (interior + non-corner halo)."""
    nf, nx, ny, R = data4.shape
    (lox, hix), (loy, hiy) = req["X"], req["Y"]
    out = np.empty((nf, lox + nx + hix, loy + ny + hiy, R), dtype=object)
    mask = np.zeros(out.shape[:3], dtype=bool)
    for f in range(nf):
        for i in range(out.shape[1]):
            for j in range(out.shape[2]):
                x, y = i - lox, j - loy
                inx, iny = 0 <= x < nx, 0 <= y < ny
                if inx and iny:
                    out[f, i, j] = data4[f, x, y]
                    mask[f, i, j] = True
                    continue
                if not inx and not iny:
                    out[f, i, j] = [None] * R
                    continue
                a = "X" if not inx else "Y"
                pos, n_a, t = (x, nx, y) if a == "X" else (y, ny, x)
                side = 0 if pos < 0 else 1
                k = -pos if side == 0 else pos - n_a + 1
                lk = (tbl.get(f) or tbl.get(str(f)) or {}).get(a, [None, None])[side]
                mask[f, i, j] = True
                if lk is None:
                    e = ext_index(rules[a], n_a, pos)
                    if e is None:
                        out[f, i, j] = [frac(fills[a])] * R
                    else:
                        out[f, i, j] = data4[f, e, y] if a == "X" else data4[f, x, e]
                    continue
                g, b, rev = lk
                swap = b != a
                src = partner4 if (vec_axis is not None and swap) else data4
                sside = side if rev else 1 - side
                n_b = src.shape[1] if b == "X" else src.shape[2]
                n_o = src.shape[2] if b == "X" else src.shape[1]
                cb = (k - 1) if sside == 0 else (n_b - k)
                co = (n_o - 1 - t) if (swap and not rev) else t
                val = src[int(g), cb, co] if b == "X" else src[int(g), co, cb]
                sign = -1 if (vec_axis is not None and ((rev and vec_axis == a)
                                                        or (swap and not rev and vec_axis != a))) else 1
                out[f, i, j] = [sign * v for v in val]
    return out, mask


def table_axes(tbl):
    """the axis names that appear as keys in a face-connection table, as a list"""
    out = []
    for links in fc_arg(tbl)["face"].values():
        for ax in links:
            if ax not in out:
                out.append(ax)
    return out

"""C11 — grid ufuncs: what the wrapped function receives, where its outputs live, option binding.

A case = a random signature (1-3 inputs, 0-2 outputs, 1-2 dummy axes per argument), a binding of the
dummy axes to real axes, data arrays (each input carrying every axis boundary_width names, extra dims,
any dim order), a boundary_width / boundary / fill_value, and a way of supplying them: decorator
(`as_grid_ufunc(...)`), call-time keyword arguments, or both with different values (the call wins);
the signature is given as a string or through Annotated type hints.

A RECORDING function stores the plain arrays it is handed and returns outputs of the declared sizes.
  correspondence : recorded arrays (values + axis order) vs the Lean model `applyGridUfunc`
  property       : recorded arrays vs an independent oracle (np.pad by the EFFECTIVE options along the
                   bound axes, core axes moved last in signature order); output DataArrays live on the
                   dimensions of the declared positions of the bound real axes; off-position inputs refused
"""
from __future__ import annotations

import copy
from typing import Annotated, Tuple

import numpy as np
import xarray as xr

from common import (POSITIONS, RULES, Layout, build_grid, dec_arr, dyadic, dyadic_array, enc_arr, enc_grid, enc_kw, fillv,
                    enc_rat, exc_kind, frac, grid_axes_for_driver, pos_len)

RULE = ("random signatures (1-3 inputs, 0-2 outputs, 1-2 dummy axes per argument, dummy names a/b/c), random "
        "bindings to 1-3 real axes, widths 0..2 per side per bound axis, rule/fill by decorator / call / both, "
        "string or type-hint signature, user function given as def / lambda / functools.partial / callable instance / bound method / def with ordinary hints (apply route), with 10% off-position inputs; non-trivial = some non-zero width "
        "or >= 2 core dims; distinct by case")

PADMODE = {"periodic": "wrap", "fill": "constant", "extend": "edge"}


def gen_case(rng, tier, i):
    layout = Layout.random(rng, n_axes=rng.randint(2, 3), nmin=2, nmax=4, max_extra=1)
    axes = layout.axes
    names = [a["name"] for a in axes]
    n_dummy = rng.randint(1, min(2, len(names)))
    dummies = ["a", "b", "c"][:n_dummy]
    real = rng.sample(names, n_dummy)
    if rng.random() < 0.3:
        # dummy names that are themselves names of real axes of the grid, bound straight or crosswise
        dummies = rng.sample(names, n_dummy)
    bind = dict(zip(dummies, real))
    n_in = rng.randint(1, 3)
    ins = []
    # every input carries all bound axes (so that boundary_width may name any of them)
    for _ in range(n_in):
        order = dummies[:]
        rng.shuffle(order)
        ins.append([[d, rng.choice(list(layout.axis(bind[d])["coords"]))] for d in order])
    n_out = rng.randint(0, 2)
    outs = []
    for _ in range(n_out):
        k = rng.randint(0, n_dummy)
        order = rng.sample(dummies, k)
        outs.append([[d, rng.choice(list(layout.axis(bind[d])["coords"]))] for d in order])
    bw = {d: [rng.randint(0, 2), rng.randint(0, 2)] for d in dummies if rng.random() < 0.7}
    opts = {"boundary": rng.choice(RULES), "fill_value": fillv(rng)}
    how = rng.choice(["decorator", "call", "both", "apply"])
    other = {"boundary": rng.choice(RULES), "fill_value": fillv(rng),
             "boundary_width": {d: [rng.randint(0, 2), rng.randint(0, 2)] for d in bw}}
    # an explicit None at call time is a value too: it overrides what was bound (grid defaults / no padding)
    none_at_call = [k for k in ("boundary", "fill_value", "boundary_width") if rng.random() < 0.25]
    data = []
    for k, arg in enumerate(ins):
        dims = []
        for d, p in arg:
            a = layout.axis(bind[d])
            pos = p
            if rng.random() < 0.04:        # off-position input
                alt = [q for q in a["coords"] if q != p]
                if alt:
                    pos = rng.choice(alt)
            dims.append((a["coords"][pos], pos_len(a["n"], pos)))
        for e, s in layout.extra:
            dims.append((e, s))
        rng.shuffle(dims)
        data.append({"dims": [d for d, _ in dims], "values": dyadic_array(rng, [s for _, s in dims]).tolist()})
    return {"layout": {"axes": axes, "extra": layout.extra}, "bind": bind, "ins": ins, "outs": outs,
            "bw": bw, "opts": opts, "other": other, "how": how, "hints": rng.random() < 0.3 and n_out > 0
            and all(len(o) > 0 for o in outs) and all(len(a) > 0 for a in ins), "data": data,
            "grid_boundary": rng.choice(RULES), "grid_fill": rng.choice([0.0, 0.0, 3.0, -1.5]),
            "none_at_call": none_at_call, "pad_before": rng.random() < 0.75,
            # what kind of callable the user function is (exercised where the signature is given as a string
            # to apply_as_grid_ufunc, which is documented to take any callable)
            "callable": rng.choice(["def", "def", "partial", "instance", "method", "lambda", "hinted_def"])}


class _Instance:
    """a user function that is an object with __call__"""

    def __init__(self, f):
        self.f = f

    def __call__(self, *arrs):
        return self.f(*arrs)

    def method(self, *arrs):
        return self.f(*arrs)


def as_callable(func, kind):
    import functools
    if kind == "partial":
        return functools.partial(lambda tag, *arrs: func(*arrs), "bound-first-argument")
    if kind == "instance":
        return _Instance(func)
    if kind == "method":
        return _Instance(func).method
    if kind == "lambda":
        return lambda *arrs: func(*arrs)
    if kind == "hinted_def":           # ordinary (non-Annotated) type hints say nothing about positions
        def hinted(*arrs: np.ndarray) -> np.ndarray:
            return func(*arrs)
        return hinted
    return func


def sig_text(ins, outs):
    def side(args):
        return ",".join("(" + ",".join(f"{n}:{p}" for n, p in a) + ")" for a in args)
    return side(ins) + "->" + (side(outs) if outs else "()")


def eval_case(case, drv):
    import xgcm
    from xgcm import as_grid_ufunc
    layout = Layout(case["layout"]["axes"], [tuple(e) for e in case["layout"]["extra"]])
    ds, grid = build_grid(layout, boundary=case["grid_boundary"], fill_value=case.get("grid_fill", 0.0))
    bind = case["bind"]
    ins, outs = case["ins"], case["outs"]
    outs_eff = outs if outs else [[]]
    args = [xr.DataArray(np.array(d["values"], dtype=float).reshape([ds.sizes[x] for x in d["dims"]]), dims=d["dims"])
            for d in case["data"]]
    axis = [[bind[d] for d, _ in a] for a in ins]
    recorded = []
    out_sizes = [[ds.sizes[layout.axis(bind[d])["coords"][p]] for d, p in o] for o in outs_eff]

    state = {"out_sizes": out_sizes}

    def func(*arrs):
        recorded.append([np.array(a, copy=True) for a in arrs])
        lead = np.broadcast_shapes(*[a.shape[: a.ndim - len(ins[k])] for k, a in enumerate(arrs)])
        res = tuple(np.zeros(tuple(lead) + tuple(sz)) for sz in state["out_sizes"])
        return res if len(res) > 1 else res[0]
    how = case["how"]
    eff_bw = case["bw"]
    eff = dict(case["opts"])
    deco_kw, call_kw = {}, {}
    if how in ("decorator", "both"):
        deco_kw = {"boundary_width": {d: tuple(w) for d, w in case["bw"].items()} or None, **case["opts"]}
    if how == "call" or how == "apply":
        call_kw = {"boundary_width": {d: tuple(w) for d, w in case["bw"].items()} or None, **case["opts"]}
    if how == "both":
        call_kw = {"boundary": case["other"]["boundary"], "fill_value": case["other"]["fill_value"]}
        eff = {"boundary": case["other"]["boundary"], "fill_value": case["other"]["fill_value"]}
        if case["bw"]:
            call_kw["boundary_width"] = {d: tuple(w) for d, w in case["other"]["boundary_width"].items()}
            eff_bw = case["other"]["boundary_width"]
        for k in case.get("none_at_call", []):
            call_kw[k] = None
            if k == "boundary_width":
                eff_bw = {}
            else:
                eff[k] = None
    # pad_before_func=False: the function sees the unpadded inputs and its outputs are padded afterwards, so
    # it has to return arrays shorter by the declared widths (only where that leaves something to return)
    pad_before = case.get("pad_before", True)
    if not pad_before:
        after = [[ds.sizes[layout.axis(bind[d])["coords"][p]] - sum((eff_bw or {}).get(d, (0, 0))) for d, p in o]
                 for o in outs_eff]
        carries = bool(outs) and all(all(d in [dd for dd, _ in o] for d in (eff_bw or {})) for o in outs_eff)
        if carries and all(x >= 1 for sz in after for x in sz):
            state["out_sizes"] = after
        else:
            pad_before = True
    if how in ("decorator",):
        deco_kw["pad_before_func"] = pad_before
    elif how in ("call", "apply"):
        call_kw["pad_before_func"] = pad_before
    else:                                  # bound one way, overridden at call time
        deco_kw["pad_before_func"] = not pad_before
        call_kw["pad_before_func"] = pad_before
    text = sig_text(ins, outs_eff)
    try:
        if how == "apply":
            res = grid.apply_as_grid_ufunc(as_callable(func, case.get("callable", "def")), *args, axis=axis,
                                           signature=text, **call_kw)
        else:
            if case["hints"]:
                params = ", ".join(f"x{j}: Annotated[np.ndarray, {','.join(n + ':' + p for n, p in a)!r}]"
                                   for j, a in enumerate(ins))
                rets = [f"Annotated[np.ndarray, {','.join(n + ':' + p for n, p in a)!r}]" for a in outs_eff]
                ret = rets[0] if len(rets) == 1 else "Tuple[" + ", ".join(rets) + "]"
                ns = {"Annotated": Annotated, "np": np, "Tuple": Tuple, "_f": func}
                exec(f"def f({params}) -> {ret}:\n    return _f({', '.join('x%d' % j for j in range(len(ins)))})\n", ns)
                uf = as_grid_ufunc(**deco_kw)(ns["f"])
            else:
                uf = as_grid_ufunc(signature=text, **deco_kw)(func)
            res = uf(grid, *args, axis=axis, **call_kw)
        impl = "ok"
    except Exception as e:  # noqa: BLE001
        res, impl = None, "err:" + exc_kind(e) + ":" + str(e)[:80]
    # ---- model
    gaxes = grid_axes_for_driver(grid)

    def enc_sig(side):
        return str(len(side)) + "".join(f" {len(a)}" + "".join(f" {n} {p}" for n, p in a) for a in side)
    bw_enc = "N" if not eff_bw else "S " + str(len(eff_bw)) + "".join(f" {d} {w[0]} {w[1]}" for d, w in eff_bw.items())
    line = (f"c11 {enc_grid(gaxes)} {enc_sig(ins)} {enc_sig(outs_eff)} {len(args)} "
            + " ".join(enc_arr(d["dims"], np.array(d["values"], dtype=float).reshape([ds.sizes[x] for x in d["dims"]]))
                       for d in case["data"])
            + f" {len(axis)} " + " ".join(f"{len(a)} {' '.join(a)}" if a else "0" for a in axis)
            + f" {bw_enc} {enc_kw(eff['boundary'])} {enc_kw(eff['fill_value'], enc_rat)} {'T' if pad_before else 'F'}")
    ans = drv.ask(line)
    offpos = any(layout.axis(bind[d])["coords"][p] not in case["data"][k]["dims"]
                 for k, a in enumerate(ins) for d, p in a)
    if res is None:
        ok_m = ans.startswith("err")
        return {"corr_ok": ok_m, "prop_ok": offpos, "branch": "refused" + (":offpos" if offpos else ""),
                "detail": None if (ok_m and offpos) else {"impl": impl, "model": ans[:120]}}
    if offpos:
        return {"corr_ok": ans.startswith("err"), "prop_ok": False, "branch": "offpos-accepted",
                "detail": {"impl": "returned", "model": ans[:80]}}
    detail = {}
    corr_ok = ans.startswith("ok")
    prop_ok = True
    if not recorded:
        prop_ok = False
        detail["recorded"] = "function never called"
    else:
        got = recorded[-1]
        # model arrays
        if corr_ok:
            toks = ans.split(" ")
            n = int(toks[1])
            rest = toks[2:]
            for k in range(n):
                (dims, shape, vals), rest = dec_arr(rest)
                g = got[k]
                if list(g.shape) != shape or [frac(v) for v in g.reshape(-1).tolist()] != vals:
                    corr_ok = False
                    detail["model"] = {"arg": k, "impl_shape": list(g.shape), "model_shape": shape, "model_dims": dims}
                    break
        # oracle
        for k, a in enumerate(ins):
            da = args[k]
            core = [layout.axis(bind[d])["coords"][p] for d, p in a]
            arr = da.transpose(*[x for x in da.dims if x not in core], *core)
            vals = arr.values
            for d, w in ((eff_bw or {}) if pad_before else {}).items():
                dim = next(c for c, (dd, p) in zip(core, a) if dd == d)
                axn = list(arr.dims).index(dim)
                pw = [(0, 0)] * vals.ndim
                pw[axn] = tuple(w)
                mode = PADMODE[eff["boundary"] if eff["boundary"] is not None else case["grid_boundary"]]
                fv = eff["fill_value"] if eff["fill_value"] is not None else case.get("grid_fill", 0.0)
                kw = {"constant_values": fv} if mode == "constant" else {}
                vals = np.pad(vals, pw, mode=mode, **kw)
            if got[k].shape != vals.shape or not np.array_equal(got[k], vals):
                prop_ok = False
                detail["oracle"] = {"arg": k, "got_shape": list(got[k].shape), "want_shape": list(vals.shape),
                                    "how": how, "eff": eff, "bw": eff_bw}
                break
    # outputs on declared positions
    results = tuple(res) if isinstance(res, (tuple, list)) else (res,)
    if len(results) != len(outs_eff):
        prop_ok = False
        detail["n_outputs"] = {"returned": len(results), "declared": len(outs_eff), "pad_before_func": pad_before}
    for o, r in zip(outs_eff, results):
        want_core = [layout.axis(bind[d])["coords"][p] for d, p in o]
        if list(r.dims[len(r.dims) - len(want_core):]) != want_core:
            prop_ok = False
            detail["outputs"] = {"dims": list(r.dims), "want_core": want_core}
    return {"corr_ok": corr_ok, "prop_ok": prop_ok,
            "branch": f"{how}:{'hints' if case['hints'] and how != 'apply' else 'str'}:in{len(ins)}out{len(outs)}"
            + (":" + case.get("callable", "def") if how == "apply" else "")
            + ("" if pad_before else ":padafter"),
            "detail": detail or None}


def nontrivial(case, verdict):
    return any(w != [0, 0] for w in case["bw"].values()) or any(len(a) > 1 for a in case["ins"])

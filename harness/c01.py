"""C01 — staggered stencil operators on simple grids.

Correspondence: real Grid.diff/interp/min/max  vs  Lean `dispatch` over the
generated gridops table.  Property oracle: Lean `specDispatch` (coordinate
spec, independent of pad widths / slices).
"""
from __future__ import annotations

import numpy as np
import xarray as xr

from common import (POSITIONS, RULES, Layout, build_grid, canon_da, dyadic, dyadic_array, fillv,
                    enc_arr, enc_grid, enc_kw, enc_rat, exc_kind, grid_axes_for_driver,
                    parse_res, same_arr)

FUNCS = ["diff", "interp", "min", "max"]
RULE = ("random simple grids (1-3 axes, random position subsets containing center, n in 2..7 "
        "(thorough ..24), 0-3 extra dims, any dim order) x operator x every shift the axis offers "
        "x rule x fill given per call (scalar / per-axis dict) or as grid default, `to` omitted / "
        "str / dict, single and multi-axis calls; non-trivial = at least one axis step needs a "
        "boundary value (shift other than outer->center / center->inner); distinct by full case")

NEEDS_BOUNDARY = {("center", "left"), ("left", "center"), ("center", "right"), ("right", "center"),
                  ("center", "outer"), ("inner", "center")}


def gen_case(rng, tier, i):
    nmax = 7 if tier == "quick" else rng.choice([7, 12, 24])
    layout = Layout.random(rng, nmax=nmax, max_extra=3 if tier == "quick" or nmax <= 7 else 1)
    # constructor spellings that are safe on the pinned tree (C02 covers the others)
    ctor = {}
    r = rng.random()
    if r < 0.25:
        ctor["periodic"] = rng.choice([True, False])
    elif r < 0.5:
        ctor["boundary"] = rng.choice(RULES)
    else:
        ctor["boundary"] = {a["name"]: rng.choice(RULES) for a in layout.axes}
        if rng.random() < 0.25:
            # an explicit None entry says "nothing chosen for this axis" (the periodic-derived default applies)
            ctor["boundary"][rng.choice(layout.axes)["name"]] = None
            ctor["periodic"] = rng.choice([True, False])
    if rng.random() < 0.65:
        if rng.random() < 0.5:
            ctor["fill_value"] = fillv(rng)
        else:
            ctor["fill_value"] = {a["name"]: fillv(rng) for a in layout.axes}
    # data: choose a position per axis (or leave the axis out), at least one axis in
    present = []
    dims = []
    for a in layout.axes:
        if rng.random() < 0.85 or not present and a is layout.axes[-1]:
            p = rng.choice(list(a["coords"]))
            present.append((a["name"], p))
            dims.append((a["coords"][p], __import__("common").pos_len(a["n"], p)))
    for d, s in layout.extra:
        if rng.random() < 0.8:
            dims.append((d, s))
    rng.shuffle(dims)
    data = dyadic_array(rng, [s for _, s in dims])
    # call
    k = rng.randint(1, len(present))
    chosen = rng.sample(present, k)
    axis = [a for a, _ in chosen]
    to_words = {}
    for aname, p in chosen:
        a = layout.axis(aname)
        if p == "center":
            cands = [q for q in a["coords"] if q != "center"]
        else:
            cands = ["center"]
        to_words[aname] = rng.choice(cands)
    r = rng.random()
    if r < 0.35:
        to = None
    elif r < 0.55 and len(set(to_words.values())) == 1:
        to = next(iter(to_words.values()))
    else:
        to = dict(to_words)
        # mapping may also name axes that are not operated on
        for a in layout.axes:
            if a["name"] not in to and rng.random() < 0.3:
                to[a["name"]] = "center"
    call = {"func": rng.choice(FUNCS), "axis": axis[0] if len(axis) == 1 and rng.random() < 0.5 else axis,
            "to": to}
    r = rng.random()
    if r < 0.35:
        call["boundary"] = rng.choice(RULES)
    elif r < 0.65:
        call["boundary"] = {a["name"]: rng.choice(RULES) for a in layout.axes if rng.random() < 0.6}
    r = rng.random()
    if r < 0.25:
        call["fill_value"] = fillv(rng)
    elif r < 0.45:
        call["fill_value"] = {a["name"]: fillv(rng) for a in layout.axes if rng.random() < 0.6}
    # the insertion order of a per-axis mapping carries no meaning: list the entries in random order
    for kw_ in (ctor, call):
        for k_ in ("boundary", "fill_value", "to"):
            if isinstance(kw_.get(k_), dict):
                items_ = list(kw_[k_].items())
                rng.shuffle(items_)
                kw_[k_] = dict(items_)
    case = {"layout": {"axes": layout.axes, "extra": layout.extra}, "ctor": ctor,
            "dims": [d for d, _ in dims], "data": data.tolist(), "call": call}
    r = rng.random()
    if r < 0.08:
        # integer-typed data (counts, masks-as-ints): integral fill values, so that numpy's own constant padding of an
        # integer array is exact; results that are not integers (interp) must not be truncated
        case["dtype"] = "int64"
        case["data"] = np.round(data).tolist()

        def integral(v):
            if isinstance(v, dict):
                return {k: float(round(x)) for k, x in v.items()}
            return v if v is None else float(round(v))
        if "fill_value" in ctor:
            ctor["fill_value"] = integral(ctor["fill_value"])
        if "fill_value" in call:
            call["fill_value"] = integral(call["fill_value"])
    elif r < 0.16:
        case["dtype"] = "float32"          # the dyadic values used here are exact in single precision too
    return case


def _build(case):
    layout = Layout(case["layout"]["axes"], [tuple(e) for e in case["layout"]["extra"]])
    ds, grid = build_grid(layout, **case["ctor"])
    da = xr.DataArray(np.array(case["data"], dtype=float).reshape(
        [ds.sizes[d] for d in case["dims"]]).astype(case.get("dtype", "float64")), dims=case["dims"], name="phi")
    return layout, ds, grid, da


def steps_of(case):
    """(from,to) per operated axis as far as determinable from the case (for the rule)"""
    layout = Layout(case["layout"]["axes"], case["layout"]["extra"])
    axis = case["call"]["axis"]
    axis = [axis] if isinstance(axis, str) else axis
    out = []
    for aname in axis:
        a = layout.axis(aname)
        f = next((p for p, d in a["coords"].items() if d in case["dims"]), None)
        to = case["call"].get("to")
        t = to if isinstance(to, str) else (to or {}).get(aname)
        if t is None and f is not None:
            order = {"center": ["left", "right", "outer", "inner"]}.get(f, ["center"])
            t = next((q for q in order if q in a["coords"]), None)
        out.append((f, t))
    return out


def documented_axes(case, grid):
    """per-axis rule and fill value as the DOCUMENTATION resolves the constructor arguments of this generator
    (boundary entry, else periodic -> 'periodic' / 'fill'; fill value entry, else 0) - so that a constructor that
    stores something else shows up here, where the stencil result is judged ("... or as grid default")"""
    ctor = case["ctor"]
    out = []
    for name, ax in grid.axes.items():
        b = ctor.get("boundary")
        rule = b if isinstance(b, str) else (b or {}).get(name)
        if rule is None:
            rule = "periodic" if ctor.get("periodic", True) is True else "fill"
        f = ctor.get("fill_value")
        fill = f.get(name) if isinstance(f, dict) else f
        out.append((name, rule, 0.0 if fill is None else fill, dict(ax.coords), dict(ax.default_shifts)))
    return out


def eval_case(case, drv):
    layout, ds, grid, da = _build(case)
    call = case["call"]
    kwargs = {}
    for k in ("to", "boundary", "fill_value"):
        if call.get(k) is not None:
            kwargs[k] = call[k]
    kw_copy = {k: (dict(v) if isinstance(v, dict) else v) for k, v in kwargs.items()}
    try:
        res = getattr(grid, call["func"])(da, call["axis"], **kw_copy)
        impl = ("ok", canon_da(res))
    except Exception as e:  # noqa: BLE001
        impl = ("err", exc_kind(e))
    axis = [call["axis"]] if isinstance(call["axis"], str) else call["axis"]
    req = (f"{call['func']} {enc_grid(documented_axes(case, grid))} {enc_arr(case['dims'], da.values)} "
           f"{len(axis)} {' '.join(axis)} {enc_kw(call.get('to'))} {enc_kw(call.get('boundary'))} "
           f"{enc_kw(call.get('fill_value'), enc_rat)}")
    model = parse_res(drv.ask("c01 " + req))
    spec = parse_res(drv.ask("c01spec " + req))

    def agree(a, b):
        if a[0] != b[0]:
            return False
        if a[0] == "ok":
            return same_arr(a[1], b[1])
        return True  # both refuse: the property does not fix the exception class

    spec_n = spec if spec[0] == "ok" else ("err", None)
    corr_ok = agree(impl, model)
    prop_ok = agree(impl, spec_n)
    branch = "+".join(f"{f}>{t}" for f, t in steps_of(case)) if impl[0] == "ok" else "refused:" + str(impl[1])
    detail = None
    if not (corr_ok and prop_ok):
        detail = {"impl": _short(impl), "model": _short(model), "spec": _short(spec)}
    return {"corr_ok": corr_ok, "prop_ok": prop_ok, "branch": branch, "detail": detail}


def _short(r):
    if r[0] == "ok":
        dims, shape, data = r[1]
        return ["ok", dims, shape, [str(x) for x in data[:64]]]
    return list(r)


def nontrivial(case, verdict):
    return any(st in NEEDS_BOUNDARY for st in steps_of(case))


def shrink_candidates(case):
    import copy
    # drop extra dims, shrink data to simple values
    dims = case["dims"]
    arr = np.array(case["data"], dtype=float)
    layout_axes = case["layout"]["axes"]
    axis_dims = {d for a in layout_axes for d in a["coords"].values()}
    for i, d in enumerate(dims):
        if d not in axis_dims:
            c = copy.deepcopy(case)
            c["dims"] = dims[:i] + dims[i + 1:]
            c["data"] = np.take(arr, 0, axis=i).tolist()
            yield c
    c = copy.deepcopy(case)
    flat = np.arange(arr.size, dtype=float).reshape(arr.shape)
    if not np.array_equal(flat, arr):
        c["data"] = flat.tolist()
        yield c
    for k in ("boundary", "fill_value"):
        if k in case["call"]:
            c = copy.deepcopy(case)
            del c["call"][k]
            yield c

"""C06 — lazy (dask) execution equals in-memory execution.

Runtime monitor + correspondence of the chunk logic (laziness and scheduler independence are run-time
facts of dask; the Lean side carries the chunk algebra and the overlap decomposition, see Properties/C06).

A case = a grid (simple, or face-connected and chunked over the face / extra dimensions), an operation
(diff, interp, min, max, cumsum, derivative, integrate, average, cumint, apply_as_grid_ufunc with and without
map_overlap), a random composition of every dimension length into chunks (size-1 and uneven chunks
included), scalar or vector input.
  monitor        : zero dask tasks run while the result is built; the result is a dask collection;
                   compute() under the synchronous AND the threaded scheduler == the eager result (values,
                   dims, coords); a core-chunked inner/outer request raises NotImplementedError
  correspondence : `_get_chunk_pattern_for_merging_boundary` vs Lean `mergeChunks`; accept/refuse and the
                   dask mode vs Lean `daskMode` / `overlapAllowed` over the regenerated refusal list
"""
from __future__ import annotations

import warnings

import dask
import numpy as np
import xarray as xr
from dask.callbacks import Callback

import facegrid as fg
from common import Layout, build_grid, dyadic_array, exc_kind, pos_len

RULE = ("simple grids (1-2 axes, random positions, n in 2..6, 0-2 extra dims; scalar and vector spelling) and a 3-face connected grid; "
        "random chunk compositions of every dimension (size-1, uneven); ops diff/interp/min/max/cumsum/derivative/"
        "integrate/average/cumint/ufunc(+map_overlap); scalar and vector; synchronous and threaded schedulers; "
        "non-trivial = the operated dimension itself is chunked or the grid is face-connected; distinct by case")
TIE = "correspondence (chunk logic) + runtime monitor (laziness, schedulers)"
ASSUMPTIONS = ["laziness and scheduler independence are monitored at run time, not proved"]


def composition(rng, n):
    out = []
    left = n
    while left > 0:
        c = rng.randint(1, left) if rng.random() < 0.7 else 1
        out.append(c)
        left -= c
    return tuple(out)


def gen_case(rng, tier, i):
    if rng.random() < 0.3:
        return {"kind": "faces", "op": rng.choice(["diff", "interp", "vecdiff", "vecinterp", "cumsum_refuse_none"][:4]),
                "axis": rng.choice(["X", "Y"]), "chunks": {"face": composition(rng, 3), "e0": composition(rng, 2)},
                "seed": rng.randrange(1 << 30)}
    if rng.random() < 0.1:
        # one call over two axes, the SAME shift on both, both operated dimensions split into chunks: the same kernel
        # runs twice in one task graph
        pos = rng.choice(["left", "right"])
        axes = [{"name": n_, "n": rng.randint(3, 6), "coords": {"center": n_.lower() + "_c", pos: n_.lower() + "_" + pos[0]}}
                for n_ in ("X", "Y")]
        frm, to = rng.choice([("center", pos), (pos, "center")])
        dims = [(a["coords"][frm], a["n"]) for a in axes]
        extra = [("e0", 2)] if rng.random() < 0.5 else []
        dims += extra
        rng.shuffle(dims)
        chunks = {d: (composition(rng, s_) if d == "e0" else (lambda c: c if len(c) > 1 else (1, s_ - 1))(composition(rng, s_)))
                  for d, s_ in dims}
        return {"kind": "simple", "axis2": {"axis": "Y", "from": frm, "to": to, "first": rng.random() < 0.5},
                "lazy_coord": False, "dask_mode": "allowed", "pos_all": {"X": frm, "Y": frm}, "bw2": {}, "sig_order": ["X", "Y"],
                "vector": False, "layout": {"axes": axes, "extra": extra}, "axis": "X", "from": frm, "to": to,
                "dims": [d for d, _ in dims], "chunks": {k: list(v) for k, v in chunks.items()},
                "op": rng.choice(["diff", "interp", "min", "max"]), "boundary": rng.choice(["fill", "extend", "periodic"]),
                "seed": rng.randrange(1 << 30)}
    layout = Layout.random(rng, n_axes=rng.randint(1, 2), nmin=2, nmax=6, max_extra=2)
    ax = rng.choice(layout.axes)
    frm = rng.choice(list(ax["coords"]))
    tos = [q for q in ax["coords"] if q != "center"] if frm == "center" else ["center"]
    dims = [(ax["coords"][frm], pos_len(ax["n"], frm))]
    for a in layout.axes:
        if a is not ax:
            p = frm if (frm in a["coords"] and rng.random() < 0.4) else rng.choice(list(a["coords"]))
            dims.append((a["coords"][p], pos_len(a["n"], p)))
    for d, s in layout.extra:
        dims.append((d, s))
    rng.shuffle(dims)
    chunk_core = rng.random() < 0.6
    chunks = {}
    for d, s in dims:
        if d == ax["coords"][frm] and not chunk_core:
            chunks[d] = (s,)
        else:
            chunks[d] = composition(rng, s)
    case_to = rng.choice(tos)
    op = rng.choice(["diff", "interp", "min", "max", "cumsum", "derivative", "integrate", "average", "cumint",
                     "ufunc", "ufunc_overlap"] + (["ufunc2", "ufunc2_overlap"] * 2 if len(layout.axes) == 2 else []))
    pos_all = {ax["name"]: frm}
    for a in layout.axes:
        if a is not ax:
            pos_all[a["name"]] = next(p for p, d in a["coords"].items() if d in [x for x, _ in dims])
    names2 = [a["name"] for a in layout.axes]
    rng.shuffle(names2)
    bw2 = {n: [rng.randint(0, 2), rng.randint(0, 2)] for n in names2 if rng.random() < 0.85}
    sig_order = [a["name"] for a in layout.axes]
    rng.shuffle(sig_order)
    vector = op in ("diff", "interp", "min", "max") and rng.random() < 0.35
    if op.startswith("ufunc2"):
        vector = False
    axis2 = None
    if op in ("diff", "interp", "min", "max") and len(layout.axes) == 2 and not vector and rng.random() < 0.5:
        # one call over both axes (sequential application; the same kernel may run twice in one graph)
        a2 = next(a for a in layout.axes if a is not ax)
        f2 = pos_all[a2["name"]]
        t2s = [q for q in a2["coords"] if q != "center"] if f2 == "center" else ["center"]
        t2 = case_to if (f2 == frm and case_to in t2s and rng.random() < 0.7) else rng.choice(t2s)   # often the same shift twice
        axis2 = {"axis": a2["name"], "from": f2, "to": t2, "first": rng.random() < 0.5}
    lazy_coord = rng.random() < 0.2          # a lazily evaluated non-index coordinate with chunks of its own
    core = [ax["coords"][frm]] if op == "ufunc" else [a["coords"][pos_all[a["name"]]] for a in layout.axes]
    dask_mode = "allowed"
    if op in ("ufunc", "ufunc2") and all(len(chunks[d]) == 1 for d in core) and rng.random() < 0.5:
        dask_mode = "parallelized"        # xarray's own blockwise mode; needs unchunked core dimensions
    return {"kind": "simple", "axis2": axis2, "lazy_coord": lazy_coord, "dask_mode": dask_mode, "pos_all": pos_all, "bw2": bw2, "sig_order": sig_order, "vector": vector, "layout": {"axes": layout.axes, "extra": layout.extra}, "axis": ax["name"],
            "from": frm, "to": case_to, "dims": [d for d, _ in dims], "chunks": {k: list(v) for k, v in chunks.items()},
            "op": op, "boundary": rng.choice(["fill", "extend", "periodic"]), "seed": rng.randrange(1 << 30)}


class Counter(Callback):
    def __init__(self):
        self.n = 0

    def _pretask(self, key, dsk, state):
        self.n += 1


def same(a, b):
    if not isinstance(a, xr.DataArray):
        return a == b
    if set(a.dims) != set(b.dims) or sorted(map(str, a.coords)) != sorted(map(str, b.coords)):
        return False
    return bool(np.array_equal(a.transpose(*b.dims).values, b.values, equal_nan=True))


def run_case(case, lazy):
    """returns the (uncomputed) result for lazy inputs / the eager result"""
    import random

    import xgcm
    rr = random.Random(case["seed"])
    if case["kind"] == "faces":
        nf, N = 3, 3
        tbl = {0: {"X": [None, [1, "X", False]], "Y": [None, [2, "X", False]]},
               1: {"X": [[0, "X", False], None], "Y": [None, None]},
               2: {"X": [[0, "Y", False], None], "Y": [None, None]}}
        ds = fg.dataset(nf, N, [("e0", 2)])
        grid = fg.make_grid(ds, tbl, {"X": "fill", "Y": "extend"}, {"X": 0.0, "Y": 0.0})
        c = xr.DataArray(dyadic_array(rr, [2, nf, N, N]), dims=["e0", "face", "xc", "yc"], name="c")
        u = xr.DataArray(dyadic_array(rr, [nf, 2, N, N]), dims=["face", "e0", "xg", "yc"], name="u")
        v = xr.DataArray(dyadic_array(rr, [nf, 2, N, N]), dims=["face", "e0", "xc", "yg"], name="v")
        if lazy:
            ch = {k: tuple(val) for k, val in case["chunks"].items()}
            c, u, v = c.chunk(ch), u.chunk(ch), v.chunk(ch)
        op, ax = case["op"], case["axis"]
        if op == "diff":
            return grid.diff(c, ax, to="left")
        if op == "interp":
            return grid.interp(c, ax, to="left")
        comp, other = ({"X": u}, {"Y": v}) if ax == "X" else ({"Y": v}, {"X": u})
        fn = grid.diff if op == "vecdiff" else grid.interp
        return fn(comp, ax, other_component=other)
    layout = Layout(case["layout"]["axes"], [tuple(e) for e in case["layout"]["extra"]])
    ds = layout.dataset()
    for a in layout.axes:
        for p, d in a["coords"].items():
            ds["m_" + d] = (d, np.power(2.0, np.arange(ds.sizes[d]) % 3))
    metrics = {(a["name"],): ["m_" + d for d in a["coords"].values()] for a in layout.axes}
    grid = xgcm.Grid(ds, coords=layout.coords_arg(), boundary=case["boundary"], metrics=metrics, autoparse_metadata=False)
    dims = case["dims"]
    da = xr.DataArray(dyadic_array(rr, [ds.sizes[d] for d in dims]), dims=dims, name="phi")
    if case.get("lazy_coord") and len(dims) >= 1:
        cdims = dims[: 2]
        cvals = xr.DataArray(np.arange(int(np.prod([ds.sizes[d] for d in cdims])), dtype=float).reshape(
            [ds.sizes[d] for d in cdims]), dims=cdims)
        da = da.assign_coords(aux_lon=cvals)
    if lazy:
        da = da.chunk({k: tuple(v) for k, v in case["chunks"].items()})
        if case.get("lazy_coord") and "aux_lon" in da.coords:
            # the coordinate is lazily evaluated too, split differently than the data (size-1 chunks)
            da = da.assign_coords(aux_lon=da["aux_lon"].variable.chunk({d: 1 for d in da["aux_lon"].dims}))
    op, ax, to = case["op"], case["axis"], case["to"]
    if case.get("axis2") and op in ("diff", "interp", "min", "max"):
        a2 = case["axis2"]
        axes_ = [a2["axis"], ax] if a2["first"] else [ax, a2["axis"]]
        return getattr(grid, op)(da, axes_, to={ax: to, a2["axis"]: a2["to"]})
    if case.get("vector"):
        # vector spelling on a grid without face connections: same numbers as the scalar spelling
        other = next((a for a in layout.axes if a["name"] != ax), None)
        kw = {}
        if other is not None:
            od = [d for d in dims if d not in other["coords"].values()]
            oth = xr.DataArray(dyadic_array(rr, [ds.sizes[d] for d in od]), dims=od, name="psi") if od else None
            if oth is not None:
                kw["other_component"] = {other["name"]: oth.chunk({k: tuple(v) for k, v in case["chunks"].items() if k in od})
                                         if lazy else oth}
        return getattr(grid, op)({ax: da}, ax, to=to, **kw)
    if op in ("diff", "interp", "min", "max", "cumsum", "derivative", "cumint"):
        return getattr(grid, op)(da, ax, to=to)
    if op in ("integrate", "average"):
        return getattr(grid, op)(da, ax)
    if op.startswith("ufunc2"):
        # two core axes, widths given in any key order (or for one axis only); the function uses every halo cell
        order = case["sig_order"]
        dummies = {order[0]: "a", order[1]: "b"}
        inner = ",".join(f"{dummies[n]}:{case['pos_all'][n]}" for n in order)
        sig = f"({inner})->({inner})"
        bw = {dummies[n]: tuple(w) for n, w in case["bw2"].items()}
        (la, ra), (lb, rb) = (tuple(case["bw2"].get(order[0], (0, 0))), tuple(case["bw2"].get(order[1], (0, 0))))

        strict = lazy and (op == "ufunc2_overlap" or case.get("dask_mode") == "parallelized")

        def f2(x):
            if strict and not isinstance(x, np.ndarray):
                # under map_overlap / dask="parallelized" the kernel is promised plain numpy blocks
                raise TypeError("kernel was handed a " + type(x).__name__ + " instead of a numpy block")
            na, nb = x.shape[-2] - la - ra, x.shape[-1] - lb - rb
            return x[..., 0:na, 0:nb] + 2.0 * x[..., la + ra:la + ra + na, lb + rb:lb + rb + nb]
        return grid.apply_as_grid_ufunc(f2, da, axis=[list(order)], signature=sig, boundary_width=bw or None,
                                        dask=case.get("dask_mode", "allowed") if lazy else "forbidden",
                                        map_overlap=(op == "ufunc2_overlap") and lazy)
    a = layout.axis(ax)
    sig = f"(Q:{case['from']})->(Q:{case['from']})"
    strict1 = lazy and (op == "ufunc_overlap" or case.get("dask_mode") == "parallelized")

    def f1(x):
        if strict1 and not isinstance(x, np.ndarray):
            raise TypeError("kernel was handed a " + type(x).__name__ + " instead of a numpy block")
        return x * 2.0 + 1.0
    return grid.apply_as_grid_ufunc(f1, da, axis=[[ax]], signature=sig,
                                    boundary_width={"Q": (0, 0)},
                                    dask=(case.get("dask_mode", "allowed") if op == "ufunc" else "allowed") if lazy else "forbidden",
                                    map_overlap=(op == "ufunc_overlap") and lazy)


def eval_case(case, drv):
    detail = {}
    with warnings.catch_warnings():
        warnings.simplefilter("ignore")
        try:
            eager = ("ok", run_case(case, lazy=False))
        except Exception as e:  # noqa: BLE001
            eager = ("err", exc_kind(e) + ": " + str(e)[:120])
        cnt = Counter()
        try:
            with cnt:
                res = run_case(case, lazy=True)
            lazy = ("ok", res)
        except Exception as e:  # noqa: BLE001
            lazy = ("err", exc_kind(e), str(e)[:160])
    # expected refusal: operated dimension chunked and an inner/outer position involved
    core_chunked = False
    positions = []
    fname = case["op"]
    if case["kind"] == "simple":
        layout = Layout(case["layout"]["axes"], case["layout"]["extra"])
        d = layout.axis(case["axis"])["coords"][case["from"]]
        core_chunked = len(case["chunks"][d]) > 1
        positions = [case["from"], case["to"]] if fname in ("diff", "interp", "min", "max", "derivative") else [case["from"]]
        if fname == "derivative":
            fname = "diff"
    uses_dispatch = case["kind"] == "simple" and case["op"] in ("diff", "interp", "min", "max", "derivative")
    must_refuse = False
    corr_ok = True
    if case["kind"] == "simple" and case["op"] == "ufunc2_overlap":
        positions = [case["pos_all"][n] for n in case["sig_order"]]
    if uses_dispatch or (case["kind"] == "simple" and case["op"] in ("ufunc_overlap", "ufunc2_overlap")):
        cc = core_chunked if uses_dispatch else True
        ans = drv.ask(f"c06mode T {'T' if cc else 'F'} {fname if uses_dispatch else 'ufunc'} {len(positions)} {' '.join(positions)}").split(" ")
        must_refuse = ans[3] == "F"
    if uses_dispatch and case.get("axis2"):
        a2 = case["axis2"]
        d2 = layout.axis(a2["axis"])["coords"][a2["from"]]
        cc2 = len(case["chunks"][d2]) > 1
        ans2 = drv.ask(f"c06mode T {'T' if cc2 else 'F'} {fname} 2 {a2['from']} {a2['to']}").split(" ")
        must_refuse = must_refuse or ans2[3] == "F"
        core_chunked = core_chunked or cc2
    if eager[0] == "err":
        ok = lazy[0] == "err"
        return {"corr_ok": True, "prop_ok": ok, "branch": "eager-refused", "detail": None if ok else {"eager": eager[1], "lazy": "returned"}}
    prop_ok = True
    if lazy[0] == "err":
        is_ni = lazy[1] == "NotImplementedError"
        prop_ok = must_refuse and is_ni
        corr_ok = must_refuse
        if not prop_ok:
            detail["refused"] = {"lazy": list(lazy), "must_refuse": must_refuse, "chunks": case["chunks"]}
        return {"corr_ok": corr_ok, "prop_ok": prop_ok, "branch": "refused:" + lazy[1], "detail": detail or None}
    if must_refuse:
        corr_ok = False
        prop_ok = False
        detail["not_refused"] = {"chunks": case["chunks"], "positions": positions}
    res = lazy[1]
    if cnt.n != 0:
        prop_ok = False
        detail["computed_while_building"] = cnt.n
    if not hasattr(res.data, "dask"):
        prop_ok = False
        detail["not_lazy"] = type(res.data).__name__
    else:
        for sched in ("synchronous", "threads"):
            try:
                with dask.config.set(scheduler=sched):
                    got = res.compute()
            except Exception as e:  # noqa: BLE001  -- the in-memory call answered: failing at compute time is a violation
                prop_ok = False
                detail["compute_failed"] = {"scheduler": sched, "error": exc_kind(e) + ": " + str(e)[:160],
                                            "chunks": case["chunks"]}
                break
            if not same(got, eager[1]):
                prop_ok = False
                detail["values"] = {"scheduler": sched, "dims": [list(got.dims), list(eager[1].dims)],
                                    "chunks": case["chunks"]}
                break
    # chunk-merging correspondence on the operated dimension
    try:
        # the anchored helper (xgcm/grid_ufunc.py:1038-1073) is private: if it has been renamed or inlined, this one
        # correspondence is skipped - its effect is still observed through the chunks of every lazy result
        from xgcm.grid_ufunc import _get_chunk_pattern_for_merging_boundary
    except ImportError:
        _get_chunk_pattern_for_merging_boundary = None
    if case["kind"] == "simple" and core_chunked and _get_chunk_pattern_for_merging_boundary is not None:
        import xgcm
        layout = Layout(case["layout"]["axes"], [tuple(e) for e in case["layout"]["extra"]])
        ds, grid = build_grid(layout, boundary="fill")
        d = layout.axis(case["axis"])["coords"][case["from"]]
        orig = {d: tuple(case["chunks"][d])}
        lo, hi = (case["seed"] % 3), ((case["seed"] // 3) % 3)
        dummy = xr.DataArray(np.zeros(sum(orig[d]) + lo + hi), dims=[d])
        pat = _get_chunk_pattern_for_merging_boundary(grid, dummy, orig, {case["axis"]: (lo, hi)})[d]
        ans = drv.ask(f"c06merge {len(orig[d])} {' '.join(map(str, orig[d]))} {lo} {hi}").split(" ")[1:]
        if list(map(int, ans)) != list(pat):
            corr_ok = False
            detail["merge"] = {"impl": list(pat), "model": ans}
    return {"corr_ok": corr_ok, "prop_ok": prop_ok,
            "branch": case["kind"] + ":" + case["op"] + (":vector" if case.get("vector") else "")
            + (":corechunked" if core_chunked else ""), "detail": detail or None}


def known(case, verdict):
    """C06-overlap-depth-exceeds-chunk: apply_as_grid_ufunc(map_overlap=True) where, after xgcm has merged the
    padding into the first/last chunk, a chunk of a core dimension is smaller than the overlap depth on that axis:
    dask.array.map_overlap then merges chunks on its own and refuses the chunk sizes xgcm announces (ValueError
    '... adjust_chunks specified with ...').  Only this refusal, only through an explicit map_overlap=True with a
    boundary width > 1 (the predefined operations have widths <= 1 and cannot reach it)."""
    if case.get("kind") == "simple" and str(case.get("op", "")).startswith("ufunc2") and case.get("boundary") == "periodic":
        # C06-dask-wrap-wider-than-axis: dask.array.pad(mode="wrap") returns a wrong result (too short / wrong
        # values) when a pad width exceeds the length of the axis, numpy's does not; xgcm hands the periodic rule
        # to whichever backs the data.  Only user ufuncs can ask for such widths (predefined widths are <= 1).
        layout = Layout(case["layout"]["axes"], [tuple(e) for e in case["layout"]["extra"]])
        for n, (lo, hi) in case["bw2"].items():
            dim = layout.axis(n)["coords"][case["pos_all"][n]]
            if max(lo, hi) > sum(case["chunks"][dim]):
                return "C06-dask-wrap-wider-than-axis"
    d = (verdict.get("detail") or {}).get("refused")
    if case.get("kind") != "simple" or case.get("op") != "ufunc2_overlap" or not d:
        return None
    lazy = d["lazy"]
    if lazy[1] != "ValueError" or "adjust_chunks specified with" not in lazy[2]:
        return None
    layout = Layout(case["layout"]["axes"], [tuple(e) for e in case["layout"]["extra"]])
    for n, (lo, hi) in case["bw2"].items():
        dim = layout.axis(n)["coords"][case["pos_all"][n]]
        m = list(case["chunks"][dim])
        m[0] += lo
        m[-1] += hi
        if max(lo, hi) > 1 and min(m) < max(lo, hi):
            return "C06-overlap-depth-exceeds-chunk"
    return None


def nontrivial(case, verdict):
    return case["kind"] == "faces" or "corechunked" in verdict.get("branch", "") or "refused" in verdict.get("branch", "")

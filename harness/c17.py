"""C17 — only reciprocal face-connection tables are accepted.

Families (as in the property's quantifier):
  A  all 625 tables over 2 faces and one axis                      (exhaustive, every tier)
  B  every one-edit neighbour of a consistent 2 faces x 2 axes table and of a 3-face table
     (exhaustive); two-edit neighbours: exhaustive in the thorough tier, sampled in quick
  C  random consistent tables of up to 6 faces with self-links, plus random edits
  D  more than one face dimension / a face dimension absent from the dataset
Outcome compared: accept vs refuse (implementation, Lean model `assignFaceConnections`,
independent reciprocity oracle written from the property statement).
"""
from __future__ import annotations

import copy
import itertools
import random

import numpy as np
import xarray as xr

RULE = ("families A (625 two-face one-axis tables, exhaustive), B (all one-edit and two-edit neighbours of "
        "consistent 2x2 and 3-face tables; two-edit sampled in quick), C (random consistent tables <= 6 faces "
        "with self-links + edits), D (face-dimension count / existence); non-trivial = table has at least "
        "one link; distinct by table")

AXES = ["X", "Y"]


def consistent_2x2():
    # two faces side by side in X (periodic), each periodic onto itself in Y
    return {0: {"X": [[1, "X", False], [1, "X", False]], "Y": [[0, "Y", False], [0, "Y", False]]},
            1: {"X": [[0, "X", False], [0, "X", False]], "Y": [[1, "Y", False], [1, "Y", False]]}}


def consistent_3():
    # 0 -X-> 1 (same axis); 1 -X right-> 2 -Y left (swapped); 2.X right <-> 0.X left reversed? keep simple:
    return {0: {"X": [None, [1, "X", False]], "Y": [None, [2, "X", True]]},
            1: {"X": [[0, "X", False], [2, "Y", False]]},
            2: {"Y": [[1, "X", False], None], "X": [None, [0, "Y", True]]}}


def slots(tbl):
    return [(f, a, s) for f in tbl for a in tbl[f] for s in (0, 1)]


def values(nfaces, axes):
    return [None] + [[f, a, r] for f in range(nfaces) for a in axes for r in (False, True)]


def one_edits(tbl, nfaces, axes):
    for (f, a, s) in slots(tbl):
        for v in values(nfaces, axes):
            if v != tbl[f][a][s]:
                t = copy.deepcopy(tbl)
                t[f][a][s] = v
                yield t


def fixed_cases(tier):
    out = []
    opts = [None] + [[f, "X", r] for f in (0, 1) for r in (False, True)]
    for l0, r0, l1, r1 in itertools.product(opts, repeat=4):
        out.append({"fam": "A", "nfaces": 2, "axes": ["X"], "fc": {"face": {0: {"X": [l0, r0]}, 1: {"X": [l1, r1]}}},
                    "ds_face": True})
    rng = random.Random(17)
    for base, nf in ((consistent_2x2(), 2), (consistent_3(), 3)):
        out.append({"fam": "B0", "nfaces": nf, "axes": AXES, "fc": {"face": base}, "ds_face": True})
        ones = list(one_edits(base, nf, AXES))
        for t in ones:
            out.append({"fam": "B1", "nfaces": nf, "axes": AXES, "fc": {"face": t}, "ds_face": True})
        twos = []
        for t in ones:
            for t2 in one_edits(t, nf, AXES):
                twos.append(t2)
        if tier != "thorough":
            twos = rng.sample(twos, 400)
        for t in twos:
            out.append({"fam": "B2", "nfaces": nf, "axes": AXES, "fc": {"face": t}, "ds_face": True})
    # D
    base = consistent_2x2()
    out.append({"fam": "D", "nfaces": 2, "axes": AXES, "fc": {"face": base, "tile": base}, "ds_face": True})
    out.append({"fam": "D", "nfaces": 2, "axes": AXES, "fc": {"face": base}, "ds_face": False})
    out.append({"fam": "D", "nfaces": 2, "axes": AXES, "fc": {"tile": base}, "ds_face": True})
    # the key names something the dataset HAS, but not as a dimension: a non-dimension coordinate / a data variable
    # holding the face labels ("the face dimension exists" is about dimensions)
    out.append({"fam": "D", "nfaces": 2, "axes": AXES, "fc": {"face": base}, "ds_face": "coord_only"})
    out.append({"fam": "D", "nfaces": 2, "axes": AXES, "fc": {"panel": base}, "ds_face": "with_panel_variable"})
    for c in out:
        c["fc"] = _strkeys(c["fc"])
    return out


def _strkeys(fc):
    return {d: {str(f): v for f, v in t.items()} for d, t in fc.items()}


def random_consistent(rng, nfaces):
    tbl = {f: {a: [None, None] for a in AXES} for f in range(nfaces)}
    free = [(f, a, s) for f in range(nfaces) for a in AXES for s in (0, 1)]
    rng.shuffle(free)
    while len(free) >= 1 and rng.random() < 0.85:
        f, a, s = free.pop()
        # partner slot: any free slot, or the same slot (self-link onto itself when reversed)
        cands = [x for x in free]
        if not cands:
            break
        g, b, s2 = rng.choice(cands)
        rev = (s == s2)
        free.remove((g, b, s2))
        tbl[f][a][s] = [g, b, rev]
        tbl[g][b][s2] = [f, a, rev]
    # drop empty axis entries sometimes
    for f in tbl:
        for a in list(tbl[f]):
            if tbl[f][a] == [None, None] and rng.random() < 0.5:
                del tbl[f][a]
    return tbl


def gen_case(rng, tier, i):
    nf = rng.randint(2, 6)
    tbl = random_consistent(rng, nf)
    k = rng.choice([0, 0, 1, 1, 2])
    for _ in range(k):
        sl = slots(tbl)
        if not sl:
            break
        f, a, s = rng.choice(sl)
        tbl[f][a][s] = rng.choice(values(nf, AXES))
    case = {"fam": "C", "nfaces": nf, "axes": AXES, "fc": _strkeys({"face": tbl}), "ds_face": True}
    if rng.random() < 0.2:
        # the face coordinate need not be 0..n-1: the table then speaks in those labels
        case["labels"] = rng.choice([[i + 1 for i in range(nf)], [10 * (i + 1) for i in range(nf)],
                                     [nf - 1 - i for i in range(nf)]])
    case["spell_seed"] = rng.randrange(1 << 30)     # which links / pairs are written as lists instead of tuples
    return case


def oracle(case):
    """reciprocity per the property statement; independent of the code's order of checks"""
    fc = case["fc"]
    if len(fc) != 1:
        return False
    facedim = next(iter(fc))
    if facedim != "face" or case["ds_face"] is not True:
        return False
    tbl = {int(f): v for f, v in fc[facedim].items()}
    faces = set(range(case["nfaces"]))
    axes = set(case["axes"])
    for f, entries in tbl.items():
        for a, (left, right) in entries.items():
            if a not in axes:
                return False
            for s, lk in ((0, left), (1, right)):
                if lk is None:
                    continue
                g, b, rev = lk
                if g not in faces or b not in axes or f not in faces:
                    return False
                back_side = s if rev else 1 - s
                try:
                    back = tbl[g][b][back_side]
                except KeyError:
                    return False
                if back is None or list(back) != [f, a, rev]:
                    return False
    return True


def enc_link(lk):
    if lk is None:
        return "N"
    return f"L {lk[0]} {lk[1]} {'T' if lk[2] else 'F'}"


def eval_case(case, drv):
    import xgcm
    nf = case["nfaces"]
    n = 3
    coords = {"xc": ("xc", np.arange(n) + 0.5), "xg": ("xg", np.arange(n) * 1.0),
              "yc": ("yc", np.arange(n) + 0.5), "yg": ("yg", np.arange(n) * 1.0)}
    if case["ds_face"]:
        coords["face"] = ("face", np.arange(nf))
    ds = xr.Dataset(coords=coords)
    gcoords = {"X": {"center": "xc", "left": "xg"}, "Y": {"center": "yc", "left": "yg"}}
    gcoords = {a: gcoords[a] for a in case["axes"]}
    import random
    labels = case.get("labels") or list(range(nf))
    if case["ds_face"]:
        coords["face"] = ("face", np.array(labels))
        ds = xr.Dataset(coords=coords)
        if case["ds_face"] == "coord_only":
            ds = ds.rename_dims({"face": "tile"})           # `face` survives as a coordinate along `tile`
        elif case["ds_face"] == "with_panel_variable":
            ds = ds.assign(panel=("face", np.array(labels)))

    def lab(i):
        return labels[i] if 0 <= i < nf else (max(labels) + 1 + i)        # a face that does not exist stays one
    sp = random.Random(case.get("spell_seed", 0))
    use_lists = "spell_seed" in case

    def spell(x):
        return list(x) if (use_lists and sp.random() < 0.3) else tuple(x)
    fc = {d: {lab(int(f)): {a: spell(None if lk is None else spell([lab(int(lk[0])), lk[1], lk[2]]) for lk in pr)
                            for a, pr in ent.items()}
              for f, ent in t.items()} for d, t in case["fc"].items()}
    try:
        xgcm.Grid(ds, coords=gcoords, face_connections=fc, autoparse_metadata=False)
        impl = True
    except Exception:  # noqa: BLE001
        impl = False
    facedim = next(iter(case["fc"]))
    tbl = case["fc"][facedim]
    req = (f"{len(case['fc'])} {' '.join(case['fc'])} {len(ds.dims)} {' '.join(map(str, ds.dims))} "
           f"{len(tbl)}" + "".join(
               f" {f} {len(ent)}" + "".join(f" {a} {enc_link(pr[0])} {enc_link(pr[1])}" for a, pr in ent.items())
               for f, ent in tbl.items())
           + f" {len(case['axes'])} {' '.join(case['axes'])} {nf} {' '.join(str(i) for i in range(nf))}")
    model = drv.ask("c17 " + req) == "ok"
    want = oracle(case)
    return {"corr_ok": impl == model, "prop_ok": impl == want,
            "branch": case["fam"] + (":accept" if impl else ":refuse"),
            "detail": None if impl == model == want else {"impl": impl, "model": model, "oracle": want}}


def nontrivial(case, verdict):
    return any(lk is not None for t in case["fc"].values() for ent in t.values()
               for pr in ent.values() for lk in pr)

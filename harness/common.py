"""Shared harness machinery: Lean driver subprocess, exact-rational encoding,
grid / dataset builders, result bookkeeping.  Runs under /venv/bin/python with
the real xgcm imported from /repo (editable install -> current working tree).
"""
from __future__ import annotations

import hashlib
import json
import os
import random
import subprocess
import sys
import time
import warnings
from collections import Counter
from fractions import Fraction

VERIF = os.path.dirname(os.path.dirname(os.path.abspath(__file__)))
REPO = os.environ.get("XGCM_REPO", "/repo")
DRIVER = os.environ.get("XGCM_DRIVER") or os.path.join(VERIF, "lean", ".lake", "build", "bin", "driver")
if "XGCM_REPO" in os.environ:          # development aid: run the harness against another checkout
    sys.path.insert(0, REPO)

# numba stand-in (pure Python) so that xgcm.transform imports; xgcm untouched
sys.path.insert(0, os.path.join(VERIF, "shims"))
os.environ.setdefault("XGCM_XGCM_VERIF", "1")

warnings.filterwarnings("ignore")

import numpy as np  # noqa: E402
import xarray as xr  # noqa: E402

POSITIONS = ["center", "left", "right", "inner", "outer"]
RULES = ["periodic", "fill", "extend"]


def pos_len(n, pos):
    return {"center": n, "left": n, "right": n, "inner": n - 1, "outer": n + 1}[pos]


# ---------------------------------------------------------------------------
# Lean driver
# ---------------------------------------------------------------------------

class Driver:
    def __init__(self):
        if not os.path.exists(DRIVER):
            raise RuntimeError(f"driver not built: {DRIVER}")
        self.p = subprocess.Popen([DRIVER], stdin=subprocess.PIPE, stdout=subprocess.PIPE,
                                  text=True, bufsize=1)
        self.n = 0

    def ask(self, line: str) -> str:
        assert "\n" not in line
        self.p.stdin.write(line + "\n")
        self.p.stdin.flush()
        out = self.p.stdout.readline()
        if not out:
            raise RuntimeError("driver died on: " + line[:200])
        self.n += 1
        return out.rstrip("\n")

    def close(self):
        try:
            self.p.stdin.close()
            self.p.wait(timeout=5)
        except Exception:
            self.p.kill()


# ---------------------------------------------------------------------------
# exact encoding
# ---------------------------------------------------------------------------

class _NaN:
    """exact stand-in for a missing value: equal to itself, different from every number, absorbing in arithmetic"""
    def __eq__(self, other):
        return other is self
    def __ne__(self, other):
        return other is not self
    def __hash__(self):
        return 7
    def __neg__(self):
        return self
    def _absorb(self, *_):
        return self
    __add__ = __radd__ = __sub__ = __rsub__ = __mul__ = __rmul__ = __truediv__ = __rtruediv__ = _absorb
    def __repr__(self):
        return "nan"


NAN = _NaN()
NAN_SENTINEL = Fraction(987654321)   # what a missing value is replaced by where a MODEL only moves values around


def frac(x):
    if isinstance(x, Fraction):
        return x
    if isinstance(x, _NaN):
        return x
    if isinstance(x, (int, np.integer)):
        return Fraction(int(x))
    x = float(x)
    if x != x:
        return NAN
    return Fraction(x)  # exact value of the float


def enc_rat(x) -> str:
    f = frac(x)
    if f is NAN:
        f = NAN_SENTINEL
    return str(f.numerator) if f.denominator == 1 else f"{f.numerator}/{f.denominator}"


def dec_rat(t: str) -> Fraction:
    if "/" in t:
        p, q = t.split("/")
        return Fraction(int(p), int(q))
    return Fraction(int(t))


def enc_arr(dims, values) -> str:
    """values: numpy array (float/int) with len(dims) axes"""
    a = np.asarray(values)
    assert a.ndim == len(dims), (a.shape, dims)
    toks = [str(len(dims))] + [str(d) for d in dims] + [str(s) for s in a.shape]
    toks += [enc_rat(v) for v in a.reshape(-1).tolist()]
    return " ".join(toks)


def dec_arr(tokens):
    """returns (dims, shape, list[Fraction]) and the remaining tokens"""
    k = int(tokens[0])
    dims = tokens[1:1 + k]
    shape = [int(t) for t in tokens[1 + k:1 + 2 * k]]
    total = 1
    for s in shape:
        total *= s
    data = [dec_rat(t) for t in tokens[1 + 2 * k:1 + 2 * k + total]]
    return (dims, shape, data), tokens[1 + 2 * k + total:]


def enc_kw(kw, enc=str) -> str:
    """None -> N ; scalar -> S v ; dict -> D k (ax v)*"""
    if kw is None:
        return "N"
    if isinstance(kw, dict):
        kw = {a: v for a, v in kw.items() if v is not None}      # an entry that says None says nothing
        return "D " + str(len(kw)) + "".join(f" {a} {enc(v)}" for a, v in kw.items())
    return "S " + enc(kw)


def enc_axis(name, boundary, fill, coords: dict, default_shifts: dict | None = None) -> str:
    ds = default_shifts or {}
    return (f"{name} {boundary} {enc_rat(fill)} {len(coords)}"
            + "".join(f" {p} {d}" for p, d in coords.items())
            + f" {len(ds)}" + "".join(f" {p} {q}" for p, q in ds.items()))


def enc_grid(axes: list) -> str:
    """axes: list of (name, boundary, fill, coords, default_shifts)"""
    return str(len(axes)) + "".join(" " + enc_axis(*a) for a in axes)


def canon_da(da: xr.DataArray):
    """(dims, shape, list[Fraction]) of a DataArray (exact values of the floats)"""
    vals = np.asarray(da.values)
    return (list(map(str, da.dims)), list(vals.shape), [frac(v) for v in vals.reshape(-1).tolist()])


def parse_res(line: str):
    """driver answer -> ('ok', (dims, shape, data)) | ('err', kind) | ('none', None)"""
    toks = line.split(" ")
    if toks[0] == "ok":
        arr, rest = dec_arr(toks[1:])
        assert not rest, rest
        return ("ok", arr)
    if toks[0] == "err":
        return ("err", toks[1])
    if toks[0] == "none":
        return ("none", None)
    raise RuntimeError("driver protocol error: " + line[:300])


def exc_kind(e: BaseException) -> str:
    for cls, name in ((KeyError, "KeyError"), (IndexError, "IndexError"),
                      (NotImplementedError, "NotImplementedError"),
                      (ValueError, "ValueError"), (TypeError, "TypeError"),
                      (RuntimeError, "RuntimeError"), (ImportError, "ImportError")):
        if isinstance(e, cls):
            return name
    return "other"


def same_arr(a, b, tol=None) -> bool:
    """a, b: (dims, shape, data[Fraction])"""
    if a[0] != b[0] or a[1] != b[1]:
        return False
    if tol is None:
        return a[2] == b[2]
    for x, y in zip(a[2], b[2]):
        if x == y:
            continue
        if abs(x - y) > tol * max(1, abs(x), abs(y)):
            return False
    return True


# ---------------------------------------------------------------------------
# generators
# ---------------------------------------------------------------------------

def dyadic(rng: random.Random, lo=-64, hi=64, denom_pow=3) -> float:
    """small dyadic rational: exact under every float64 + - min max /2 used here"""
    q = 1 << rng.randint(0, denom_pow)
    return rng.randint(lo * q, hi * q) / q


def fillv(rng: random.Random) -> float:
    """a fill value: zero (falsy in Python, and the library default) about a third of the time"""
    return 0.0 if rng.random() < 0.3 else dyadic(rng)


def dyadic_array(rng: random.Random, shape) -> np.ndarray:
    total = int(np.prod(shape)) if len(shape) else 1
    return np.array([dyadic(rng) for _ in range(total)], dtype=float).reshape(shape)


NAME_POOL_AXES = ["X", "Y", "Z"]


class Layout:
    """A simple (no face connections) grid layout: axes with position->dim, cell counts,
    extra dims; builds the xarray Dataset and the argument dicts."""

    def __init__(self, axes, extra):
        # axes: list of dict(name, n, coords{pos:dim});  extra: list of (dim, size)
        self.axes = axes
        self.extra = extra

    @staticmethod
    def random(rng, n_axes=None, nmin=2, nmax=7, max_extra=3, names=None):
        n_axes = n_axes or rng.randint(1, 3)
        names = names or NAME_POOL_AXES
        axes = []
        for i in range(n_axes):
            name = names[i]
            others = [p for p in POSITIONS[1:] if rng.random() < 0.55]
            if not others:
                others = [rng.choice(POSITIONS[1:])]
            poss = ["center"] + others
            rng.shuffle(poss)
            n = rng.randint(nmin, nmax)
            coords = {p: f"{name.lower()}_{p[0]}" for p in poss}
            axes.append(dict(name=name, n=n, coords=coords))
        extra = [(f"e{j}", rng.randint(1, 3)) for j in range(rng.randint(0, max_extra))]
        return Layout(axes, extra)

    def dataset(self) -> xr.Dataset:
        coords = {}
        for ax in self.axes:
            for p, d in ax["coords"].items():
                L = pos_len(ax["n"], p)
                off = {"center": 0.5, "left": 0.0, "right": 1.0, "inner": 1.0, "outer": 0.0}[p]
                coords[d] = (d, np.arange(L, dtype=float) + off)
        for d, s in self.extra:
            coords[d] = (d, np.arange(s, dtype=float))
        return xr.Dataset(coords=coords)

    def coords_arg(self):
        return {ax["name"]: dict(ax["coords"]) for ax in self.axes}

    def axis(self, name):
        return next(a for a in self.axes if a["name"] == name)


def build_grid(layout: Layout, **kwargs):
    import xgcm
    ds = layout.dataset()
    return ds, xgcm.Grid(ds, coords=layout.coords_arg(), autoparse_metadata=False, **kwargs)


def grid_axes_for_driver(grid):
    """read the resolved per-axis settings off the real Grid (used where the
    property under test is not the resolution itself)"""
    out = []
    for name, ax in grid.axes.items():
        out.append((name, ax.boundary, ax.fill_value, dict(ax.coords), dict(ax.default_shifts)))
    return out


# ---------------------------------------------------------------------------
# results
# ---------------------------------------------------------------------------

def digest(obj) -> str:
    return hashlib.sha1(json.dumps(obj, sort_keys=True, default=str).encode()).hexdigest()[:16]


class Outcome:
    """What one harness run found."""

    def __init__(self, prop):
        self.prop = prop
        self.evaluations = 0
        self.nontrivial = set()
        self.samples = []
        self.hist = Counter()
        self.corr_mismatch = []     # impl vs model differ (correspondence broken)
        self.violations = []        # impl vs property (spec / relation) differ: concrete failing input
        self.known_hits = []        # (finding id, what)
        self.notes = []
        self.exhaustive = False

    def sample(self, case, limit=4):
        if len(self.samples) < limit:
            self.samples.append(case)

    def count(self, case_key, nontrivial: bool):
        self.evaluations += 1
        if nontrivial:
            self.nontrivial.add(digest(case_key))


class Budget:
    def __init__(self, seconds):
        self.t0 = time.time()
        self.seconds = seconds

    def left(self):
        return self.seconds - (time.time() - self.t0)

    def ok(self):
        return self.left() > 0


def load_known():
    with open(os.path.join(VERIF, "known_findings.json")) as f:
        return json.load(f)

"""Probe script for C12: run in a FRESH interpreter under a given PYTHONHASHSEED; prints one canonical
JSON document.  Argument: a JSON case on stdin."""
import json
import sys
import warnings

sys.path.insert(0, "/verif/harness")
sys.path.insert(0, "/verif/shims")
warnings.simplefilter("ignore")

import numpy as np  # noqa: E402
import xarray as xr  # noqa: E402

import facegrid as fg  # noqa: E402


def main():
    import xgcm
    from xgcm.grid_ufunc import _GridUFuncSignature
    from xgcm.padding import pad
    case = json.load(sys.stdin)
    out = {}
    # 1. halo corners of a padded face-connected array, the link table inserted in the given order
    nf, N = case["nf"], case["N"]
    ds = fg.dataset(nf, N, [])
    tbl = {}
    for f in case["face_order"]:
        ent = case["tbl"][str(f)]
        tbl[int(f)] = {a: ent[a] for a in case["axis_order"][str(f)] if a in ent}
    coords = {a: dict(fg.GRID_COORDS[a]) for a in case["grid_axis_order"]}
    grid = fg.make_grid(ds, tbl, case["boundary"], case["fill"], coords=coords)
    data = xr.DataArray(np.array(case["data"], dtype=float).reshape(nf, N, N), dims=["face", "xc", "yc"])
    bw = {a: tuple(case["widths"][a]) for a in case["width_order"]}
    try:
        res = pad(data, grid, boundary_width=bw)
        out["pad"] = {"dims": sorted(res.dims), "values": res.transpose("face", "xc", "yc").values.tolist()}
    except Exception as e:  # noqa: BLE001
        out["pad"] = "err:" + type(e).__name__
    try:
        r2 = grid.diff(data, ["X", "Y"], to="left")
        out["diff2"] = r2.transpose("face", "xg", "yg").values.tolist()
    except Exception as e:  # noqa: BLE001
        out["diff2"] = "err:" + type(e).__name__
    # 2. equivalence of renamed multi-axis signatures
    eq = []
    for a, b in case["sig_pairs"]:
        sa, sb = _GridUFuncSignature.from_string(a), _GridUFuncSignature.from_string(b)
        eq.append([bool(sa.equivalent(sb)), bool(sb.equivalent(sa))])
    out["equivalent"] = eq
    # 3. axis order of a Grid built from parsed metadata (COMODO and SGRID)
    cds = xr.Dataset(coords={d: xr.DataArray(np.arange(n, dtype=float), dims=[d], attrs=at)
                             for d, n, at in case["comodo_dims"]})
    g = xgcm.Grid(cds, periodic=False)
    out["comodo_axes"] = list(g.axes)
    arr = xr.DataArray(np.arange(int(np.prod([n for _, n, _ in case["comodo_centers"]])), dtype=float).reshape(
        [n for _, n, _ in case["comodo_centers"]]), dims=[d for d, _, _ in case["comodo_centers"]])
    out["comodo_multi"] = g.interp(arr, list(g.axes)).values.tolist() if len(g.axes) else None
    sds = xr.Dataset({"grid": xr.DataArray(0, attrs=case["sgrid_attrs"])},
                     coords={d: (d, np.arange(n, dtype=float)) for d, n in case["sgrid_dims"]},
                     attrs={"Conventions": "SGRID-0.3"})
    out["sgrid_axes"] = list(xgcm.Grid(sds, periodic=False).axes)
    # 4. the choice among alternative metric products
    mds = xr.Dataset(coords={d: (d, np.arange(n, dtype=float)) for d, n in case["metric_dims"]})
    for name, dims, val in case["metric_vars"]:
        mds[name] = (dims, np.full([mds.sizes[d] for d in dims], float(val)))
    mg = xgcm.Grid(mds, coords=case["metric_coords"], periodic=False, autoparse_metadata=False)
    for key, names in case["metric_registry"]:
        mg.set_metrics(tuple(key), names)
    arr = xr.DataArray(np.zeros([mds.sizes[d] for d in case["metric_array_dims"]]), dims=case["metric_array_dims"])
    sel = []
    for axes in case["metric_queries"]:
        try:
            m = mg.get_metric(arr, axes)
            sel.append([float(np.asarray(m.values).reshape(-1)[0]), [str(d) for d in m.dims]])
        except Exception as e:  # noqa: BLE001
            sel.append("err:" + type(e).__name__)
    out["metric_choice"] = sel
    # 5. a metric that has to be interpolated along TWO axes at once (cell centre -> corner): the order of the two
    #    1-D interpolations must not follow a set's iteration order (non-dyadic values: the last bit shows the order)
    n = 4
    cds = xr.Dataset(coords={"xc": ("xc", np.arange(n) + 0.5), "xg": ("xg", np.arange(n) * 1.0),
                             "yc": ("yc", np.arange(n) + 0.5), "yg": ("yg", np.arange(n) * 1.0)})
    cds["area"] = (("xc", "yc"), np.sqrt(np.arange(2.0, 2.0 + n * n)).reshape(n, n) / 3.0)
    cg = xgcm.Grid(cds, coords={"X": {"center": "xc", "left": "xg"}, "Y": {"center": "yc", "left": "yg"}},
                   periodic=False, boundary="extend", metrics={("X", "Y"): ["area"]}, autoparse_metadata=False)
    corner = xr.DataArray(np.ones((n, n)), dims=["xg", "yg"])
    import warnings
    with warnings.catch_warnings():
        warnings.simplefilter("ignore")
        m = cg.get_metric(corner, ("X", "Y"))
        il = cg.interp_like(cds["area"], corner, "extend", None)
    out["two_axis_interp"] = [[float(v).hex() for v in np.asarray(x.transpose("xg", "yg").values).reshape(-1)] for x in (m, il)]
    print(json.dumps(out, sort_keys=True))


main()

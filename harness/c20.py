"""C20 — ill-posed requests raise instead of returning an array.

Base calls come from the generators of the other properties (C01 operators, C09 cumsum, C07/C08
transforms, C11 grid ufuncs); every case applies ONE ill-posing edit from the property's classes and
requires an exception (any type) from the real xgcm; for the operator / cumsum classes the Lean model
(`c01` / `c09`) must refuse too (correspondence).
"""
from __future__ import annotations

import copy

import numpy as np
import xarray as xr

import c01
import c09
from common import (Layout, build_grid, enc_arr, enc_grid, enc_kw, enc_rat, exc_kind, grid_axes_for_driver,
                    parse_res)

RULE = ("valid base calls from the C01/C09 generators plus transform and grid-ufunc base calls; one ill-posing edit "
        "each: unknown axis, data lacking / doubling the axis dimension, same-position or missing-position shift, "
        "unknown boundary word (scalar / mapping, also on shifts that need no padding), unknown position word, "
        "non-numeric fill value (also with a rule that ignores it), transform on a periodic axis, non-monotonic "
        "conservative bins, conservative without outer, ufunc inputs off position / wrong count; every case is "
        "non-trivial; distinct by case")

EDITS_OP = ["unknown_axis", "lacking_dim", "double_dim", "same_position", "missing_position",
            "bad_boundary", "bad_boundary_map", "bad_position_word", "bad_fill", "bad_fill_map"]
EDITS_OTHER = ["transform_periodic", "nonmonotonic_bins", "conservative_no_outer", "ufunc_offpos", "ufunc_count",
               "pad_unknown_axis", "metric_on_illposed_data"]


def gen_case(rng, tier, i):
    r = rng.random()
    if r < 0.55:
        return {"fam": "op", "base": c01.gen_case(rng, tier, i), "edit": rng.choice(EDITS_OP), "salt": rng.randrange(1 << 30)}
    if r < 0.75:
        base = c09.gen_case(rng, tier, i)
        while base["kind"] != "cumsum":
            base = c09.gen_case(rng, tier, i)
        return {"fam": "cumsum", "base": base, "edit": rng.choice(EDITS_OP), "salt": rng.randrange(1 << 30)}
    return {"fam": "other", "edit": rng.choice(EDITS_OTHER), "n": rng.randint(2, 5), "salt": rng.randrange(1 << 30)}


def apply_edit(case):
    """-> (edited base case, extra) or None when the edit does not apply to this base"""
    import random
    rng = random.Random(case["salt"])
    b = copy.deepcopy(case["base"])
    call = b["call"]
    axis = call["axis"] if isinstance(call["axis"], list) else [call["axis"]]
    layout = Layout(b["layout"]["axes"], b["layout"]["extra"])
    ax = rng.choice(axis)
    a = layout.axis(ax)
    from_pos = next((p for p, d in a["coords"].items() if d in b["dims"]), None)
    e = case["edit"]
    if e == "unknown_axis":
        call["axis"] = [x if x != ax else "Q" for x in axis]
    elif e == "lacking_dim":
        d = a["coords"][from_pos]
        b["dims"] = [x if x != d else "somewhere" for x in b["dims"]]
        b["rename_dim"] = [d, "somewhere"]
    elif e == "double_dim":
        other = [d for p, d in a["coords"].items() if p != from_pos]
        if not other:
            return None
        b["extra_axis_dim"] = [other[0], 2]
    elif e == "same_position":
        to = call.get("to")
        call["to"] = {**(to if isinstance(to, dict) else {x: to for x in axis} if isinstance(to, str) else {}),
                      ax: from_pos}
    elif e == "missing_position":
        lacking = [p for p in ("left", "right", "inner", "outer", "center") if p not in a["coords"]]
        if not lacking:
            return None
        to = call.get("to")
        call["to"] = {**(to if isinstance(to, dict) else {x: to for x in axis} if isinstance(to, str) else {}),
                      ax: rng.choice(lacking)}
    elif e == "bad_boundary":
        call["boundary"] = "bogus"
    elif e == "bad_boundary_map":
        call["boundary"] = {ax: "reflect"}
    elif e == "bad_position_word":
        to = call.get("to")
        call["to"] = {**(to if isinstance(to, dict) else {x: to for x in axis} if isinstance(to, str) else {}),
                      ax: "middle"}
    elif e == "bad_fill":
        call["fill_value"] = "abc"
    elif e == "bad_fill_map":
        call["fill_value"] = {ax: "abc"}
    return b


def run_op(case, b, drv):
    layout = Layout(b["layout"]["axes"], [tuple(x) for x in b["layout"]["extra"]])
    ds, grid = build_grid(layout, **b["ctor"])
    dims = list(b["dims"])
    src_dims = [b["rename_dim"][0] if ("rename_dim" in b and d == b["rename_dim"][1]) else d for d in dims]
    shape = [ds.sizes[d] for d in src_dims]
    vals = np.array(b["data"], dtype=float).reshape(shape)
    da = xr.DataArray(vals, dims=dims, name="phi")
    if "extra_axis_dim" in b:
        d, s = b["extra_axis_dim"]
        da = da.expand_dims({d: ds.sizes[d]})
    call = b["call"]
    kwargs = {k: copy.deepcopy(call[k]) for k in ("to", "boundary", "fill_value") if call.get(k) is not None}
    fam = case["fam"]
    try:
        if fam == "op":
            getattr(grid, call["func"])(da, call["axis"], **kwargs)
        else:
            ax = call["axis"]
            grid.cumsum(da, ax if len(ax) > 1 else ax[0], **kwargs)
        impl = "returned"
    except Exception as e:  # noqa: BLE001
        impl = "raised:" + exc_kind(e)
    # model (not for the fill edits: the typed model has no non-numeric fill)
    model = None
    if case["edit"] not in ("bad_fill", "bad_fill_map"):
        axis = call["axis"] if isinstance(call["axis"], list) else [call["axis"]]
        req = (f"{enc_grid(grid_axes_for_driver(grid))} {enc_arr(list(da.dims), da.values)} "
               f"{len(axis)} {' '.join(axis)} {enc_kw(call.get('to'))} {enc_kw(call.get('boundary'))} "
               f"{enc_kw(call.get('fill_value'), enc_rat)}")
        line = (f"c01 {call['func']} " if fam == "op" else "c09 ") + req
        model = parse_res(drv.ask(line))[0]
    return impl, model


def run_other(case):
    import random

    import xgcm
    rng = random.Random(case["salt"])
    n = case["n"]
    e = case["edit"]
    ds = xr.Dataset(coords={"zc": ("zc", np.arange(n) + 0.5), "zo": ("zo", np.arange(n + 1) * 1.0),
                            "zl": ("zl", np.arange(n) * 1.0)})
    da = xr.DataArray(np.arange(n, dtype=float), dims=["zc"], name="phi")
    theta_o = xr.DataArray(np.arange(n + 1, dtype=float) * 2, dims=["zo"], name="theta")
    theta_c = xr.DataArray(np.arange(n, dtype=float) * 2 + 1, dims=["zc"], name="theta")
    try:
        if e == "transform_periodic":
            # every spelling of a periodic axis, every method, every setting of the other options
            spell = rng.choice([dict(boundary="periodic"), dict(boundary={"Z": "periodic"}), dict(periodic=True),
                                dict(periodic=["Z"]), dict()])
            grid = xgcm.Grid(ds, coords={"Z": {"center": "zc", "outer": "zo"}}, autoparse_metadata=False, **spell)
            m = rng.choice(["linear", "log", "conservative"])
            kw = {}
            if rng.random() < 0.5:
                kw["bypass_checks"] = rng.choice([True, False])
            if rng.random() < 0.3:
                kw["mask_edges"] = rng.choice([True, False])
            grid.transform(da, "Z", np.array([1.0, 2.0, 3.0]), target_data=theta_o if m == "conservative" else theta_c,
                           method=m, **kw)
        elif e == "nonmonotonic_bins":
            grid = xgcm.Grid(ds, coords={"Z": {"center": "zc", "outer": "zo"}}, boundary="fill", autoparse_metadata=False)
            bins = rng.choice([[0.0, 3.0, 2.0, 5.0], [4.0, 1.0, 2.0], [0.0, 2.0, 2.0, 3.0]])
            grid.transform(da, "Z", np.array(bins), target_data=theta_o, method="conservative")
        elif e == "conservative_no_outer":
            grid = xgcm.Grid(ds, coords={"Z": {"center": "zc", "left": "zl"}}, boundary="fill", autoparse_metadata=False)
            grid.transform(da, "Z", np.array([0.0, 2.0, 4.0]), target_data=theta_c, method="conservative")
        elif e == "pad_unknown_axis":
            # padding asked along an axis the grid lacks - through pad() itself, on a grid with and without faces
            from xgcm.padding import pad
            import facegrid as fg
            if rng.random() < 0.6:
                fds = fg.dataset(2, 3, [])
                g = fg.make_grid(fds, {0: {"X": [None, [1, "X", False]], "Y": [None, None]},
                                       1: {"X": [[0, "X", False], None], "Y": [None, None]}},
                                 {"X": "fill", "Y": "fill"}, {"X": 0.0, "Y": 0.0})
                arr = xr.DataArray(np.zeros((2, 3, 3)), dims=["face", "xc", "yc"])
            else:
                g = xgcm.Grid(ds, coords={"Z": {"center": "zc", "outer": "zo"}}, boundary="fill", autoparse_metadata=False)
                arr = da
            bw = rng.choice([{"W": (1, 1)}, {"X": (1, 1), "W": (1, 0)}, {"W": (0, 1), "Y": (1, 0)}]) if "X" in g.axes \
                else rng.choice([{"W": (1, 1)}, {"Z": (1, 0), "Q": (0, 1)}])
            pad(arr, g, boundary_width=bw)
        elif e == "metric_on_illposed_data":
            # data with two dimensions of the metric's axis, or none: no metric to hand out
            mds = xr.Dataset(coords={"x": ("x", np.arange(3) + 0.5), "xl": ("xl", np.arange(3.0)), "y": ("y", np.arange(2) + 0.5),
                                     "yl": ("yl", np.arange(2.0))})
            mds["dxc"] = ("x", np.array([1.0, 2.0, 4.0]))
            mds["dxl"] = ("xl", np.array([2.0, 1.0, 0.5]))
            mds["dx_of_y"] = ("y", np.array([3.0, 5.0]))
            mds["dx_of_yl"] = ("yl", np.array([3.0, 5.0]))
            two = rng.random() < 0.6
            g = xgcm.Grid(mds, coords={"X": {"center": "x", "left": "xl"}, "Y": {"center": "y", "left": "yl"}}, boundary="extend",
                          metrics={("X",): ["dxc", "dxl"] if two else ["dx_of_y", "dx_of_yl"]}, autoparse_metadata=False)
            bad = xr.DataArray(np.zeros((2, 3, 3)), dims=["y", "x", "xl"]) if two else xr.DataArray(np.zeros(2), dims=["y"])
            how = rng.choice(["get_metric", "interp_weighted", "diff_weighted"])
            if how == "get_metric":
                g.get_metric(bad, rng.choice(["X", ("X",), ["X"]]))
            elif how == "interp_weighted":
                g.interp(bad, "Y", metric_weighted="X")
            else:
                g.diff(bad, "Y", metric_weighted=("X",))
        elif e == "ufunc_offpos":
            grid = xgcm.Grid(ds, coords={"Z": {"center": "zc", "left": "zl"}}, boundary="fill", autoparse_metadata=False)
            grid.apply_as_grid_ufunc(lambda a: a, xr.DataArray(np.zeros(n), dims=["zl"]), axis=[["Z"]],
                                     signature="(Z:center)->(Z:center)")
        elif e == "ufunc_count":
            grid = xgcm.Grid(ds, coords={"Z": {"center": "zc", "left": "zl"}}, boundary="fill", autoparse_metadata=False)
            k = rng.choice([0, 2])
            args = [da] * k
            grid.apply_as_grid_ufunc(lambda *a: a[0] if a else None, *args, axis=[["Z"]] * (k if rng.random() < 0.5 else 1),
                                     signature="(Z:center)->(Z:center)")
        return "returned"
    except Exception as ex:  # noqa: BLE001
        return "raised:" + exc_kind(ex)


def eval_case(case, drv):
    if case["fam"] == "other":
        impl = run_other(case)
        return {"corr_ok": True, "prop_ok": impl.startswith("raised"), "branch": case["edit"] + ":" + impl,
                "detail": None if impl.startswith("raised") else {"impl": impl}}
    b = apply_edit(case)
    if b is None:
        return {"corr_ok": True, "prop_ok": True, "branch": "edit-not-applicable", "detail": None, "skip": True}
    impl, model = run_op(case, b, drv)
    prop_ok = impl.startswith("raised")
    corr_ok = model is None or (model != "ok") == prop_ok
    detail = None
    if not (prop_ok and corr_ok):
        detail = {"impl": impl, "model": model, "call": b["call"], "dims": b["dims"],
                  "axes": b["layout"]["axes"]}
    return {"corr_ok": corr_ok, "prop_ok": prop_ok, "branch": f"{case['fam']}:{case['edit']}:{impl}", "detail": detail}


def nontrivial(case, verdict):
    return not verdict.get("skip")

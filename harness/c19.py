"""C19 — output coordinates.

A case = a grid dataset with dimension coordinates (or without, for some dimensions) and random
0-D / 1-D / N-D non-dimension coordinates on any mix of positions, an operation (diff, interp, min, max,
cumsum) and shift (padded and unpadded paths), keep_coords true/false, and an input that carries the
dataset's coordinates, none, or altered labels.

  correspondence : the set of coordinate names on the result vs the Lean model `reattach`
  property       : checked statement by statement on the result: the new dimension's coordinate IS the
                   dataset's (values + attrs); dimension coordinates of untouched dims kept; no coordinate
                   on the abandoned dimension; name kept; other dataset coordinates present iff they fit and
                   keep_coords; values independent of the input's labels
"""
from __future__ import annotations

import numpy as np
import xarray as xr

from common import Layout, dyadic_array, exc_kind, pos_len

RULE = ("random layouts (1-2 axes + 0-2 extra dims), dimension coordinates present per dimension with prob 0.8, "
        "0-4 extra non-dimension coordinates (0-D, 1-D, N-D over random dims), ops diff/interp/min/max/cumsum, every "
        "shift the axis offers, keep_coords T/F, input with dataset coords / no coords / altered labels; "
        "non-trivial = the dataset has a non-dimension coordinate or a missing dimension coordinate; distinct by case")


def gen_faces_case(rng, tier, i):
    """the name of the result on a face-connected grid (scalar and vector inputs; across an axis-swapping link
    the halo comes from the OTHER component, whose name must not leak)"""
    import facegrid as fg
    nf = rng.randint(2, 4)
    return {"kind": "faces", "nf": nf, "N": rng.randint(2, 3), "tbl": {str(f): v for f, v in fg.random_links(rng, nf).items()},
            "vec": rng.random() < 0.7, "axis": rng.choice(["X", "Y"]), "op": rng.choice(["diff", "interp", "min", "max"]),
            "seed": rng.randrange(1 << 30)}


def eval_faces(case):
    import random
    import warnings

    import facegrid as fg
    rr = random.Random(case["seed"])
    nf, N = case["nf"], case["N"]
    tbl = {int(f): v for f, v in case["tbl"].items()}
    ds = fg.dataset(nf, N, [])
    grid = fg.make_grid(ds, tbl, {"X": "fill", "Y": "extend"}, {"X": 0.0, "Y": 0.0})
    ax = case["axis"]
    if case["vec"]:
        cd, od = (("xg", "yc"), ("xc", "yg")) if ax == "X" else (("xc", "yg"), ("xg", "yc"))
        comp = xr.DataArray(dyadic_array(rr, [nf, N, N]), dims=["face", *cd], name="mine")
        other = xr.DataArray(dyadic_array(rr, [nf, N, N]), dims=["face", *od], name="partner")
        arg, kw = {ax: comp}, {"other_component": {("Y" if ax == "X" else "X"): other}}
        if case["op"] in ("min", "max"):
            case = dict(case, op="diff")
    else:
        comp = xr.DataArray(dyadic_array(rr, [nf, N, N]), dims=["face", "xc", "yc"], name="mine")
        arg, kw = comp, {"to": "left"}
    with warnings.catch_warnings():
        warnings.simplefilter("ignore")
        try:
            res = getattr(grid, case["op"])(arg, ax, **kw)
        except Exception as e:  # noqa: BLE001
            return {"corr_ok": True, "prop_ok": False, "branch": "faces:refused", "detail": {"impl": exc_kind(e) + ": " + str(e)[:120]}}
    ok = res.name == "mine"
    kinds = sorted(fg.link_kinds(tbl))
    return {"corr_ok": True, "prop_ok": ok, "branch": "faces:" + ("vec" if case["vec"] else "sca"),
            "detail": None if ok else {"name": res.name, "expected": "mine", "link_kinds": kinds}}


def gen_case(rng, tier, i):
    if rng.random() < 0.1:
        return gen_faces_case(rng, tier, i)
    layout = Layout.random(rng, n_axes=rng.randint(1, 2), nmin=2, nmax=4, max_extra=2)
    alld = []
    for a in layout.axes:
        for p, d in a["coords"].items():
            alld.append((d, pos_len(a["n"], p)))
    for d, s in layout.extra:
        alld.append((d, s))
    have_dimcoord = {d: rng.random() < 0.8 for d, _ in alld}
    extra_coords = []
    for k in range(rng.randint(0, 4)):
        nd = rng.choice([0, 1, 1, 2])
        dims = rng.sample([d for d, _ in alld], min(nd, len(alld)))
        # at most one dim per axis
        seen, keep = set(), []
        for d in dims:
            axn = next((a["name"] for a in layout.axes if d in a["coords"].values()), d)
            if axn not in seen:
                seen.add(axn)
                keep.append(d)
        extra_coords.append({"name": f"aux{k}", "dims": keep})
    if rng.random() < 0.1:
        # a dataset without any dimension coordinate whose only coordinates are scalars (a time stamp, a run id)
        have_dimcoord = {d: False for d, _ in alld}
        extra_coords = [{"name": f"aux{k}", "dims": []} for k in range(rng.randint(1, 2))]
    ax = rng.choice(layout.axes)
    frm = rng.choice(list(ax["coords"]))
    tos = [q for q in ax["coords"] if q != "center"] if frm == "center" else ["center"]
    dims = [ax["coords"][frm]]
    for a in layout.axes:
        if a is not ax and rng.random() < 0.7:
            dims.append(a["coords"][rng.choice(list(a["coords"]))])
    for d, s in layout.extra:
        if rng.random() < 0.7:
            dims.append(d)
    rng.shuffle(dims)
    second = None
    for a in layout.axes:
        if a is not ax and rng.random() < 0.6:
            d2 = next((d for d in dims if d in a["coords"].values()), None)
            if d2 is not None:
                f2 = next(p for p, d in a["coords"].items() if d == d2)
                t2 = [q for q in a["coords"] if q != "center"] if f2 == "center" else ["center"]
                second = {"axis": a["name"], "from": f2, "to": rng.choice(t2), "first": rng.random() < 0.5}
    return {"layout": {"axes": layout.axes, "extra": layout.extra}, "have_dimcoord": have_dimcoord, "second": second,
            "extra_coords": extra_coords, "axis": ax["name"], "from": frm, "to": rng.choice(tos), "dims": dims,
            "op": "cumsum" if (second and rng.random() < 0.4) else rng.choice(["diff", "interp", "min", "max", "cumsum"]),
            "keep": rng.random() < 0.5,
            "input": rng.choice(["ds_coords", "none", "altered", "degenerate"]), "lazy": rng.random() < 0.2, "boundary": rng.choice(["fill", "extend", "periodic"]),
            "seed": rng.randrange(1 << 30)}


def eval_case(case, drv):
    if case.get("kind") == "faces":
        return eval_faces(case)
    import random
    import warnings

    import xgcm
    rr = random.Random(case["seed"])
    layout = Layout(case["layout"]["axes"], [tuple(e) for e in case["layout"]["extra"]])
    sizes = {}
    for a in layout.axes:
        for p, d in a["coords"].items():
            sizes[d] = pos_len(a["n"], p)
    for d, s in layout.extra:
        sizes[d] = s
    coords = {}
    for d, n in sizes.items():
        if case["have_dimcoord"].get(d, True):
            coords[d] = xr.DataArray(np.arange(n, dtype=float) * 1.5 + 10, dims=[d], attrs={"units": "u_" + d})
    for ec in case["extra_coords"]:
        shape = [sizes[d] for d in ec["dims"]]
        coords[ec["name"]] = xr.DataArray(np.arange(int(np.prod(shape)) if shape else 1, dtype=float).reshape(shape) + 0.25
                                          if shape else np.array(7.0), dims=ec["dims"], attrs={"long_name": ec["name"]})
    ds = xr.Dataset(coords=coords)
    for d, n in sizes.items():            # dims without coordinate must still exist in the dataset
        if d not in ds.dims:
            ds["_v_" + d] = xr.DataArray(np.zeros(n), dims=[d])
    grid = xgcm.Grid(ds, coords=layout.coords_arg(), boundary=case["boundary"], autoparse_metadata=False)
    dims = case["dims"]
    vals = dyadic_array(rr, [sizes[d] for d in dims])
    da = xr.DataArray(vals, dims=dims, name="phi")
    if case["input"] == "ds_coords":
        da = da.assign_coords({k: v for k, v in ds.coords.items() if set(v.dims) <= set(dims)})
    elif case["input"] == "altered":
        da = da.assign_coords({d: np.arange(sizes[d]) * -3.0 for d in dims})
        da = da.assign_coords(stale=(dims[0], np.arange(sizes[dims[0]]) * 1.0))
    elif case["input"] == "degenerate":
        # labels that are no use as an index: all equal (placeholder coordinates), or a longitude stored modulo 360
        # (first label repeated at the end), or NaN - the VALUES of the result never depend on the input's labels
        kind = case["seed"] % 3
        lab = {}
        for d in dims:
            n_ = sizes[d]
            lab[d] = (np.zeros(n_) if kind == 0 else np.array([(90.0 * i) % 360.0 for i in range(n_ - 1)] + [0.0][: n_ - (n_ - 1)])
                      if kind == 1 else np.full(n_, np.nan))
        da = da.assign_coords(lab)
    if case.get("lazy"):
        da = da.chunk()            # a lazily evaluated input (one chunk): labels and name are treated the same way
    ax = layout.axis(case["axis"])
    old, new = ax["coords"][case["from"]], ax["coords"][case["to"]]
    moves = [(old, new)]
    axis_arg, to_arg = case["axis"], case["to"]
    sec = case.get("second")
    if sec:
        a2 = layout.axis(sec["axis"])
        moves.append((a2["coords"][sec["from"]], a2["coords"][sec["to"]]))
        axis_arg = [sec["axis"], case["axis"]] if sec["first"] else [case["axis"], sec["axis"]]
        to_arg = {case["axis"]: case["to"], sec["axis"]: sec["to"]}
    with warnings.catch_warnings():
        warnings.simplefilter("ignore")
        try:
            res = getattr(grid, case["op"])(da, axis_arg, to=to_arg, keep_coords=case["keep"])
            ref = getattr(grid, case["op"])(xr.DataArray(vals, dims=dims, name="phi"), axis_arg, to=to_arg,
                                            keep_coords=case["keep"])
        except Exception as e:  # noqa: BLE001
            return {"corr_ok": False, "prop_ok": False, "branch": "refused",
                    "detail": {"impl": exc_kind(e) + ": " + str(e)[:160]}}
    detail = {}
    prop_ok = True
    rename = dict(moves)
    res_dims = [rename.get(d, d) for d in dims]
    # model: names of coordinates on the result
    dsc = [(str(k), [str(x) for x in v.dims]) for k, v in ds.coords.items()]
    line = (f"c19 {len(dsc)} " + " ".join(f"{n} {len(dd)} {' '.join(dd)}".strip() for n, dd in dsc)
            + f" {len(res_dims)} {' '.join(res_dims)} {'T' if case['keep'] else 'F'}")
    model = set(drv.ask(line).split(" ")[1:]) - {""}
    got = set(map(str, res.coords))
    # coordinates carried only by the input (not in the grid dataset) are outside the property's statement
    input_only = {str(k) for k in da.coords if k not in ds.coords}
    corr_ok = (got - input_only) == model
    if not corr_ok:
        detail["model"] = {"impl": sorted(got), "model": sorted(model), "input_only": sorted(input_only)}
    # statement by statement
    if list(res.dims) != res_dims and set(res.dims) != set(res_dims):
        prop_ok = False
        detail["dims"] = [list(res.dims), res_dims]
    for _, nw in moves:
        if nw in ds.coords:
            if nw not in res.coords or not np.array_equal(res[nw].values, ds[nw].values) or res[nw].attrs != ds[nw].attrs:
                prop_ok = False
                detail["new_dim_coord"] = {"dim": nw, "have": nw in res.coords}
        elif nw in res.coords:
            # the dataset has no coordinate for the new position: the result must not invent one
            prop_ok = False
            detail["invented_dim_coord"] = {"dim": nw}
    olds = [o for o, _ in moves]
    for d in dims:
        if d not in olds and d in ds.coords:
            if d not in res.coords or not np.array_equal(res[d].values, ds[d].values):
                prop_ok = False
                detail["untouched"] = d
    for k, v in res.coords.items():
        if any(o in v.dims for o in olds):
            prop_ok = False
            detail["stale"] = str(k)
    for k, v in res.coords.items():
        # a coordinate that is the dataset's must carry the dataset's values (not relabelled leftovers)
        if k in ds.coords and k not in res_dims and (set(v.dims) != set(ds[k].dims) or not np.array_equal(
                v.transpose(*ds[k].dims).values, ds[k].values)):
            prop_ok = False
            detail["relabelled"] = str(k)
    if res.name != "phi":
        prop_ok = False
        detail["name"] = res.name
    for k, v in ds.coords.items():
        if k in res_dims:
            continue
        fits = set(v.dims) <= set(res_dims)
        if (k in res.coords) != (fits and case["keep"]):
            prop_ok = False
            detail["other"] = {"coord": str(k), "fits": fits, "keep": case["keep"], "present": k in res.coords}
    if not np.array_equal(res.transpose(*ref.dims).values, ref.values):
        prop_ok = False
        detail["values_depend_on_labels"] = True
    path = ("two-axes:" if sec else "") + "cumsum" if case["op"] == "cumsum" else ("two-axes:" if sec else "") + ("unpadded" if (case["from"], case["to"]) in
                                                    (("outer", "center"), ("center", "inner")) else "padded")
    return {"corr_ok": corr_ok, "prop_ok": prop_ok, "branch": f"{path}:{case['input']}:{'keep' if case['keep'] else 'drop'}",
            "detail": detail or None}


def nontrivial(case, verdict):
    if case.get("kind") == "faces":
        return True
    return bool(case["extra_coords"]) or not all(case["have_dimcoord"].values())

"""C02 — boundary rule resolution and padding widths.

Observes (i) `Grid(...).axes[*].boundary / fill_value` for every constructor
spelling, (ii) `xgcm.padding.pad` with per-call spellings and asymmetric widths,
(iii) a `diff`/`interp` call with the same kwargs (through the C01 model, with
the grid resolved by the C02 *model*, so the two models are chained).
"""
from __future__ import annotations

import copy

import numpy as np
import xarray as xr

from common import (RULES, Layout, build_grid, canon_da, dyadic, dyadic_array, enc_arr, enc_grid, fillv,
                    enc_kw, enc_rat, exc_kind, frac, parse_res, pos_len, same_arr)

RULE = ("constructor spellings periodic in {True, False, [], list subsets, dict} x boundary/fill in "
        "{None, scalar, total dict, partial dict} x per-call spellings (same) x widths 0..n+1 per side "
        "per axis x 1-3 axes x dim orders; observes axes[*].boundary/fill_value, pad output, and a "
        "diff/interp call; non-trivial = at least one axis is resolved through a fallback level "
        "(partial mapping, list/dict periodic, or grid default under a per-call None); distinct by case")


def _spelling(rng, names, gen_value, allow_partial=True):
    r = rng.random()
    if r < 0.3:
        return None
    if r < 0.5:
        return gen_value()
    if r < 0.75 or not allow_partial:
        return {n: gen_value() for n in names}
    sub = [n for n in names if rng.random() < 0.5]
    return {n: gen_value() for n in sub}


def gen_case(rng, tier, i):
    nmax = 5 if tier == "quick" else 9
    layout = Layout.random(rng, nmax=nmax, max_extra=2)
    names = [a["name"] for a in layout.axes]
    r = rng.random()
    if r < 0.2:
        periodic = True
    elif r < 0.4:
        periodic = False
    elif r < 0.7:
        periodic = [n for n in names if rng.random() < 0.5]
    elif r < 0.85:
        periodic = {n: rng.random() < 0.5 for n in names if rng.random() < 0.7}
    else:
        periodic = None  # argument omitted
    ctor = {"periodic": periodic,
            "boundary": _spelling(rng, names, lambda: rng.choice(RULES)),
            "fill_value": _spelling(rng, names, lambda: fillv(rng))}
    for k in ("boundary", "fill_value"):
        # a Grid-level mapping may carry an explicit None for an axis ("nothing chosen here")
        if isinstance(ctor[k], dict) and rng.random() < 0.3:
            for n in names:
                if rng.random() < 0.5:
                    ctor[k][n] = None
    dims = []
    present = []
    for a in layout.axes:
        if rng.random() < 0.9 or (not present and a is layout.axes[-1]):
            p = rng.choice(list(a["coords"]))
            present.append((a["name"], p))
            dims.append((a["coords"][p], pos_len(a["n"], p)))
    for d, s in layout.extra:
        dims.append((d, s))
    rng.shuffle(dims)
    data = dyadic_array(rng, [s for _, s in dims])
    # widths: per present axis (random subset, random order)
    waxes = [n for n, _ in present if rng.random() < 0.8] or [present[0][0]]
    rng.shuffle(waxes)
    widths = {}
    for n in waxes:
        L = pos_len(layout.axis(n)["n"], dict(present)[n])
        top = L + 1 if rng.random() < 0.15 else min(L, 3)
        widths[n] = [rng.randint(0, top), rng.randint(0, top)]
    call = {"boundary": _spelling(rng, names, lambda: rng.choice(RULES)),
            "fill_value": _spelling(rng, names, lambda: fillv(rng)),
            "widths": widths,
            "op": rng.choice(["diff", "interp"]), "op_axis": rng.choice([n for n, _ in present])}
    vals = data.reshape(-1).tolist()
    nan_data = rng.random() < 0.1
    if nan_data:
        # missing values in the data: every original value stays in place - also a missing one
        for _ in range(rng.randint(1, 3)):
            vals[rng.randrange(len(vals))] = None
    return {"layout": {"axes": layout.axes, "extra": layout.extra}, "ctor": ctor, "nan_data": nan_data,
            "dims": [d for d, _ in dims], "data": np.array(vals, dtype=object).reshape(data.shape).tolist(), "call": call}


def enc_per(p):
    if p is None or p is True:
        return "B T"
    if p is False:
        return "B F"
    if isinstance(p, list):
        return "L " + str(len(p)) + "".join(" " + n for n in p)
    return "D " + str(len(p)) + "".join(f" {n} {'T' if v else 'F'}" for n, v in p.items())


def parse_ctor(line):
    out = {}
    for part in line.split(" ; "):
        t = part.split(" ")
        out[t[0]] = ("err",) if t[1] == "err" else (t[1], t[2])
    return out


def eval_case(case, drv):
    layout = Layout(case["layout"]["axes"], [tuple(e) for e in case["layout"]["extra"]])
    names = [a["name"] for a in layout.axes]
    ctor = case["ctor"]
    kwargs = {k: copy.deepcopy(v) for k, v in ctor.items() if not (k == "periodic" and v is None)}
    req = (f"{len(names)} {' '.join(names)} {enc_per(ctor['periodic'])} {enc_kw(ctor['boundary'])} "
           f"{enc_kw(ctor['fill_value'], enc_rat)}")
    m_ctor = parse_ctor(drv.ask("c02ctor " + req))
    s_ctor = parse_ctor(drv.ask("c02ctorspec " + req))
    detail = {}
    try:
        ds, grid = build_grid(layout, **kwargs)
        i_ctor = {n: (grid.axes[n].boundary, enc_rat(grid.axes[n].fill_value)) for n in names}
    except Exception as e:  # noqa: BLE001
        grid = None
        i_ctor = {"__exc__": exc_kind(e)}

    def ctor_agree(impl, other):
        if "__exc__" in impl:
            return any(v[0] == "err" for v in other.values())
        return all(other[n] == impl[n] for n in names)

    corr_ok = ctor_agree(i_ctor, m_ctor)
    prop_ok = ctor_agree(i_ctor, s_ctor)
    branch = "ctor-refused" if grid is None else "ctor"
    if not (corr_ok and prop_ok):
        detail["ctor"] = {"impl": i_ctor, "model": m_ctor, "spec": s_ctor}
    if grid is not None and all(v[0] != "err" for v in s_ctor.values()) \
            and all(v[0] != "err" for v in m_ctor.values()):
        # chain: pad / operator are judged against the grid the constructor really stored,
        # so that a constructor deviation is reported once (as `ctor`) and not smeared over pad/op
        gaxes = [(n, i_ctor[n][0], frac_of(i_ctor[n][1]), dict(layout.axis(n)["coords"]), {}) for n in names]
        da = xr.DataArray(np.array(case["data"], dtype=float).reshape(
            [ds.sizes[d] for d in case["dims"]]), dims=case["dims"], name="phi")      # None -> nan
        call = case["call"]
        from xgcm.padding import pad
        bw = {k: tuple(v) for k, v in call["widths"].items()}
        try:
            res = pad(da, grid, boundary_width=dict(bw), boundary=copy.deepcopy(call["boundary"]),
                      fill_value=copy.deepcopy(call["fill_value"]))
            impl = ("ok", canon_da(res))
        except Exception as e:  # noqa: BLE001
            impl = ("err", exc_kind(e))
        wenc = str(len(bw)) + "".join(f" {a} {lo} {hi}" for a, (lo, hi) in bw.items())
        preq = (f"{enc_grid(gaxes)} {enc_arr(case['dims'], da.values)} {wenc} "
                f"{enc_kw(call['boundary'])} {enc_kw(call['fill_value'], enc_rat)}")
        model = denan(parse_res(drv.ask("c02pad " + preq)))       # padding only moves values: sentinel <-> missing
        spec = denan(parse_res(drv.ask("c02padspec " + preq)))
        ok_m = agree(impl, model)
        ok_s = agree(impl, spec if spec[0] == "ok" else ("err", None))
        if not (ok_m and ok_s):
            detail["pad"] = {"impl": short(impl), "model": short(model), "spec": short(spec)}
        corr_ok &= ok_m
        prop_ok &= ok_s
        # the same padding again on the SAME grid without any per-call choice: the Grid-level settings apply, whatever
        # earlier calls asked for
        try:
            res0 = pad(da, grid, boundary_width=dict(bw))
            impl0 = ("ok", canon_da(res0))
        except Exception as e:  # noqa: BLE001
            impl0 = ("err", exc_kind(e))
        preq0 = f"{enc_grid(gaxes)} {enc_arr(case['dims'], da.values)} {wenc} N N"
        spec0 = denan(parse_res(drv.ask("c02padspec " + preq0)))
        if not agree(impl0, spec0 if spec0[0] == "ok" else ("err", None)):
            prop_ok = False
            detail["pad_after_a_call_with_overrides"] = {"impl": short(impl0), "spec": short(spec0)}
        if case.get("nan_data"):
            # the operator arithmetic on missing values is outside the rational model: pad only
            return {"corr_ok": bool(corr_ok), "prop_ok": bool(prop_ok), "branch": "ctor+pad:missing-values",
                    "detail": detail or None, "ctor": {"impl": i_ctor, "model": m_ctor, "spec": s_ctor}}
        # an operator call with the same kwargs
        kw = {}
        if call["boundary"] is not None:
            kw["boundary"] = copy.deepcopy(call["boundary"])
        if call["fill_value"] is not None:
            kw["fill_value"] = copy.deepcopy(call["fill_value"])
        try:
            res = getattr(grid, call["op"])(da, call["op_axis"], **kw)
            impl2 = ("ok", canon_da(res))
        except Exception as e:  # noqa: BLE001
            impl2 = ("err", exc_kind(e))
        oreq = (f"{call['op']} {enc_grid(gaxes)} {enc_arr(case['dims'], da.values)} 1 {call['op_axis']} N "
                f"{enc_kw(call['boundary'])} {enc_kw(call['fill_value'], enc_rat)}")
        model2 = parse_res(drv.ask("c01 " + oreq))
        spec2 = parse_res(drv.ask("c01spec " + oreq))
        ok_m = agree(impl2, model2)
        ok_s = agree(impl2, spec2 if spec2[0] == "ok" else ("err", None))
        if not (ok_m and ok_s):
            detail["op"] = {"impl": short(impl2), "model": short(model2), "spec": short(spec2)}
        corr_ok &= ok_m
        prop_ok &= ok_s
        branch = "ctor+pad+" + call["op"]
    return {"corr_ok": bool(corr_ok), "prop_ok": bool(prop_ok), "branch": branch,
            "detail": detail or None, "ctor": {"impl": i_ctor, "model": m_ctor, "spec": s_ctor}}


def denan(r):
    from common import NAN, NAN_SENTINEL
    if r[0] != "ok":
        return r
    dims, shape, data = r[1]
    return ("ok", (dims, shape, [NAN if v == NAN_SENTINEL else v for v in data]))


def frac_of(tok):
    from common import dec_rat
    return dec_rat(tok)


def agree(a, b):
    if a[0] != b[0]:
        return False
    if a[0] == "ok":
        return same_arr(a[1], b[1])
    return True


def short(r):
    if r[0] == "ok":
        dims, shape, data = r[1]
        return ["ok", dims, shape, [str(x) for x in data[:48]]]
    return list(r)


def nontrivial(case, verdict):
    c = case["ctor"]
    names = [a["name"] for a in case["layout"]["axes"]]

    def partial(v):
        return isinstance(v, dict) and any(n not in v for n in names)
    return (isinstance(c["periodic"], (list, dict)) or partial(c["boundary"]) or partial(c["fill_value"])
            or partial(case["call"]["boundary"]) or partial(case["call"]["fill_value"])
            or case["call"]["boundary"] is None)


def known(case, verdict):
    """C02-periodic-list: `periodic` is a list that does not name every axis, no grid-level
    boundary covers the unnamed axis, and the ONLY deviation is that the unnamed axes are stored
    as 'periodic' where the property says 'fill' (the model mirrors exactly this)."""
    per = case["ctor"]["periodic"]
    c = verdict.get("ctor") or {}
    impl, model, spec = c.get("impl", {}), c.get("model", {}), c.get("spec", {})
    if not isinstance(per, list) or "__exc__" in impl:
        return None
    names = [a["name"] for a in case["layout"]["axes"]]
    diff = [n for n in names if impl.get(n) != spec.get(n)]
    if not diff:
        return None
    for n in diff:
        if n in per or impl[n][0] != "periodic" or spec[n][0] != "fill" or impl[n][1] != spec[n][1]:
            return None
    return "C02-periodic-list"


def shrink_candidates(case):
    dims = case["dims"]
    arr = np.array(case["data"], dtype=float)
    axis_dims = {d for a in case["layout"]["axes"] for d in a["coords"].values()}
    for i, d in enumerate(dims):
        if d not in axis_dims:
            c = copy.deepcopy(case)
            c["dims"] = dims[:i] + dims[i + 1:]
            c["data"] = np.take(arr, 0, axis=i).tolist()
            c["layout"]["extra"] = [e for e in c["layout"]["extra"] if e[0] != d]
            yield c
    for k in ("boundary", "fill_value"):
        if case["call"][k] is not None:
            c = copy.deepcopy(case)
            c["call"][k] = None
            yield c
        if case["ctor"][k] is not None:
            c = copy.deepcopy(case)
            c["ctor"][k] = None
            yield c
    for a, w in case["call"]["widths"].items():
        if w != [0, 0]:
            c = copy.deepcopy(case)
            c["call"]["widths"][a] = [0, 0]
            yield c

"""C10 — the metric applied is the registered one.

A case = a grid of 1-3 axes, a registry of non-uniform positive metrics (prime x power-of-two patterns, so
every product / interpolation shows which variables went in), an array at some position, a requested axis
set in some order and spelling.

  correspondence : Grid.get_metric vs the Lean selection (`getMetric`): the model names the factors and
                   which are interpolated; the harness materialises that (variable as it is, or
                   grid.interp(var, axes, boundary='extend')) and compares the arrays exactly
  property       : an independent oracle of the selection rule written from the statement; broadcasting
                   against the array; integrate == sum(data*metric) in any axis order; average of a
                   constant field is the constant and equals sum(data*m)/sum(m); derivative == diff / metric
                   at the result; metric_weighted diff/interp == op(data*metric)/metric(result)
"""
from __future__ import annotations

import itertools

import numpy as np
import xarray as xr

import metricgrid as mg
import copy

from common import dec_rat, dyadic_array, enc_rat, exc_kind, frac, pos_len

RULE = ("grids of 1-3 axes with random position subsets; registry: per non-empty axis subset a random set of "
        "positions (complete / partial / only elsewhere / absent); every array position tuple; axis sets in "
        "random order as tuple/list/str; operations get_metric, integrate, average, derivative, "
        "metric_weighted diff/interp; non-trivial = the selected metric needs interpolation or is a "
        "product; distinct by case")


def gen_interp_like(rng, tier, i):
    """Grid.interp_like against its Lean model (built on the dispatcher model of C01): random layouts with all five
    positions, the array and `like` at random positions per axis (or lacking an axis), every rule / fill spelling"""
    from common import RULES, Layout, dyadic_array, fillv, pos_len
    layout = Layout.random(rng, n_axes=rng.randint(1, 3), nmin=2, nmax=5, max_extra=1)
    adims, ldims = [], []
    for a in layout.axes:
        r = rng.random()
        pa, pl = rng.choice(list(a["coords"])), rng.choice(list(a["coords"]))
        if r < 0.8:
            adims.append((a["coords"][pa], pos_len(a["n"], pa)))
            ldims.append((a["coords"][pl], pos_len(a["n"], pl)))
        elif r < 0.9:
            adims.append((a["coords"][pa], pos_len(a["n"], pa)))       # `like` lacks the axis
        else:
            ldims.append((a["coords"][pl], pos_len(a["n"], pl)))       # the array lacks the axis
    if not adims:
        a = layout.axes[0]
        adims.append((a["coords"]["center"], a["n"]))
    for d, s_ in layout.extra:
        adims.append((d, s_))
    rng.shuffle(adims)
    rng.shuffle(ldims)
    b = rng.choice([None, rng.choice(RULES), {a["name"]: rng.choice(RULES) for a in layout.axes if rng.random() < 0.6}])
    f = rng.choice([None, fillv(rng), {a["name"]: fillv(rng) for a in layout.axes if rng.random() < 0.6}])
    return {"kind": "interp_like", "layout": {"axes": layout.axes, "extra": layout.extra},
            "grid_boundary": rng.choice(RULES), "grid_fill": fillv(rng),
            "adims": [d for d, _ in adims], "data": dyadic_array(rng, [s_ for _, s_ in adims]).tolist(),
            "ldims": [d for d, _ in ldims], "lshape": [s_ for _, s_ in ldims], "boundary": b, "fill": f}


def eval_interp_like(case, drv):
    import warnings

    from common import (Layout, build_grid, canon_da, enc_arr, enc_grid, enc_kw, grid_axes_for_driver, parse_res,
                        same_arr)
    layout = Layout(case["layout"]["axes"], [tuple(e) for e in case["layout"]["extra"]])
    ds, grid = build_grid(layout, boundary=case["grid_boundary"], fill_value=case["grid_fill"])
    arr = xr.DataArray(np.array(case["data"], dtype=float).reshape([ds.sizes[d] for d in case["adims"]]),
                       dims=case["adims"], name="m")
    like = xr.DataArray(np.zeros(case["lshape"]), dims=case["ldims"])
    with warnings.catch_warnings():
        warnings.simplefilter("ignore")
        try:
            res = grid.interp_like(arr, like, copy.deepcopy(case["boundary"]), copy.deepcopy(case["fill"]))
            impl = ("ok", canon_da(res))
        except Exception as e:  # noqa: BLE001
            impl = ("err", exc_kind(e))
    line = (f"c10interplike {enc_grid(grid_axes_for_driver(grid))} {enc_arr(list(arr.dims), arr.values)} "
            f"{len(case['ldims'])} {' '.join(case['ldims'])} {enc_kw(case['boundary'])} {enc_kw(case['fill'], enc_rat)}")
    model = parse_res(drv.ask(line))
    if impl[0] == "ok" and model[0] == "ok":
        ok = same_arr(impl[1], model[1])
    else:
        ok = impl[0] == model[0] == "err"
    # the statement, evaluated WITHOUT the model: interp_like is the chain of single-axis interpolations (every axis
    # both arrays carry at different positions, in the order of the grid's axes; face-to-face shifts go through the
    # centre first, all of them before the final hops) under the rule and fill value given - each hop through the real
    # Grid.interp, which C01 / C02 verify
    def chain():
        v = arr
        hops, final = [], []
        for a in layout.axes:
            inv = {d: p for p, d in a["coords"].items()}
            have = [inv[d] for d in arr.dims if d in inv]
            want = [inv[d] for d in like.dims if d in inv]
            if len(have) != 1 or len(want) != 1 or have[0] == want[0]:
                continue
            if "center" not in (have[0], want[0]):
                hops.append((a["name"], "center"))
            final.append((a["name"], want[0]))
        for axn, to_ in hops + final:
            v = grid.interp(v, axn, to=to_, boundary=copy.deepcopy(case["boundary"]),
                            fill_value=copy.deepcopy(case["fill"]))
        return v
    with warnings.catch_warnings():
        warnings.simplefilter("ignore")
        try:
            oracle = ("ok", canon_da(chain()))
        except Exception as e:  # noqa: BLE001
            oracle = ("err", exc_kind(e))
    if impl[0] == "ok" and oracle[0] == "ok":
        prop_ok = same_arr(impl[1], oracle[1])
    else:
        prop_ok = impl[0] == oracle[0] == "err"
    detail = None
    if not ok or not prop_ok:
        detail = {"impl": str(impl)[:300], "model": str(model)[:300], "hop_by_hop": str(oracle)[:300]}
    elif impl[0] == "ok":
        want_dims = set(case["adims"])
        for a in layout.axes:
            da_ = [d for d in case["adims"] if d in a["coords"].values()]
            dl_ = [d for d in case["ldims"] if d in a["coords"].values()]
            if da_ and dl_:
                want_dims = (want_dims - set(da_)) | set(dl_)
        if set(impl[1][0]) != want_dims:
            prop_ok = False
            detail = {"dims": impl[1][0], "want": sorted(want_dims)}
    moved = sum(1 for a in layout.axes if any(d in a["coords"].values() for d in case["adims"])
                and any(d in a["coords"].values() for d in case["ldims"]))
    return {"corr_ok": ok, "prop_ok": prop_ok, "branch": "interp_like:" + impl[0] + f":axes{moved}", "detail": detail}


def gen_case(rng, tier, i):
    if rng.random() < 0.2:
        return gen_interp_like(rng, tier, i)
    n_axes = rng.choice([1, 2, 2, 3, 3])
    axes = mg.random_axes(rng, n_axes)
    names = [a["name"] for a in axes]
    mvars, registry = [], []
    k = 0
    subsets = [s for r in range(1, n_axes + 1) for s in itertools.combinations(names, r)]
    rng.shuffle(subsets)
    for sub in subsets:
        if rng.random() < 0.35:
            continue
        pos_tuples = list(itertools.product(*[list(next(a for a in axes if a["name"] == n)["coords"]) for n in sub]))
        rng.shuffle(pos_tuples)
        chosen = pos_tuples[: rng.randint(1, min(3, len(pos_tuples)))]
        vs = []
        for pt in chosen:
            dims = [next(a for a in axes if a["name"] == n)["coords"][p] for n, p in zip(sub, pt)]
            if rng.random() < 0.3:
                # a metric of these axes that also varies along another axis (dx(x, y)): it carries that axis'
                # dimension at some position, which interpolation / "at the array's position" have to honour
                for a in axes:
                    if a["name"] not in sub and rng.random() < 0.7:
                        dims.append(a["coords"][rng.choice(list(a["coords"]))])
            rng.shuffle(dims)
            nm = "m_" + "".join(sub).lower() + "_" + "".join(p[0] for p in pt)
            mvars.append({"name": nm, "dims": dims, "prime": mg.PRIMES[k % len(mg.PRIMES)]})
            k += 1
            vs.append(nm)
        registry.append({"key": list(sub), "names": vs})
    pos = {a["name"]: rng.choice(list(a["coords"])) for a in axes}
    if n_axes >= 2 and rng.random() < 0.12:
        # single-axis metrics that all live on the SAME multi-axis dimensions, none of them at the array's position:
        # a product of separately interpolated factors (interpolating the product is something else)
        D = [a["coords"][rng.choice(list(a["coords"]))] for a in axes]
        mvars = [{"name": f"m_{a['name'].lower()}_shared", "dims": list(D), "prime": mg.PRIMES[i]} for i, a in enumerate(axes)]
        registry = [{"key": [a["name"]], "names": [f"m_{a['name'].lower()}_shared"]} for a in axes]
        a0 = axes[0]
        others = [p for p, d in a0["coords"].items() if d != D[0]]
        if others:
            pos[a0["name"]] = rng.choice(others)
    r = rng.randint(1, n_axes)
    req = rng.sample(names, r)
    spelling = rng.choice(["tuple", "list", "str"]) if r == 1 else rng.choice(["tuple", "list"])
    return {"axes": axes, "mvars": mvars, "registry": registry, "pos": pos, "req": req,
            "grid_boundary": rng.choice(["extend", "fill", "periodic"]), "grid_fill": rng.choice([0.0, 7.0, -2.5]),
            "data_dtype": rng.choice(["float"] * 8 + ["int", "bool"]),
            "spelling": spelling, "op": rng.choice(["get_metric", "integrate", "average", "derivative", "weighted"]),
            "seed": rng.randrange(1 << 30)}


def oracle_selection(case):
    """selection rule from the property statement (independent of the Lean model)"""
    axes = {a["name"]: a for a in case["axes"]}
    arr_dims = {axes[n]["coords"][p] for n, p in case["pos"].items()}
    dims_of = {m["name"]: set(m["dims"]) for m in case["mvars"]}
    reg = {frozenset(e["key"]): e["names"] for e in case["registry"]}
    req = list(dict.fromkeys(case["req"]))

    def pick(cands):
        at = [c for c in cands if dims_of[c] <= arr_dims]
        return (at[0], False) if at else (cands[-1], True)
    if frozenset(req) in reg:
        return [pick(reg[frozenset(req)])]
    # partitions, largest block first; ties in the order of the grid's axes
    order = [a["name"] for a in case["axes"] if a["name"] in req]
    parts = []
    if len(order) == 2:
        parts = [[[order[0]], [order[1]]]]
    elif len(order) == 3:
        a, b, c = order
        parts = [[[a, b], [c]], [[a, c], [b]], [[b, c], [a]], [[a], [b], [c]]]
    for p in parts:
        if all(frozenset(b) in reg for b in p):
            return [pick(reg[frozenset(b)]) for b in p]
    return None


def interp_to_like(grid, case, v, like):
    """nearest-value-extension interpolation of `v` to the positions of `like`, hop by hop through the real
    Grid.interp with the rule spelled out at every hop (C01/C02 verify Grid.interp; interp_like is NOT used)"""
    for a in case["axes"]:
        inv = {d: p for p, d in a["coords"].items()}
        have = next((inv[d] for d in v.dims if d in inv), None)
        want = next((inv[d] for d in like.dims if d in inv), None)
        if have is None or want is None or have == want:
            continue
        if have != "center" and want != "center":
            v = grid.interp(v, a["name"], to="center", boundary="extend")
        v = grid.interp(v, a["name"], to=want, boundary="extend")
    return v


def materialise(grid, ds, case, sel, like):
    out = None
    for name, interp in sel:
        v = ds[name].reset_coords(drop=True)
        if interp:
            v = interp_to_like(grid, case, v, like)
        out = v if out is None else out * v
    return out


def point_cells(data, metric, odims):
    """per output point (row-major over the dimensions that are kept), the (value, weight) cells reduced into it"""
    d, w = xr.broadcast(data.astype(float), metric.astype(float))
    w = w.transpose(*d.dims)
    keep = [x for x in d.dims if x not in odims]
    red = [x for x in d.dims if x in odims]
    n_keep = int(np.prod([d.sizes[x] for x in keep])) if keep else 1
    dv = d.transpose(*keep, *red).values.reshape(n_keep, -1)
    wv = w.transpose(*keep, *red).values.reshape(n_keep, -1)
    return keep, dv, wv


def model_arith(drv, what, keep, dv, wv, res):
    """exact arithmetic of the Lean model (`c10arith`) against what the implementation returned; a float is
    compared with the correctly rounded value of the exact quotient"""
    def tok(x):
        return "N" if x != x else enc_rat(x)
    line = f"c10arith {what} {dv.shape[0]} " + " ".join(
        f"{dv.shape[1]} " + " ".join(f"{tok(x) if what == 'average' else enc_rat(x)} {enc_rat(w)}" for x, w in zip(xs, ws))
        for xs, ws in zip(dv, wv))
    ans = drv.ask(line).split(" ")
    got = np.asarray(res.transpose(*keep).values, dtype=float).reshape(-1)
    if len(ans) != len(got):
        return {"model": ans[:6], "impl": got[:6].tolist()}
    for a, g in zip(ans, got):
        if a == "div0":
            if g == g and abs(g) != float("inf"):
                return {"model": "div0", "impl": float(g)}
        elif float(dec_rat(a)) != g:
            return {"model": a, "impl": float(g)}
    return None


def eval_case(case, drv):
    if case.get("kind") == "interp_like":
        return eval_interp_like(case, drv)
    import random
    import warnings

    import xgcm
    rr = random.Random(case["seed"])
    axes = case["axes"]
    ds, size = mg.build_dataset(axes, case["mvars"])
    coords = {a["name"]: dict(a["coords"]) for a in axes}
    # the grid's own rule must not leak into the metric interpolation ("nearest-value extension")
    gb = case.get("grid_boundary", "extend")
    grid = xgcm.Grid(ds, coords=coords, boundary=gb, fill_value=case.get("grid_fill", 0.0), autoparse_metadata=False)
    for e in case["registry"]:
        grid.set_metrics(tuple(e["key"]), list(e["names"]))
    dims = [next(a for a in axes if a["name"] == n)["coords"][p] for n, p in case["pos"].items()]
    rr.shuffle(dims)
    data = xr.DataArray(dyadic_array(rr, [size[d] for d in dims]), dims=dims, name="phi")
    if case.get("data_dtype") == "int":
        data = np.round(data).astype(np.int64)         # counts / masks-as-integers: the metric must stay a float
    elif case.get("data_dtype") == "bool":
        data = data > 0
    req = case["req"]
    arg = {"tuple": tuple(req), "list": list(req), "str": req[0]}[case["spelling"]]
    # ---- model selection
    gnames = [a["name"] for a in axes]
    axis_dims = str(len(axes)) + "".join(f" {a['name']} {len(a['coords'])} {' '.join(a['coords'].values())}" for a in axes)
    calls = [{"key": e["key"], "names": e["names"], "ow": False} for e in case["registry"]]
    line = (f"c10 {len(gnames)} {' '.join(gnames)} {axis_dims} {mg.enc_mvars(case['mvars'])} {mg.enc_calls(calls)} "
            f"1 {len(dims)} {' '.join(dims)} {len(req)} {' '.join(req)}")
    ans = drv.ask(line)
    model_sel = None if ans.startswith("err") else [(t.rstrip("~"), t.endswith("~")) for t in ans.split("*")]
    want_sel = oracle_selection(case)
    with warnings.catch_warnings():
        warnings.simplefilter("ignore")
        try:
            got = grid.get_metric(data, arg)
            impl = "ok"
        except Exception as e:  # noqa: BLE001
            got, impl = None, "err:" + exc_kind(e)

        def same(a, b):
            a, b = xr.broadcast(a, b)
            return a.dims == b.dims or set(a.dims) == set(b.dims) and bool(
                (a.transpose(*b.dims).values == b.values).all())

        def eq(a, b):
            if set(a.dims) != set(b.dims):
                return False
            return bool((a.transpose(*b.dims).values == b.values).all())
        detail = {}
        if got is None:
            corr_ok = model_sel is None
            prop_ok = want_sel is None
            if not (corr_ok and prop_ok):
                detail["sel"] = {"impl": impl, "model": ans, "oracle": str(want_sel)}
            return {"corr_ok": corr_ok, "prop_ok": prop_ok, "branch": "refused", "detail": detail or None}
        corr_ok = model_sel is not None and eq(got, materialise(grid, ds, case, model_sel, data))
        prop_ok = want_sel is not None and eq(got, materialise(grid, ds, case, want_sel, data)) \
            and set(got.dims) <= set(data.dims)
        if not (corr_ok and prop_ok):
            detail["sel"] = {"impl_values": got.values.reshape(-1)[:6].tolist(), "model": ans, "oracle": str(want_sel)}
        # the metric applied is a function of (registry, array): a second request on the SAME grid, for an array that
        # sits elsewhere along some axis, must be answered as a freshly built grid answers it
        pos2 = dict(case["pos"])
        for a in axes:
            if rr.random() < 0.6:
                pos2[a["name"]] = rr.choice(list(a["coords"]))
        dims2 = [next(a for a in axes if a["name"] == n)["coords"][p] for n, p in pos2.items()]
        data2 = xr.DataArray(np.zeros([size[d] for d in dims2]), dims=dims2, name="psi")
        fresh = xgcm.Grid(ds, coords=coords, boundary=gb, fill_value=case.get("grid_fill", 0.0), autoparse_metadata=False)
        for e in case["registry"]:
            fresh.set_metrics(tuple(e["key"]), list(e["names"]))

        def ask(g_):
            with warnings.catch_warnings(record=True) as rec:
                warnings.simplefilter("always")
                try:
                    out = ("ok", g_.get_metric(data2, arg))
                except Exception as e:  # noqa: BLE001
                    out = ("err", exc_kind(e))
            return out + (sorted({str(w.message)[:60] for w in rec if "interpolated" in str(w.message)}),)
        # (first the same request twice on the used grid: an interpolated metric is announced every time)
        ask(grid)
        a2, f2 = ask(grid), ask(fresh)
        if a2[0] != f2[0] or (a2[0] == "ok" and not eq(a2[1], f2[1])):
            prop_ok = False
            detail["history"] = {"second_request_dims": dims2, "same_grid": str(a2[1])[:120], "fresh_grid": str(f2[1])[:120]}
        elif a2[2] != f2[2]:
            prop_ok = False
            detail["history_warning"] = {"second_request_dims": dims2, "same_grid_warned": a2[2], "fresh_grid_warned": f2[2]}
        branch = ("product" if want_sel and len(want_sel) > 1 else "single") + \
            (":interp" if want_sel and any(i for _, i in want_sel) else "")
        # ---- operations built on the metric
        op = case["op"]
        odims = [next(a for a in axes if a["name"] == n)["coords"][case["pos"][n]] for n in dict.fromkeys(req)]
        if prop_ok and op == "integrate":
            res = grid.integrate(data, arg)
            want = (data * got).sum(odims)
            res2 = grid.integrate(data, list(reversed(list(dict.fromkeys(req)))))
            if not (eq(res, want) and eq(res2, want)):
                prop_ok = False
                detail["integrate"] = [res.values.tolist(), want.values.tolist()]
            if corr_ok:
                keep, dv, wv = point_cells(data, materialise(grid, ds, case, model_sel, data), odims)
                bad = model_arith(drv, "integrate", keep, dv, wv, res)
                if bad:
                    corr_ok = False
                    detail["integrate_model"] = bad
        elif prop_ok and op == "average":
            const = xr.full_like(data, 2.5, dtype=float)
            r1 = grid.average(const, arg)
            r2 = grid.average(data, arg)
            want = (data * got).sum(odims) / (got + 0 * data).sum(odims)
            ok1 = bool(np.allclose(r1.values, 2.5, rtol=1e-12, atol=0))
            ok2 = bool(np.allclose(r2.transpose(*want.dims).values, want.values, rtol=1e-12, atol=1e-12))
            if not (ok1 and ok2):
                prop_ok = False
                detail["average"] = [r1.values.tolist(), r2.values.tolist(), want.values.tolist()]
            if corr_ok:
                # data with missing cells (some output points may have none left): the exact model value
                holes = xr.DataArray(np.array([rr.random() < 0.3 for _ in range(data.size)]).reshape(data.shape), dims=data.dims)
                dm = data.astype(float).where(~holes)
                keep, dv, wv = point_cells(dm, materialise(grid, ds, case, model_sel, data), odims)
                try:
                    r3 = grid.average(dm, arg)
                    bad = model_arith(drv, "average", keep, dv, wv, r3)
                    # a constant field with the same holes averages to the constant wherever anything is left
                    r4 = grid.average(xr.full_like(dm, 2.5).where(~holes), arg)
                    left = (~holes).sum(odims) > 0
                    if not bool(((r4 == 2.5) | ~left).all()) or bool((r4.notnull() & ~left).any()):
                        prop_ok = False
                        detail["average_const_with_holes"] = r4.values.reshape(-1)[:8].tolist()
                except Exception as e:  # noqa: BLE001
                    bad = {"impl": "err:" + exc_kind(e)}
                if bad:
                    corr_ok = False
                    detail["average_model"] = bad
        elif prop_ok and op in ("derivative", "weighted") and len(req) == 1:
            ax = req[0]
            try:
                d = grid.diff(data, ax)
                mres = grid.get_metric(d, (ax,))
            except Exception:  # noqa: BLE001
                return {"corr_ok": corr_ok, "prop_ok": prop_ok, "branch": branch, "detail": detail or None}
            if op == "derivative":
                res = grid.derivative(data, ax)
                want = d / mres
                ok = bool(np.allclose(res.transpose(*want.dims).values, want.values, rtol=1e-12, atol=0))
                dd, mm = xr.broadcast(d.astype(float), mres.astype(float))
                mm = mm.transpose(*dd.dims)
                line = (f"c10arith derivative {dd.size} " + " ".join(enc_rat(x) for x in dd.values.reshape(-1))
                        + f" {mm.size} " + " ".join(enc_rat(x) for x in mm.values.reshape(-1)))
                ans_d = drv.ask(line).split(" ")
                got_d = res.transpose(*dd.dims).values.reshape(-1)
                if ans_d != ["div0"] and (len(ans_d) != len(got_d) or any(float(dec_rat(a)) != g for a, g in zip(ans_d, got_d))):
                    corr_ok = False
                    detail["derivative_model"] = {"model": ans_d[:6], "impl": got_d[:6].tolist()}
            else:
                fn = rr.choice(["diff", "interp"])
                res = getattr(grid, fn)(data, ax, metric_weighted=(ax,))
                want = getattr(grid, fn)(data * got, ax) / mres
                ok = bool(np.allclose(res.transpose(*want.dims).values, want.values, rtol=1e-12, atol=1e-12))
            if not ok:
                prop_ok = False
                detail[op] = [res.values.reshape(-1)[:6].tolist(), want.values.reshape(-1)[:6].tolist()]
            branch += ":" + op
    return {"corr_ok": corr_ok, "prop_ok": prop_ok, "branch": branch, "detail": detail or None}


def nontrivial(case, verdict):
    return "product" in verdict.get("branch", "") or "interp" in verdict.get("branch", "")

"""C10 — the metric applied is the registered one.

A case = a grid of 1-3 axes, a registry of non-uniform positive metrics (prime x power-of-two patterns, so
every product / interpolation shows which variables went in), an array at some position, a requested axis
set in some order and spelling.

  correspondence : Grid.get_metric vs the Lean selection (`getMetric`): the model names the factors and
                   which are interpolated; the harness materialises that (variable as it is, or
                   grid.interp(var, axes, boundary='extend')) and compares the arrays exactly
  property       : an independent oracle of the selection rule written from the statement; broadcasting
                   against the array; integrate == sum(data*metric) in any axis order; average of a
                   constant field is the constant and equals sum(data*m)/sum(m); derivative == diff / metric
                   at the result; metric_weighted diff/interp == op(data*metric)/metric(result)
"""
from __future__ import annotations

import itertools

import numpy as np
import xarray as xr

import metricgrid as mg
from common import dyadic_array, exc_kind, frac, pos_len

RULE = ("grids of 1-3 axes with random position subsets; registry: per non-empty axis subset a random set of "
        "positions (complete / partial / only elsewhere / absent); every array position tuple; axis sets in "
        "random order as tuple/list/str; operations get_metric, integrate, average, derivative, "
        "metric_weighted diff/interp; non-trivial = the selected metric needs interpolation or is a "
        "product; distinct by case")


def gen_case(rng, tier, i):
    n_axes = rng.choice([1, 2, 2, 3])
    axes = mg.random_axes(rng, n_axes)
    names = [a["name"] for a in axes]
    mvars, registry = [], []
    k = 0
    subsets = [s for r in range(1, n_axes + 1) for s in itertools.combinations(names, r)]
    rng.shuffle(subsets)
    for sub in subsets:
        if rng.random() < 0.35:
            continue
        pos_tuples = list(itertools.product(*[list(next(a for a in axes if a["name"] == n)["coords"]) for n in sub]))
        rng.shuffle(pos_tuples)
        chosen = pos_tuples[: rng.randint(1, min(3, len(pos_tuples)))]
        vs = []
        for pt in chosen:
            dims = [next(a for a in axes if a["name"] == n)["coords"][p] for n, p in zip(sub, pt)]
            if rng.random() < 0.3:
                # a metric of these axes that also varies along another axis (dx(x, y)): it carries that axis'
                # dimension at some position, which interpolation / "at the array's position" have to honour
                for a in axes:
                    if a["name"] not in sub and rng.random() < 0.7:
                        dims.append(a["coords"][rng.choice(list(a["coords"]))])
            rng.shuffle(dims)
            nm = "m_" + "".join(sub).lower() + "_" + "".join(p[0] for p in pt)
            mvars.append({"name": nm, "dims": dims, "prime": mg.PRIMES[k % len(mg.PRIMES)]})
            k += 1
            vs.append(nm)
        registry.append({"key": list(sub), "names": vs})
    pos = {a["name"]: rng.choice(list(a["coords"])) for a in axes}
    if n_axes >= 2 and rng.random() < 0.12:
        # single-axis metrics that all live on the SAME multi-axis dimensions, none of them at the array's position:
        # a product of separately interpolated factors (interpolating the product is something else)
        D = [a["coords"][rng.choice(list(a["coords"]))] for a in axes]
        mvars = [{"name": f"m_{a['name'].lower()}_shared", "dims": list(D), "prime": mg.PRIMES[i]} for i, a in enumerate(axes)]
        registry = [{"key": [a["name"]], "names": [f"m_{a['name'].lower()}_shared"]} for a in axes]
        a0 = axes[0]
        others = [p for p, d in a0["coords"].items() if d != D[0]]
        if others:
            pos[a0["name"]] = rng.choice(others)
    r = rng.randint(1, n_axes)
    req = rng.sample(names, r)
    spelling = rng.choice(["tuple", "list", "str"]) if r == 1 else rng.choice(["tuple", "list"])
    return {"axes": axes, "mvars": mvars, "registry": registry, "pos": pos, "req": req,
            "grid_boundary": rng.choice(["extend", "fill", "periodic"]), "grid_fill": rng.choice([0.0, 7.0, -2.5]),
            "spelling": spelling, "op": rng.choice(["get_metric", "integrate", "average", "derivative", "weighted"]),
            "seed": rng.randrange(1 << 30)}


def oracle_selection(case):
    """selection rule from the property statement (independent of the Lean model)"""
    axes = {a["name"]: a for a in case["axes"]}
    arr_dims = {axes[n]["coords"][p] for n, p in case["pos"].items()}
    dims_of = {m["name"]: set(m["dims"]) for m in case["mvars"]}
    reg = {frozenset(e["key"]): e["names"] for e in case["registry"]}
    req = list(dict.fromkeys(case["req"]))

    def pick(cands):
        at = [c for c in cands if dims_of[c] <= arr_dims]
        return (at[0], False) if at else (cands[-1], True)
    if frozenset(req) in reg:
        return [pick(reg[frozenset(req)])]
    # partitions, largest block first; ties in the order of the grid's axes
    order = [a["name"] for a in case["axes"] if a["name"] in req]
    parts = []
    if len(order) == 2:
        parts = [[[order[0]], [order[1]]]]
    elif len(order) == 3:
        a, b, c = order
        parts = [[[a, b], [c]], [[a, c], [b]], [[b, c], [a]], [[a], [b], [c]]]
    for p in parts:
        if all(frozenset(b) in reg for b in p):
            return [pick(reg[frozenset(b)]) for b in p]
    return None


def interp_to_like(grid, case, v, like):
    """nearest-value-extension interpolation of `v` to the positions of `like`, hop by hop through the real
    Grid.interp with the rule spelled out at every hop (C01/C02 verify Grid.interp; interp_like is NOT used)"""
    for a in case["axes"]:
        inv = {d: p for p, d in a["coords"].items()}
        have = next((inv[d] for d in v.dims if d in inv), None)
        want = next((inv[d] for d in like.dims if d in inv), None)
        if have is None or want is None or have == want:
            continue
        if have != "center" and want != "center":
            v = grid.interp(v, a["name"], to="center", boundary="extend")
        v = grid.interp(v, a["name"], to=want, boundary="extend")
    return v


def materialise(grid, ds, case, sel, like):
    out = None
    for name, interp in sel:
        v = ds[name].reset_coords(drop=True)
        if interp:
            v = interp_to_like(grid, case, v, like)
        out = v if out is None else out * v
    return out


def eval_case(case, drv):
    import random
    import warnings

    import xgcm
    rr = random.Random(case["seed"])
    axes = case["axes"]
    ds, size = mg.build_dataset(axes, case["mvars"])
    coords = {a["name"]: dict(a["coords"]) for a in axes}
    # the grid's own rule must not leak into the metric interpolation ("nearest-value extension")
    gb = case.get("grid_boundary", "extend")
    grid = xgcm.Grid(ds, coords=coords, boundary=gb, fill_value=case.get("grid_fill", 0.0), autoparse_metadata=False)
    for e in case["registry"]:
        grid.set_metrics(tuple(e["key"]), list(e["names"]))
    dims = [next(a for a in axes if a["name"] == n)["coords"][p] for n, p in case["pos"].items()]
    rr.shuffle(dims)
    data = xr.DataArray(dyadic_array(rr, [size[d] for d in dims]), dims=dims, name="phi")
    req = case["req"]
    arg = {"tuple": tuple(req), "list": list(req), "str": req[0]}[case["spelling"]]
    # ---- model selection
    gnames = [a["name"] for a in axes]
    axis_dims = str(len(axes)) + "".join(f" {a['name']} {len(a['coords'])} {' '.join(a['coords'].values())}" for a in axes)
    calls = [{"key": e["key"], "names": e["names"], "ow": False} for e in case["registry"]]
    line = (f"c10 {len(gnames)} {' '.join(gnames)} {axis_dims} {mg.enc_mvars(case['mvars'])} {mg.enc_calls(calls)} "
            f"1 {len(dims)} {' '.join(dims)} {len(req)} {' '.join(req)}")
    ans = drv.ask(line)
    model_sel = None if ans.startswith("err") else [(t.rstrip("~"), t.endswith("~")) for t in ans.split("*")]
    want_sel = oracle_selection(case)
    with warnings.catch_warnings():
        warnings.simplefilter("ignore")
        try:
            got = grid.get_metric(data, arg)
            impl = "ok"
        except Exception as e:  # noqa: BLE001
            got, impl = None, "err:" + exc_kind(e)

        def same(a, b):
            a, b = xr.broadcast(a, b)
            return a.dims == b.dims or set(a.dims) == set(b.dims) and bool(
                (a.transpose(*b.dims).values == b.values).all())

        def eq(a, b):
            if set(a.dims) != set(b.dims):
                return False
            return bool((a.transpose(*b.dims).values == b.values).all())
        detail = {}
        if got is None:
            corr_ok = model_sel is None
            prop_ok = want_sel is None
            if not (corr_ok and prop_ok):
                detail["sel"] = {"impl": impl, "model": ans, "oracle": str(want_sel)}
            return {"corr_ok": corr_ok, "prop_ok": prop_ok, "branch": "refused", "detail": detail or None}
        corr_ok = model_sel is not None and eq(got, materialise(grid, ds, case, model_sel, data))
        prop_ok = want_sel is not None and eq(got, materialise(grid, ds, case, want_sel, data)) \
            and set(got.dims) <= set(data.dims)
        if not (corr_ok and prop_ok):
            detail["sel"] = {"impl_values": got.values.reshape(-1)[:6].tolist(), "model": ans, "oracle": str(want_sel)}
        branch = ("product" if want_sel and len(want_sel) > 1 else "single") + \
            (":interp" if want_sel and any(i for _, i in want_sel) else "")
        # ---- operations built on the metric
        op = case["op"]
        odims = [next(a for a in axes if a["name"] == n)["coords"][case["pos"][n]] for n in dict.fromkeys(req)]
        if prop_ok and op == "integrate":
            res = grid.integrate(data, arg)
            want = (data * got).sum(odims)
            res2 = grid.integrate(data, list(reversed(list(dict.fromkeys(req)))))
            if not (eq(res, want) and eq(res2, want)):
                prop_ok = False
                detail["integrate"] = [res.values.tolist(), want.values.tolist()]
        elif prop_ok and op == "average":
            const = xr.full_like(data, 2.5)
            r1 = grid.average(const, arg)
            r2 = grid.average(data, arg)
            want = (data * got).sum(odims) / (got + 0 * data).sum(odims)
            ok1 = bool(np.allclose(r1.values, 2.5, rtol=1e-12, atol=0))
            ok2 = bool(np.allclose(r2.transpose(*want.dims).values, want.values, rtol=1e-12, atol=1e-12))
            if not (ok1 and ok2):
                prop_ok = False
                detail["average"] = [r1.values.tolist(), r2.values.tolist(), want.values.tolist()]
        elif prop_ok and op in ("derivative", "weighted") and len(req) == 1:
            ax = req[0]
            try:
                d = grid.diff(data, ax)
                mres = grid.get_metric(d, (ax,))
            except Exception:  # noqa: BLE001
                return {"corr_ok": corr_ok, "prop_ok": prop_ok, "branch": branch, "detail": detail or None}
            if op == "derivative":
                res = grid.derivative(data, ax)
                want = d / mres
                ok = bool(np.allclose(res.transpose(*want.dims).values, want.values, rtol=1e-12, atol=0))
            else:
                fn = rr.choice(["diff", "interp"])
                res = getattr(grid, fn)(data, ax, metric_weighted=(ax,))
                want = getattr(grid, fn)(data * got, ax) / mres
                ok = bool(np.allclose(res.transpose(*want.dims).values, want.values, rtol=1e-12, atol=1e-12))
            if not ok:
                prop_ok = False
                detail[op] = [res.values.reshape(-1)[:6].tolist(), want.values.reshape(-1)[:6].tolist()]
            branch += ":" + op
    return {"corr_ok": corr_ok, "prop_ok": prop_ok, "branch": branch, "detail": detail or None}


def nontrivial(case, verdict):
    return "product" in verdict.get("branch", "") or "interp" in verdict.get("branch", "")

"""C14 — metadata autoparsing (COMODO, SGRID).

A case = a dataset GENERATED from one of the two documented tables with arbitrary dimension names
(substrings of each other, single letters, ...) and dimension order:
  comodo : 1-3 axes, random position sets, cell count n >= 1 (>= 2 with inner), either sign of
           c_grid_axis_shift on inner/outer coordinates, float or string-typed attribute
  sgrid  : 1-D / 2-D / 2-D + vertical_dimensions / 3-D topologies, every padding word, with / without the
           space after ':'
  misc   : hierarchy (SGRID wins when declared), user coords together with parsed ones are refused
correspondence : per axis, the position->dimension mapping of the real parser vs the Lean model
                 (`comodoAxis` / `sgridAxis` on the token list)
property       : Grid(ds).axes == exactly the layout the dataset was generated from (axes, positions,
                 dimension names), and one diff on the parsed Grid equals the diff on the explicit Grid
"""
from __future__ import annotations

import numpy as np
import xarray as xr

from common import exc_kind, pos_len

RULE = ("datasets generated from the COMODO / SGRID tables: 1-3 axes, all position subsets, n in 1..5, random "
        "names from a pool with substrings/single letters, random dimension order; non-trivial = the layout has "
        "an inner/outer position or names that contain one another or an SGRID topology; distinct by case")

NAMES = ["x", "xc", "xg", "x_c", "xx", "lon", "lon_g", "i", "ig", "i_g", "nx", "nxp", "y", "yc", "yg", "lat", "j", "jg",
         "z", "zc", "zl", "k", "kp1", "depth", "depthw", "t", "e", "r", "xi", "eta", "xi_psi", "eta_psi", "s_rho", "s_w",
         # dimension names are arbitrary labels, not identifiers
         "xi-rho", "x-node", "lon.c", "y.g", "eta-psi"]
PAD = {"left": "high", "right": "low", "inner": "both", "outer": "none"}


def gen_case(rng, tier, i):
    r = rng.random()
    if r < 0.5:
        n_axes = rng.randint(1, 3)
        names = rng.sample(NAMES, 5 * n_axes)
        axes = []
        for a in range(n_axes):
            n = rng.randint(1, 5)
            others = [p for p in ("left", "right", "outer", "inner") if rng.random() < 0.45 and (p != "inner" or n >= 2)]
            poss = ["center"] + others
            rng.shuffle(poss)
            axes.append({"name": "XYZ"[a], "n": n, "coords": {p: names[5 * a + k] for k, p in enumerate(poss)},
                         "sign": {p: rng.choice([-0.5, 0.5]) for p in poss}})
        return {"kind": "comodo", "axes": axes, "strattr": rng.random() < 0.2, "seed": rng.randrange(1 << 30)}
    if r < 0.9:
        topo = rng.choice(["1d", "2d", "2dv", "3d"])
        n_axes = {"1d": 1, "2d": 2, "2dv": 3, "3d": 3}[topo]
        names = rng.sample(NAMES, 2 * n_axes)
        axes = []
        for a in range(n_axes):
            n = rng.randint(2, 5)
            p = rng.choice(["left", "right", "inner", "outer"])
            axes.append({"name": "XYZ"[a], "n": n, "coords": {"center": names[2 * a], p: names[2 * a + 1]}})
        return {"kind": "sgrid", "topo": topo, "axes": axes, "space": rng.random() < 0.5, "seed": rng.randrange(1 << 30)}
    return {"kind": "misc", "which": rng.choice(["hierarchy", "conflict"]), "seed": rng.randrange(1 << 30)}


def comodo_dataset(case):
    import random
    rr = random.Random(case["seed"])
    coords = {}
    order = []
    for ax in case["axes"]:
        for p, d in ax["coords"].items():
            L = pos_len(ax["n"], p)
            attrs = {"axis": ax["name"]}
            if p != "center":
                s = {"left": -0.5, "right": 0.5}.get(p, ax["sign"][p])
                attrs["c_grid_axis_shift"] = str(s) if case["strattr"] else s
            coords[d] = xr.DataArray(np.arange(L, dtype=float), dims=[d], attrs=attrs)
            order.append(d)
    rr.shuffle(order)
    ds = xr.Dataset(coords={d: coords[d] for d in order})
    return ds


def sgrid_dataset(case):
    import random
    rr = random.Random(case["seed"])
    axes = case["axes"]
    coords = {}
    order = []
    for ax in axes:
        for p, d in ax["coords"].items():
            coords[d] = (d, np.arange(pos_len(ax["n"], p), dtype=float))
            order.append(d)
    rr.shuffle(order)
    sep = ": " if case["space"] else ":"

    def spec(ax):
        (p, node), = [(p, d) for p, d in ax["coords"].items() if p != "center"]
        return f"{ax['coords']['center']}{sep}{node} (padding{sep}{PAD[p]})", node
    topo = case["topo"]
    attrs = {"cf_role": "grid_topology"}
    horiz = axes[:1] if topo == "1d" else axes[:2] if topo in ("2d", "2dv") else axes
    attrs["topology_dimension"] = {"1d": 1, "2d": 2, "2dv": 2, "3d": 3}[topo]
    attrs["node_dimensions"] = " ".join(spec(a)[1] for a in horiz)
    key = "volume_dimensions" if topo == "3d" else "face_dimensions"
    cells = [spec(a)[0] for a in horiz]
    if case["seed"] % 3 == 0:
        rr.shuffle(cells)      # the entries are matched to the node dimensions by NAME, not by place
    attrs[key] = " ".join(cells)
    if topo == "2dv":
        attrs["vertical_dimensions"] = spec(axes[2])[0]
    ds = xr.Dataset({"grid": xr.DataArray(0, attrs=attrs)}, coords={d: coords[d] for d in order},
                    attrs={"Conventions": "CF-1.6, SGRID-0.3"})
    return ds, attrs


def eval_case(case, drv):
    import xgcm
    from xgcm import comodo, metadata_parsers, sgrid
    if case["kind"] == "misc":
        ds, _ = sgrid_dataset({"topo": "1d", "axes": [{"name": "X", "n": 3, "coords": {"center": "xc", "outer": "xo"}}],
                               "space": True, "seed": case["seed"]})
        # the same dims also carry COMODO attributes that say something else
        ds["xo"].attrs.update({"axis": "Q", "c_grid_axis_shift": -0.5})
        ds["xc"].attrs.update({"axis": "Q"})
        if case["which"] == "hierarchy":
            try:
                g = xgcm.Grid(ds)
                ok = list(g.axes) == ["X"] and dict(g.axes["X"].coords) == {"center": "xc", "outer": "xo"}
                ds2 = ds.copy()
                ds2.attrs = {}
                ds2["xo"].attrs.update({"axis": "Q", "c_grid_axis_shift": 0.5})
                g2 = xgcm.Grid(ds2.drop_vars("grid"))
                ok = ok and list(g2.axes) == ["Q"] and dict(g2.axes["Q"].coords) == {"center": "xc", "outer": "xo"}
                det = None if ok else {"axes": str(g.axes), "axes2": str(g2.axes)}
            except Exception as e:  # noqa: BLE001  -- both datasets are well formed: a refusal is a verdict
                ok, det = False, {"refused": exc_kind(e) + ": " + str(e)[:150]}
            return {"corr_ok": True, "prop_ok": ok, "branch": "hierarchy", "detail": det}
        # user-supplied coords together with parsed ones are refused - whatever the user's axes are called
        import random
        which = random.Random(case["seed"]).choice([{"X": {"center": "xc", "outer": "xo"}}, {"T": {"center": "xc"}},
                                                     {"lon": {"center": "xc", "outer": "xo"}}, {"Z": {"center": "xo"}}])
        try:
            g = xgcm.Grid(ds, coords=which)
            ok, how = False, "answered with axes " + str(list(g.axes))
        except ValueError:
            ok, how = True, ""
        except Exception as e:  # noqa: BLE001
            ok, how = False, exc_kind(e) + ": " + str(e)[:100]
        return {"corr_ok": True, "prop_ok": ok, "branch": "conflict", "detail": None if ok else {"coords": which, "impl": how}}
    axes = case["axes"]
    want = {ax["name"]: dict(ax["coords"]) for ax in axes}
    detail = {}
    corr_ok = prop_ok = True
    if case["kind"] == "comodo":
        ds = comodo_dataset(case)
        for ax in axes:
            try:
                got = dict(comodo.get_axis_positions_and_coords(ds, ax["name"]))
                impl = "ok " + " ".join(f"{p}={d}" for p, d in
                                        comodo.get_axis_positions_and_coords(ds, ax["name"]).items())
            except Exception as e:  # noqa: BLE001
                got, impl = None, "err " + exc_kind(e)
            members = [d for d in ds.dims if ds[d].attrs.get("axis") == ax["name"]]
            enc = []
            for d in members:
                s = ds[d].attrs.get("c_grid_axis_shift")
                enc.append(f"{d} {ds.sizes[d]} " + ("N" if s is None else str(int(round(float(s) * 2)))))
            model = drv.ask(f"c14comodo {len(members)} " + " ".join(enc))
            if impl != model and not (impl.startswith("err") and model.startswith("err")):
                corr_ok = False
                detail["model"] = {"axis": ax["name"], "impl": impl, "model": model}
            if got != want[ax["name"]]:
                prop_ok = False
                detail["layout"] = {"axis": ax["name"], "impl": got, "want": want[ax["name"]]}
    else:
        ds, attrs = sgrid_dataset(case)
        for k, ax in enumerate(axes):
            try:
                r = sgrid.get_axis_positions_and_coords(ds, ax["name"])
                got, impl = dict(r), "ok " + " ".join(f"{p}={d}" for p, d in r.items())
            except Exception as e:  # noqa: BLE001
                got, impl = None, "err " + exc_kind(e)
            if case["topo"] == "2dv" and ax["name"] == "Z":
                text = attrs["vertical_dimensions"]
            else:
                text = attrs.get("volume_dimensions") or attrs.get("face_dimensions")
            toks = text.replace(":", " ").split()
            node = [d for p, d in ax["coords"].items() if p != "center"][0]
            model = drv.ask(f"c14sgrid {len(toks)} {' '.join(toks)} {node}")
            if impl != model and not (impl.startswith("err") and model.startswith("err")):
                corr_ok = False
                detail["model"] = {"axis": ax["name"], "impl": impl, "model": model}
            if got != want[ax["name"]]:
                prop_ok = False
                detail["layout"] = {"axis": ax["name"], "impl": got, "want": want[ax["name"]], "attrs": attrs}
    # the Grid built from the metadata == the Grid built from the explicit mapping
    if prop_ok:
        try:
            g_auto = xgcm.Grid(ds, periodic=False)
            g_expl = xgcm.Grid(ds, coords=want, periodic=False, autoparse_metadata=False)
            same = {a: dict(g_auto.axes[a].coords) for a in g_auto.axes} == {a: dict(g_expl.axes[a].coords) for a in g_expl.axes}
            if same and set(g_auto.axes) == set(want):
                ax0 = axes[0]
                other = [p for p in ax0["coords"] if p != "center"]
                if other:
                    d = ax0["coords"]["center"]
                    da = xr.DataArray(np.arange(ds.sizes[d], dtype=float) ** 2, dims=[d])
                    r1 = g_auto.diff(da, ax0["name"], to=other[0])
                    r2 = g_expl.diff(da, ax0["name"], to=other[0])
                    same = r1.dims == r2.dims and bool((r1.values == r2.values).all())
            else:
                same = False
            if not same:
                prop_ok = False
                detail["grid"] = {"auto": {a: dict(g_auto.axes[a].coords) for a in g_auto.axes}, "want": want}
        except Exception as e:  # noqa: BLE001
            prop_ok = False
            detail["grid"] = exc_kind(e) + ": " + str(e)[:150]
    return {"corr_ok": corr_ok, "prop_ok": prop_ok, "branch": case["kind"] + (":" + case.get("topo", "")),
            "detail": detail or None}


def nontrivial(case, verdict):
    if case["kind"] != "comodo":
        return True
    names = [d for ax in case["axes"] for d in ax["coords"].values()]
    sub = any(a != b and a in b for a in names for b in names)
    return sub or any(p in ("inner", "outer") for ax in case["axes"] for p in ax["coords"])

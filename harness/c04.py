"""C04 — vector components across rotated face links.

Generated decompositions as in C03, restricted to per-face ROTATIONS such that every junction
is a non-reversed, expressible link (the lat-lon-cap family), plus grids without any face
connections.  A global C-grid field (U on lower-X faces, V on lower-Y faces) is pulled back to
every face with the component exchange and sign the rotation demands (computed here,
independently of the Lean development).

  implementation : Grid.diff / Grid.interp({ax: comp}, ax, other_component={other: partner})
  model          : Lean `c03op` with the vector flag (padFaceConnections vector path + stencil)
  oracle         : the pull-back formula continued one index beyond the face through the GLOBAL
                   field (boundary rule on the face's own line at unlinked edges), plain stencil;
                   and diff_X u + diff_Y v == divergence of (U, V) at the corresponding global cell
  simple grids   : vector form == scalar form
"""
from __future__ import annotations

import numpy as np
import xarray as xr

import facegrid as fg
from c03 import app, expressible, facing_side, lin, neighbours, normal, table_of
from common import dyadic, enc_rat, exc_kind, fillv

RULE = ("decompositions Kx,Ky in 1..3 (thorough ..4) of a periodic/open domain, per-face rotations with all "
        "junctions non-reversed + expressible, N in 2..5, both components, diff and interp, rules on open "
        "edges, 0-2 extra dims with the face dim anywhere; plus single-face / simple grids without "
        "face_connections (vector form vs scalar form); non-trivial = at least one axis-swapping link or the "
        "simple-grid comparison; distinct by case")

ROT = [(0, 0, 0), (1, 1, 0), (0, 1, 1), (1, 0, 1)]


def choose_rotations(rng, Kx, Ky, per):
    nf = Kx * Ky
    nb = neighbours(Kx, Ky, per)
    orient = [None] * nf

    def ok(f):
        I, J = divmod(f, Ky)
        for a in (0, 1):
            for s in (0, 1):
                d = lin(orient[f], normal(a, s))
                g = nb(I, J, d)
                if g is None or orient[g] is None:
                    continue
                b, s2 = facing_side(orient[g], d)
                if s == s2:
                    return False           # reversed link
                if not expressible(orient[f], orient[g], a, s):
                    return False
                if not expressible(orient[g], orient[f], b, s2):
                    return False
        return True

    def rec(i):
        if i == nf:
            return True
        opts = ROT[:]
        rng.shuffle(opts)
        for o in opts:
            orient[i] = o
            if ok(i) and rec(i + 1):
                return True
        orient[i] = None
        return False
    if not rec(0):
        return None
    return orient


def gen_case(rng, tier, i):
    if rng.random() < 0.1:
        # "the right partner and sign" cell by cell on ARBITRARY per-face data (no global field behind it), with
        # components of different types: the vector cases of C05's generator, judged as there
        import c05
        while True:
            c = c05.gen_case(rng, tier, i)
            if c["vec"]:
                break
        if not c.get("int_comp"):
            c["int_comp"] = True
            c["data"] = [float(rng.randint(-16, 16)) for _ in c["data"]]
            c["fill"] = {"X": float(rng.randint(-3, 3)), "Y": float(rng.randint(-3, 3))}
        return {"kind": "generic", "c05": c}
    if rng.random() < 0.15:
        N = rng.randint(2, 5)
        return {"kind": "simple", "N": N, "ny": rng.randint(2, 4),
                "func": rng.choice(["diff", "interp"]), "comp": rng.choice(["X", "Y"]),
                "rule": rng.choice(["fill", "extend", "periodic"]), "fill": fillv(rng),
                "u": [dyadic(rng, -16, 16, 1) for _ in range(N * 4)], "v": [dyadic(rng, -16, 16, 1) for _ in range(N * 4)],
                "with_other": rng.random() < 0.7}
    kmax = 4 if tier == "thorough" else 3
    while True:
        Kx, Ky = rng.randint(1, kmax), rng.randint(1, kmax)
        if Kx * Ky > (9 if tier == "thorough" else 6):
            Ky = 1
        per = [rng.random() < 0.6, rng.random() < 0.6]
        orient = choose_rotations(rng, Kx, Ky, per)
        if orient is not None:
            break
    N = rng.randint(2, 5 if tier == "thorough" else 4)
    extra = [(f"e{k}", rng.choice([1, 2])) for k in range(rng.randint(0, 2))]
    U = [[dyadic(rng, -16, 16, 1) for _ in range(Ky * N)] for _ in range(Kx * N + 1)]
    V = [[dyadic(rng, -16, 16, 1) for _ in range(Ky * N + 1)] for _ in range(Kx * N)]
    order_seed = rng.randrange(1 << 30)
    return {"kind": "faces", "Kx": Kx, "Ky": Ky, "N": N, "per": per, "orient": orient, "extra": extra,
            "U": U, "V": V, "func": rng.choice(["diff", "interp"]), "comp": rng.choice(["X", "Y"]),
            "rule": rng.choice(["fill", "extend", "periodic"]), "fill": fillv(rng), "order_seed": order_seed}


def glob(case):
    U = np.array(case["U"], dtype=float)
    V = np.array(case["V"], dtype=float)
    Kx, Ky, N = case["Kx"], case["Ky"], case["N"]
    if case["per"][0]:
        U[Kx * N, :] = U[0, :]
    if case["per"][1]:
        V[:, Ky * N] = V[:, 0]
    return U, V


def flux(case, U, V, n, cx, cy):
    """flux through the lower face in direction n of global cell (cx, cy); None if the cell lies outside
    the (non-periodic) domain"""
    Kx, Ky, N = case["Kx"], case["Ky"], case["N"]
    sx, sy = Kx * N, Ky * N
    if case["per"][0]:
        cx %= sx
    if case["per"][1]:
        cy %= sy
    if not (0 <= cx < sx and 0 <= cy < sy):
        return None
    if n == (1, 0):
        return U[cx, cy]
    if n == (-1, 0):
        return -U[cx + 1, cy]
    if n == (0, 1):
        return V[cx, cy]
    return -V[cx, cy + 1]


def local_comp(case, U, V, f, a, x, y):
    Ky, N = case["Ky"], case["N"]
    I, J = divmod(f, Ky)
    o = tuple(case["orient"][f])
    n = lin(o, (0, 1)) if a else lin(o, (1, 0))
    u, v = app(o, N, x, y)
    return flux(case, U, V, n, I * N + u, J * N + v)


def eval_simple(case, drv):
    import xgcm
    N, ny = case["N"], case["ny"]
    ds = xr.Dataset(coords={"xc": ("xc", np.arange(N) + 0.5), "xg": ("xg", np.arange(N) * 1.0),
                            "yc": ("yc", np.arange(ny) + 0.5), "yg": ("yg", np.arange(ny) * 1.0)})
    grid = xgcm.Grid(ds, coords={"X": {"center": "xc", "left": "xg"}, "Y": {"center": "yc", "left": "yg"}},
                     boundary=case["rule"], fill_value=case["fill"], autoparse_metadata=False)
    u = xr.DataArray(np.array(case["u"][: N * ny], dtype=float).reshape(N, ny), dims=["xg", "yc"], name="u")
    v = xr.DataArray(np.array(case["v"][: N * ny], dtype=float).reshape(N, ny), dims=["xc", "yg"], name="v")
    comp, other = (u, v) if case["comp"] == "X" else (v, u)
    ax, oax = ("X", "Y") if case["comp"] == "X" else ("Y", "X")
    want = getattr(grid, case["func"])(comp, ax)
    try:
        kw = {"other_component": {oax: other}} if case["with_other"] else {}
        got = getattr(grid, case["func"])({ax: comp}, ax, **kw)
        ok = bool((got.values == want.values).all()) and got.dims == want.dims
        detail = None if ok else {"got": got.values.tolist(), "want": want.values.tolist()}
    except Exception as e:  # noqa: BLE001
        ok, detail = False, {"impl": exc_kind(e) + ": " + str(e)[:120]}
    return {"corr_ok": True, "prop_ok": ok, "branch": "simple:" + case["func"], "detail": detail}


def eval_case(case, drv):
    if case["kind"] == "generic":
        import c05
        v = c05.eval_case(case["c05"], drv)
        v["branch"] = "generic:" + v.get("branch", "")
        return v
    if case["kind"] == "simple":
        return eval_simple(case, drv)
    import random
    Kx, Ky, N = case["Kx"], case["Ky"], case["N"]
    nf = Kx * Ky
    U, V = glob(case)
    orient = [tuple(o) for o in case["orient"]]
    tbl = table_of(Kx, Ky, case["per"], orient)
    extra = [tuple(e) for e in case["extra"]]
    ds = fg.dataset(nf, N, extra)
    rule, fill = case["rule"], case["fill"]
    grid = fg.make_grid(ds, tbl, {"X": rule, "Y": rule}, {"X": fill, "Y": fill})
    u3 = np.zeros((nf, N, N))
    v3 = np.zeros((nf, N, N))
    for f in range(nf):
        for x in range(N):
            for y in range(N):
                u3[f, x, y] = local_comp(case, U, V, f, 0, x, y)
                v3[f, x, y] = local_comp(case, U, V, f, 1, x, y)
    rr = random.Random(case["order_seed"])

    def mk(arr, dims, name):
        da = xr.DataArray(arr, dims=["face"] + dims)
        for d, s in extra:
            da = da + xr.DataArray(np.zeros(s), dims=[d])
        order = list(da.dims)
        rr.shuffle(order)
        return da.transpose(*order).rename(name)
    u = mk(u3, ["xg", "yc"], "u")
    v = mk(v3, ["xc", "yg"], "v")
    a = 0 if case["comp"] == "X" else 1
    ax, oax = ("X", "Y") if a == 0 else ("Y", "X")
    comp, other = (u, v) if a == 0 else (v, u)
    kinds = sorted(fg.link_kinds(tbl))
    try:
        res = getattr(grid, case["func"])({ax: comp}, ax, other_component={oax: other})
        got = fg.exact(fg.canon_faces(res, "xc", "yc"))
    except Exception as e:  # noqa: BLE001
        return {"corr_ok": False, "prop_ok": False, "branch": "refused",
                "detail": {"impl": exc_kind(e) + ": " + str(e)[:150], "kinds": kinds}}
    # model
    conn_axes = fg.table_axes(tbl)      # the axes the table names (not through a private helper of xgcm)
    pad_axes = [a for a in ("X", "Y") if a in (conn_axes + [ax])]     # the grid's own axis order (not a set's)
    cdims = ("xg", "yc") if a == 0 else ("xc", "yg")
    pdims = ("xc", "yg") if a == 0 else ("xg", "yc")
    data4 = fg.canon_faces(comp, *cdims)
    part4 = fg.canon_faces(other, *pdims)
    R = data4.shape[3]
    line = (f"c03op {case['func']} left center {ax} X Y {fg.enc_table(tbl)} {len(pad_axes)} {' '.join(pad_axes)} "
            f"{rule} {enc_rat(fill)} {rule} {enc_rat(fill)} V {ax} {nf} {R} {fg.enc_faces(data4)} {fg.enc_faces(part4)}")
    ans = drv.ask(line)
    model = fg.dec_faces(ans, nf, R) if ans.startswith("ok") else None
    corr_ok = model is not None and got.shape == model.shape and bool((got == model).all())
    # oracle: continue the component one index beyond the face through the global field
    op = (lambda l, r: r - l) if case["func"] == "diff" else (lambda l, r: (l + r) / 2.0)
    want = np.zeros((nf, N, N))
    own = u3 if a == 0 else v3
    for f in range(nf):
        for x in range(N):
            for y in range(N):
                nx_, ny_ = (x + 1, y) if a == 0 else (x, y + 1)
                left = own[f, x, y]
                if nx_ < N and ny_ < N:
                    right = own[f, nx_, ny_]
                else:
                    right = local_comp(case, U, V, f, a, nx_, ny_)
                    if tbl[f][ax][1] is None:      # unlinked edge: rule on the face's own line
                        right = {"fill": fill, "extend": own[f, x, y],
                                 "periodic": own[f, 0, y] if a == 0 else own[f, x, 0]}[rule]
                want[f, x, y] = op(left, right)
    wantx = fg.exact(want)
    prop_ok = all(bool((got[..., r] == wantx).all()) for r in range(R))
    detail = None
    if not (corr_ok and prop_ok):
        bad = [[int(i) for i in idx] + [str(got[idx + (0,)]), str(wantx[idx])]
               for idx in zip(*np.nonzero(got[..., 0] != wantx))][:6]
        detail = {"kinds": kinds, "bad_vs_oracle": bad, "model": None if model is not None else ans[:80],
                  "orient": case["orient"], "table": tbl}
    # divergence check (diff only, both components, interior of the global domain or periodic)
    if prop_ok and case["func"] == "diff":
        try:
            du = grid.diff({"X": u}, "X", other_component={"Y": v})
            dv = grid.diff({"Y": v}, "Y", other_component={"X": u})
            div = fg.exact(fg.canon_faces(du + dv, "xc", "yc"))[..., 0]
            for f in range(nf):
                if tbl[f]["X"][1] is None or tbl[f]["Y"][1] is None:
                    continue
                I, J = divmod(f, Ky)
                for x in range(N):
                    for y in range(N):
                        cu, cv = app(orient[f], N, x, y)
                        gx, gy = I * N + cu, J * N + cv
                        gd = (U[gx + 1, gy] - U[gx, gy]) + (V[gx, gy + 1] - V[gx, gy])
                        if div[f, x, y] != fg.frac(gd):
                            prop_ok = False
                            detail = {"divergence": [f, x, y, str(div[f, x, y]), str(gd)], "kinds": kinds}
                            break
        except Exception as e:  # noqa: BLE001
            prop_ok = False
            detail = {"divergence": exc_kind(e) + str(e)[:100]}
    return {"corr_ok": corr_ok, "prop_ok": prop_ok,
            "branch": f"{case['func']}:{case['comp']}:{','.join(kinds) or 'nolinks'}", "detail": detail}


def nontrivial(case, verdict):
    if case["kind"] == "generic":
        import c05
        return c05.nontrivial(case["c05"], verdict)
    if case["kind"] == "simple":
        return True
    tbl = table_of(case["Kx"], case["Ky"], case["per"], [tuple(o) for o in case["orient"]])
    return any("swap" in k for k in fg.link_kinds(tbl))

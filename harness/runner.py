"""Generic correspondence / property-evaluation loop shared by all properties.

A property module provides

  gen_case(rng, tier, i) -> case            JSON-able description of one input
  eval_case(case, drv) -> verdict           runs the REAL xgcm, the Lean model and
                                            the Lean/pure spec on the case
  nontrivial(case, verdict) -> bool         the per-property rule
  RULE : str                                text of that rule
  known(case, verdict) -> finding id | None (optional) matches a committed known finding

verdict keys:
  corr_ok : bool    implementation == model       (correspondence)
  prop_ok : bool    implementation satisfies the property on this input
                    (vs. the independent spec, or the relation evaluated on the
                    implementation itself)
  branch  : str     which branch / error kind the case exercised (histogram)
  detail  : any     what differed
"""
from __future__ import annotations

import glob
import json
import os
import random
import time
import traceback

from common import VERIF, Budget, Driver, Outcome, digest


def case_size(case) -> int:
    return len(json.dumps(case, default=str))


_KNOWN = None


def known_ids():
    """ids listed with status "known" in the committed known_findings.json (read only, never written)"""
    global _KNOWN
    if _KNOWN is None:
        import json
        import os
        p = os.path.join(os.path.dirname(os.path.dirname(os.path.abspath(__file__))), "known_findings.json")
        _KNOWN = {k["id"] for k in json.load(open(p))["findings"] if k.get("status") == "known"}
    return _KNOWN


def run_property(mod, prop, seed, tier, seconds, max_cases, replay=None):
    out = Outcome(prop)
    drv = Driver()
    budget = Budget(seconds)
    rng = random.Random(f"{prop}-{seed}")
    try:
        cases = []
        if replay is not None:
            with open(replay) as f:
                rep = json.load(f)
            cases = [("replay", rep["case"])] if "case" in rep else []
        else:
            for path in sorted(glob.glob(os.path.join(VERIF, "corpus", prop, "*.json"))):
                with open(path) as f:
                    cases.append(("corpus:" + os.path.basename(path), json.load(f)["case"]))
        if replay is None and hasattr(mod, "fixed_cases"):
            for c in mod.fixed_cases(tier):
                cases.append(("fixed", c))
        n_fixed = len(cases)
        i = 0
        while True:
            if i < n_fixed:
                origin, case = cases[i]
            else:
                if replay is not None:
                    break
                if getattr(mod, "EXHAUSTIVE_ONLY", False):
                    break
                if (i - n_fixed) >= max_cases or not budget.ok():
                    break
                origin, case = "gen", mod.gen_case(rng, tier, i - n_fixed)
            i += 1
            try:
                verdict = mod.eval_case(case, drv)
            except Exception as e:
                tb = traceback.extract_tb(e.__traceback__)
                in_xgcm = [f for f in tb if os.sep + "xgcm" + os.sep in f.filename and os.sep + "harness" + os.sep not in f.filename]
                if in_xgcm:
                    # the harness guards every call it expects to be refused; an exception that escapes from inside
                    # xgcm on a generated (well-posed) input is the implementation failing where an answer is due
                    last = in_xgcm[-1]
                    verdict = {"corr_ok": False, "prop_ok": False, "branch": "uncaught-exception-from-xgcm",
                               "detail": {"exception": f"{type(e).__name__}: {str(e)[:200]}",
                                          "raised_at": f"{os.path.basename(last.filename)}:{last.lineno} in {last.name}"}}
                else:  # harness bug or driver crash: infrastructure, not a verdict
                    out.notes.append(f"harness error on {origin}: {type(e).__name__}: {e}")
                    out.notes.append(traceback.format_exc()[-1500:])
                    out.infra_error = True
                    break
            nt = bool(mod.nontrivial(case, verdict))
            out.count(case, nt)
            out.hist[verdict.get("branch", "?")] += 1
            if nt:
                out.sample({"case": case, "branch": verdict.get("branch")})
            if not verdict["prop_ok"]:
                fid = mod.known(case, verdict) if hasattr(mod, "known") else None
                if fid is not None and fid in known_ids():
                    out.known_hits.append((fid, origin))
                else:
                    out.violations.append({"case": case, "detail": verdict.get("detail"),
                                           "origin": origin, "branch": verdict.get("branch")})
            elif not verdict["corr_ok"]:
                # model and implementation differ but the property's own oracle is satisfied: keep the first 200 and
                # go on - the search for an input on which the PROPERTY fails uses the whole budget
                if len(out.corr_mismatch) < 200:
                    out.corr_mismatch.append({"case": case, "detail": verdict.get("detail"),
                                              "origin": origin, "branch": verdict.get("branch")})
            if len(out.violations) >= 25:
                break
        out.exhaustive = bool(getattr(mod, "EXHAUSTIVE_ONLY", False)) and replay is None
    finally:
        drv.close()
    # smallest first: crude shrinking by selection
    out.violations.sort(key=lambda v: case_size(v["case"]))
    out.corr_mismatch.sort(key=lambda v: case_size(v["case"]))
    return out


def shrink(mod, drv_factory, failing, budget_s=20):
    """Greedy shrinking through the property module's `shrink_candidates(case)` (optional)."""
    if not hasattr(mod, "shrink_candidates"):
        return failing
    drv = drv_factory()
    t0 = time.time()
    cur = failing
    try:
        progress = True
        while progress and time.time() - t0 < budget_s:
            progress = False
            for cand in mod.shrink_candidates(cur["case"]):
                if time.time() - t0 > budget_s:
                    break
                try:
                    v = mod.eval_case(cand, drv)
                except Exception:
                    continue
                if not v["prop_ok"] and not (hasattr(mod, "known") and mod.known(cand, v) in known_ids()):
                    cur = {"case": cand, "detail": v.get("detail"), "origin": "shrunk",
                           "branch": v.get("branch")}
                    progress = True
                    break
    finally:
        drv.close()
    return cur

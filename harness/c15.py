"""C15 — grid-ufunc signature grammar and equivalence.

One case = one well-formed signature (a shape from the exhaustive shape list of the
property's bounds, with random names / positions) together with
  * its round trip (string route, spaces inserted, type-hint route),
  * EVERY single-character corruption of it (delete / insert / substitute over the
    alphabet  a X _ 1 : ( ) , - > space newline ; e),
  * renamings of it (injective, non-injective, position-changing) for `equivalent`.
Implementation vs Lean model (`sigparse`, `sighints`, `sigequiv`) = correspondence;
implementation vs the independent strict-grammar oracle below = property.
"""
from __future__ import annotations

import itertools
import random
import re
from typing import Annotated, Tuple

import numpy as np

from common import POSITIONS

RULE = ("shapes: all (1-3 inputs) x (1-2 outputs) x (0-2 pairs per argument) = 468, cycled, each with "
        "random names from a pool incl. single letters t/e/r/c/n/l/f, names containing position words, "
        "prefixes of each other; all single-character corruptions (12-symbol alphabet); 6 renamings; "
        "non-trivial = every case (each carries >= 100 corruptions); distinct by signature text")

ALPHABET = ["a", "X", "_", "1", ":", "(", ")", ",", "-", ">", " ", "\n", ";", "e"]
NAME_POOL = ["X", "Y", "Z", "t", "e", "r", "c", "n", "l", "f", "Xleft", "centerline", "in", "inn", "inner_",
             "a1", "_x", "lef", "outerX", "T", "x", "ab", "abc", "rightmost"]

SHAPES = [(ins, outs)
          for n_in in (1, 2, 3) for ins in itertools.product((0, 1, 2), repeat=n_in)
          for n_out in (1, 2) for outs in itertools.product((0, 1, 2), repeat=n_out)]


def sig_text(sig):
    def side(args):
        return ",".join("(" + ",".join(f"{n}:{p}" for n, p in a) + ")" for a in args)
    return side(sig[0]) + "->" + side(sig[1])


def gen_case(rng, tier, i):
    ins_shape, outs_shape = SHAPES[i % len(SHAPES)]
    names = rng.sample(NAME_POOL, 3)
    used = []

    def arg(k):
        out = []
        for _ in range(k):
            n = rng.choice(names)
            used.append(n)
            out.append([n, rng.choice(POSITIONS)])
        return out
    ins = [arg(k) for k in ins_shape]
    # outputs may only use names that appear on the input side, when there are any
    in_names = [n for a in ins for n, _ in a]

    def oarg(k):
        return [[rng.choice(in_names) if in_names else rng.choice(names), rng.choice(POSITIONS)]
                for _ in range(k)]
    outs = [oarg(k) for k in outs_shape]
    return {"sig": [ins, outs], "salt": rng.randrange(1 << 30)}


# ----- independent strict-grammar oracle -----------------------------------------------

ALLOWED = set("()-,>: ")


def classify(text):
    """'wf' (must be accepted and round-trip), 'bad' (must be rejected), 'gray' (not pinned)"""
    t = text.replace(" ", "")
    if any(not (c in ALLOWED or c.isalnum() or c == "_") for c in t) or not t.isascii():
        return "bad"                      # stray character
    if t.count("->") != 1 or t.count("-") != 1 or t.count(">") != 1:
        return "bad"                      # missing side / stray arrow parts
    lhs, rhs = t.split("->")
    if not lhs or not rhs:
        return "bad"                      # missing side
    if ",," in t or "((" in t or ")(" in t or "(," in t:
        return "bad"                      # doubled comma, nested, juxtaposed
    status = "wf"
    for side in (lhs, rhs):
        depth = 0
        for c in side:
            if c == "(":
                depth += 1
                if depth > 1:
                    return "bad"
            elif c == ")":
                depth -= 1
                if depth < 0:
                    return "bad"
            elif depth == 0 and c != ",":
                return "bad"              # characters outside parentheses
        if depth != 0:
            return "bad"                  # unbalanced
        if not side.startswith("(") or not side.endswith(")"):
            return "bad"
        args = side[1:-1].split("),(")
        for a in args:
            if "(" in a or ")" in a:
                return "bad"
            if a == "":
                continue
            for pair in a.split(","):
                if pair == "":
                    status = "gray"       # trailing comma inside an argument: not pinned
                    continue
                if ":" not in pair:
                    return "bad"          # no position at all
                name, _, pos = pair.partition(":")
                if name == "" or not re.fullmatch(r"\w+", name):
                    return "bad"          # empty name
                if pos in POSITIONS:
                    continue
                if any(pos.startswith(p) for p in POSITIONS):
                    status = "gray"       # juxtaposed pairs without comma: not pinned
                else:
                    return "bad"          # unknown / empty position word
    return status


def canon(text):
    return text.replace(" ", "")


def renaming_exists(a, b):
    """oracle for `equivalent`: same shape/positions and an injective renaming a -> b"""
    (ai, ao), (bi, bo) = a, b
    if [[p for _, p in arg] for arg in ai] != [[p for _, p in arg] for arg in bi]:
        return False
    if [[p for _, p in arg] for arg in ao] != [[p for _, p in arg] for arg in bo]:
        return False
    na = [n for arg in ai + ao for n, _ in arg]
    nb = [n for arg in bi + bo for n, _ in arg]
    fwd, bwd = {}, {}
    for x, y in zip(na, nb):
        if fwd.setdefault(x, y) != y or bwd.setdefault(y, x) != x:
            return False
    return True


def enc_text(t):
    return str(len(t)) + "".join(" " + str(ord(c)) for c in t)


def dec_text(toks):
    n = int(toks[0])
    return "".join(chr(int(x)) for x in toks[1:1 + n])


def impl_parse(text):
    from xgcm.grid_ufunc import _GridUFuncSignature
    try:
        return str(_GridUFuncSignature.from_string(text))
    except ValueError:
        return None


def model_parse(drv, text):
    r = drv.ask("sigparse " + enc_text(text)).split(" ")
    return dec_text(r[1:]) if r[0] == "ok" else None


def eval_case(case, drv):
    from xgcm.grid_ufunc import _GridUFuncSignature, as_grid_ufunc
    rng = random.Random(case["salt"])
    sig = case["sig"]
    text = sig_text(sig)
    problems = []
    corr_ok = prop_ok = True
    n_checked = 0

    def check(t):
        nonlocal corr_ok, prop_ok, n_checked
        n_checked += 1
        i, m = impl_parse(t), model_parse(drv, t)
        if i != m:
            corr_ok = False
            problems.append({"text": t, "impl": i, "model": m})
        cl = classify(t)
        if cl == "wf" and (i is None or i != canon(t) or impl_parse(i) != i):
            prop_ok = False
            problems.append({"text": t, "class": cl, "impl": i})
        if cl == "bad" and i is not None:
            prop_ok = False
            problems.append({"text": t, "class": cl, "impl": i})

    # round trip, also with spaces sprinkled in
    check(text)
    spaced = "".join(c + (" " if rng.random() < 0.3 else "") for c in text)
    check(spaced)
    # every single-character corruption
    for k in range(len(text)):
        check(text[:k] + text[k + 1:])
        for c in ALPHABET:
            if c != text[k]:
                check(text[:k] + c + text[k + 1:])
    for k in range(len(text) + 1):
        for c in ALPHABET:
            check(text[:k] + c + text[k:])
    # type hints denote the same signature
    ins, outs = sig
    if True:   # an argument without pairs, `()`, is spelled with the empty annotation ""
        params = ", ".join(f"a{j}: Annotated[np.ndarray, {','.join(n + ':' + p for n, p in a)!r}]"
                           for j, a in enumerate(ins))
        rets = [f"Annotated[np.ndarray, {','.join(n + ':' + p for n, p in a)!r}]" for a in outs]
        if len(rets) == len(outs):
            ret = rets[0] if len(rets) == 1 else "Tuple[" + ", ".join(rets) + "]"
            src = f"def f({params}) -> {ret}:\n    return None\n"
            ns = {"Annotated": Annotated, "np": np, "Tuple": Tuple}
            exec(src, ns)
            try:
                got = str(as_grid_ufunc()(ns["f"]).signature)
            except ValueError:
                got = None
            req = (str(len(ins)) + "".join(" " + enc_text(",".join(n + ":" + p for n, p in a)) for a in ins)
                   + " T " + str(len(outs))
                   + "".join(" " + enc_text(",".join(n + ":" + p for n, p in a)) for a in outs))
            r = drv.ask("sighints " + req).split(" ")
            mod = dec_text(r[1:]) if r[0] == "ok" else None
            n_checked += 1
            if got != mod:
                corr_ok = False
                problems.append({"hints": src, "impl": got, "model": mod})
            if got != text:
                prop_ok = False
                problems.append({"hints": src, "impl": got, "expected": text})
    # equivalence under renamings
    names = sorted({n for a in ins + outs for n, _ in a})
    pool = [n for n in NAME_POOL if n not in names] + names
    variants = []
    for _ in range(6):
        kind = rng.choice(["inj", "inj", "noninj", "pos", "perm", "arrow"])
        if kind == "inj":
            tgt = rng.sample(pool, len(names))
        elif kind == "perm":
            tgt = names[:]
            rng.shuffle(tgt)
        elif kind == "noninj":
            tgt = [rng.choice(pool[:3]) for _ in names]
        else:
            tgt = names[:]
        rho = dict(zip(names, tgt))
        v = [[[rho[n], p] for n, p in a] for a in ins], [[[rho[n], p] for n, p in a] for a in outs]
        if kind == "pos":
            flat = [pr for a in v[0] + v[1] for pr in a]
            if flat:
                rng.choice(flat)[1] = rng.choice(POSITIONS)
        if kind == "arrow":
            # the same arguments in the same order, the arrow one place further left or right
            vi, vo = v
            if len(vi) >= 2 and (len(vo) < 2 or rng.random() < 0.5):
                v = (vi[:-1], [vi[-1]] + vo)
            elif len(vo) >= 2:
                v = (vi + [vo[0]], vo[1:])
        variants.append(v)
    for v in variants:
        a, b = _GridUFuncSignature.from_string(text), _GridUFuncSignature.from_string(sig_text(v))
        got = bool(a.equivalent(b))
        got_sym = bool(b.equivalent(a))
        mod = drv.ask("sigequiv " + enc_text(text) + " " + enc_text(sig_text(v)))
        want = renaming_exists(sig, v)
        n_checked += 1
        if mod != ("T" if got else "F"):
            corr_ok = False
            problems.append({"equiv": [text, sig_text(v)], "impl": got, "model": mod})
        if got != want or got_sym != want:
            prop_ok = False
            problems.append({"equiv": [text, sig_text(v)], "impl": [got, got_sym], "renaming_exists": want})
    return {"corr_ok": corr_ok, "prop_ok": prop_ok,
            "branch": f"in{len(ins)}out{len(outs)}", "detail": problems[:6] or None, "n": n_checked}


def nontrivial(case, verdict):
    return True

"""C18 — operations never modify their arguments; results are history-independent.

Runtime monitor (object mutation is a Python run-time fact, no Lean model exhibits it; the Lean side is
the emptiness of the statically extracted write-site list, theorem C18.no_argument_writes).

A case = a scenario (simple grid / face-connected grid / grid with metrics / transform grid) and a sequence
of up to 3 operations drawn from the public methods, all re-using the SAME argument objects (arrays and
dictionaries: vector components, other_component, boundary, fill_value, to, metric_weighted) and the same
Grid.  Before and after every call — whether it returns or raises — a deep snapshot of every argument
object, of the dataset and of the Grid's settings is taken and compared; and every result is compared with
the result of the same call issued FIRST on freshly built objects.
"""
from __future__ import annotations

import copy
import warnings

import numpy as np
import xarray as xr

import facegrid as fg
from common import dyadic_array, exc_kind

RULE = ("scenarios simple / faces / faces3 (three axes, sparse link table) / comodo (autoparsed dataset) / metrics / transform; sequences of 1-3 operations from "
        "diff, interp, min, max, cumsum (scalar, multi-axis, dict kwargs), vector diff/interp with "
        "other_component, pad, derivative, integrate, average, cumint, get_metric, interp_like, transform "
        "(anonymous target_data, conservative), constructor with dict arguments; non-trivial = the sequence "
        "has >= 2 calls or a dict argument; distinct by case")
TIE = "translator (static write-site extraction) + runtime snapshot monitor"


def tattrs(attrs):
    """attributes with their types: 0.5, np.float32(0.5) and "0.5" are three different things"""
    return {str(k): (type(v).__name__, repr(v)) for k, v in attrs.items()}


def snap(obj):
    if isinstance(obj, xr.DataArray):
        return ("da", obj.name, tuple(obj.dims), np.array(obj.values, copy=True).tolist(),
                {str(k): (tuple(v.dims), np.array(v.values, copy=True).tolist(), tattrs(v.attrs)) for k, v in obj.coords.items()},
                tattrs(obj.attrs))
    if isinstance(obj, xr.Dataset):
        return ("ds", {str(k): snap(v) for k, v in obj.variables.items() if isinstance(v, xr.DataArray) or True and False}
                or sorted(map(str, obj.variables)), tattrs(obj.attrs),
                {str(k): (tuple(obj[k].dims), np.array(obj[k].values, copy=True).tolist(), tattrs(obj[k].attrs)) for k in obj.variables})
    if isinstance(obj, dict):
        return ("dict", [(repr(k), snap(v)) for k, v in obj.items()])
    if isinstance(obj, (list, tuple)):
        return (type(obj).__name__, [snap(v) for v in obj])
    if isinstance(obj, np.ndarray):
        return ("nd", obj.tolist())
    return ("val", repr(obj))


def grid_state(grid):
    return {"axes": [(n, dict(a.coords), a.boundary, repr(a.fill_value), dict(a.default_shifts)) for n, a in grid.axes.items()],
            "metrics": [(tuple(sorted(k)), [(v.name, tuple(v.dims), np.asarray(v.values).tolist()) for v in vs])
                        for k, vs in grid._metrics.items()],
            "fc": repr(grid._face_connections)}


OPS = {
    "simple": ["diff", "interp", "min", "max", "cumsum", "diff2", "pad", "vecdiff", "ctor", "interp_dicts",
               "min_unpadded", "max_unpadded", "diff_unpadded", "min_to_inner", "interp_to_none", "diff_to_none",
               "diff_2d_vector", "interp_2d_vector", "interp_default"],
    "faces": ["fdiff", "finterp", "fvecdiff", "fvecinterp", "fpad", "fvecpad", "ctor_faces", "diff_2d_vector",
              "interp_2d_vector"],
    "faces3": ["fdiff", "finterp", "fdiffz", "fcumsumz", "fpad", "fpadz", "fdiff2d"],
    "comodo": ["ctor_autoparse", "ctor_autoparse", "cdiff"],
    "metrics": ["derivative", "integrate", "average", "cumint", "get_metric", "interp_like", "mw_diff",
                "get_metric_v", "integrate_v", "average_u"],
    "transform": ["t_linear_anon", "t_linear", "t_conservative", "t_log"],
}


def gen_case(rng, tier, i):
    scen = rng.choice(list(OPS))
    k = rng.randint(1, 3)
    return {"scenario": scen, "ops": [rng.choice(OPS[scen]) for _ in range(k)], "seed": rng.randrange(1 << 30)}


def first_grid(w, ds):
    """the construction of the world's own Grid is a monitored call too: its arguments are snapshotted
    before and after"""
    import xgcm
    before = (snap(w["ctor_kwargs"]), snap(ds))
    grid = xgcm.Grid(ds, **w["ctor_kwargs"])
    after = (snap(w["ctor_kwargs"]), snap(ds))
    w["ctor_mutated"] = [n for n, b, a in zip(("ctor_kwargs", "ds"), before, after) if a != b]
    return grid


def build(case):
    """fresh world: grid, dataset and the pool of argument objects"""
    import random

    import xgcm
    rr = random.Random(case["seed"])
    scen = case["scenario"]
    w = {}
    if scen in ("simple", "metrics"):
        n, m = 4, 3
        ds = xr.Dataset(coords={"xc": ("xc", np.arange(n) + 0.5), "xg": ("xg", np.arange(n) * 1.0),
                                "yc": ("yc", np.arange(m) + 0.5), "yg": ("yg", np.arange(m) * 1.0),
                                "yo": ("yo", np.arange(m + 1) * 1.0), "yi": ("yi", np.arange(m - 1) + 1.0)})
        ds["dx_c"] = ("xc", np.array([1.0, 2.0, 1.0, 0.5]))
        ds["dx_g"] = ("xg", np.array([2.0, 1.0, 4.0, 1.0]))
        ds["dy_c"] = ("yc", np.array([1.0, 2.0, 4.0]))
        w["boundary"] = {"X": "extend", "Y": "fill"}
        w["fill"] = {"X": 1.0, "Y": 2.0}
        w["coords"] = {"X": {"center": "xc", "left": "xg"},
                       "Y": {"center": "yc", "left": "yg", "outer": "yo", "inner": "yi"}}
        w["metrics"] = {("X",): ["dx_c", "dx_g"], ("Y",): ["dy_c"]} if scen == "metrics" else None
        w["ctor_kwargs"] = dict(coords=w["coords"], boundary=w["boundary"], fill_value=w["fill"],
                                metrics=w["metrics"], autoparse_metadata=False)
        # the user's preferred shifts, given for some positions only (the rest fall back to the defaults);
        # sometimes one mapping shared by two axes
        shifts = rr.choice([None, {"Y": {"center": "outer"}}, {"X": {"center": "left"}, "Y": {"left": "center", "center": "inner"}},
                            "shared"])
        if shifts == "shared":
            one = {"center": "left"}
            shifts = {"X": one, "Y": one}
        if shifts is not None:
            w["shifts"] = shifts
            w["ctor_kwargs"]["default_shifts"] = shifts
        grid = first_grid(w, ds)
        w["c"] = xr.DataArray(dyadic_array(rr, [n, m]), dims=["xc", "yc"], name="c", attrs={"units": "K"},
                              coords={"xc": ds.xc, "yc": ds.yc})
        w["u"] = xr.DataArray(dyadic_array(rr, [n, m]), dims=["xg", "yc"], name="u")
        w["v"] = xr.DataArray(dyadic_array(rr, [n, m]), dims=["xc", "yg"], name="v")
        w["co"] = xr.DataArray(dyadic_array(rr, [n, m + 1]), dims=["xc", "yo"], name="co")
        w["vecX"] = {"X": w["u"]}
        w["otherY"] = {"Y": w["v"]}
        w["vec2"] = {"X": w["u"], "Y": w["v"]}
        w["to"] = {"X": "left", "Y": "left"}
        w["to_none"] = {"X": "left", "Y": None}        # "no target chosen for Y": the default shift applies
        w["call_boundary"] = {"X": "fill"}
        w["call_fill"] = {"X": 3.0}
        w["mw"] = {"X": ("X",)}
        w["bw"] = {"X": (1, 1), "Y": (0, 1)}
    elif scen == "faces":
        nf, N = 3, 3
        tbl = {0: {"X": [None, [1, "X", False]], "Y": [None, [2, "X", False]]},
               1: {"X": [[0, "X", False], None], "Y": [None, None]},
               2: {"X": [[0, "Y", False], None], "Y": [None, None]}}
        ds = fg.dataset(nf, N, [])
        w["boundary"] = {"X": "fill", "Y": "extend"}
        w["fill"] = {"X": 0.0, "Y": 0.0}
        w["fc"] = fg.fc_arg(tbl)
        w["coords"] = copy.deepcopy(fg.GRID_COORDS)
        w["ctor_kwargs"] = dict(coords=w["coords"], face_connections=w["fc"], boundary=w["boundary"],
                                fill_value=w["fill"], autoparse_metadata=False)
        grid = first_grid(w, ds)
        w["c"] = xr.DataArray(dyadic_array(rr, [nf, N, N]), dims=["face", "xc", "yc"], name="c")
        w["u"] = xr.DataArray(dyadic_array(rr, [nf, N, N]), dims=["face", "xg", "yc"], name="u")
        w["v"] = xr.DataArray(dyadic_array(rr, [nf, N, N]), dims=["face", "xc", "yg"], name="v")
        w["vecX"] = {"X": w["u"]}
        w["otherY"] = {"Y": w["v"]}
        w["vec2"] = {"X": w["u"], "Y": w["v"]}
        w["bw"] = {"X": (1, 1), "Y": (1, 0)}
    elif scen == "comodo":
        # a dataset annotated for autoparsing; the shift attributes come as the types real files carry
        # (strings from old writers, numpy scalars from netCDF readers)
        n = 4
        shift = rr.choice(["-0.5", np.float32(-0.5), np.float64(-0.5), -0.5])
        ds = xr.Dataset(coords={
            "xc": xr.DataArray(np.arange(n) + 0.5, dims=["xc"], attrs={"axis": "X"}),
            "xg": xr.DataArray(np.arange(n) * 1.0, dims=["xg"], attrs={"axis": "X", "c_grid_axis_shift": shift}),
            "yc": xr.DataArray(np.arange(3) + 0.5, dims=["yc"], attrs={"axis": "Y"}),
            "yg": xr.DataArray(np.arange(3) * 1.0, dims=["yg"], attrs={"axis": "Y", "c_grid_axis_shift": rr.choice([0.5, "0.5", np.float32(0.5)])})})
        w["ctor_kwargs"] = dict(periodic=False)
        grid = first_grid(w, ds.copy(deep=True))
        w["c"] = xr.DataArray(dyadic_array(rr, [n, 3]), dims=["xc", "yc"], name="c")
    elif scen == "faces3":
        # three axes; the table names an axis only for the faces that have a link along it (an omitted
        # entry means "no links"), and never names Z
        nf, N = 3, 3
        ds = fg.dataset(nf, N, [])
        ds = ds.assign_coords(zc=("zc", np.arange(2) + 0.5), zg=("zg", np.arange(2) * 1.0))
        w["boundary"] = {"X": "fill", "Y": "extend", "Z": "fill"}
        w["fill"] = {"X": 0.0, "Y": 0.0, "Z": 1.0}
        w["fc"] = {"face": {0: {"X": (None, (1, "X", False))},
                            1: {"X": ((0, "X", False), None), "Y": (None, (2, "Y", False))},
                            2: {"Y": ((1, "Y", False), None)}}}
        w["coords"] = dict(copy.deepcopy(fg.GRID_COORDS), Z={"center": "zc", "left": "zg"})
        w["ctor_kwargs"] = dict(coords=w["coords"], face_connections=w["fc"], boundary=w["boundary"],
                                fill_value=w["fill"], autoparse_metadata=False)
        grid = first_grid(w, ds)
        w["c"] = xr.DataArray(dyadic_array(rr, [nf, N, N]), dims=["face", "xc", "yc"], name="c")
        w["c3"] = xr.DataArray(dyadic_array(rr, [nf, 2, N, N]), dims=["face", "zc", "xc", "yc"], name="c3")
        w["bw"] = {"X": (1, 1), "Y": (1, 0)}
        w["bwz"] = {"Z": (1, 0), "X": (0, 1)}
    else:
        n = 4
        ds = xr.Dataset(coords={"zc": ("zc", np.arange(n) + 0.5), "zo": ("zo", np.arange(n + 1) * 1.0)})
        w["coords"] = {"Z": {"center": "zc", "outer": "zo"}}
        w["ctor_kwargs"] = dict(coords=w["coords"], boundary="fill", autoparse_metadata=False)
        grid = first_grid(w, ds)
        w["c"] = xr.DataArray(dyadic_array(rr, [n]), dims=["zc"], name="c")
        w["theta_anon"] = xr.DataArray(np.array([1.0, 2.0, 4.0, 8.0]), dims=["zc"])          # no name
        w["theta"] = xr.DataArray(np.array([1.0, 2.0, 4.0, 8.0]), dims=["zc"], name="theta")
        w["theta_o"] = xr.DataArray(np.array([0.0, 1.0, 2.0, 4.0, 8.0]), dims=["zo"], name="theta")
        w["levels"] = np.array([1.5, 3.0, 6.0])
        w["bins"] = np.array([0.0, 2.0, 8.0])
    w["ds"] = ds
    w["grid"] = grid
    return w


def do(op, w):
    g = w["grid"]
    if op == "diff":
        return g.diff(w["c"], "X")
    if op == "interp":
        return g.interp(w["c"], ["X", "Y"], to=w["to"])
    if op == "min":
        return g.min(w["c"], "Y", boundary=w["call_boundary"], fill_value=w["call_fill"])
    if op == "max":
        return g.max(w["c"], "X", boundary=w["call_boundary"])
    if op == "cumsum":
        return g.cumsum(w["c"], ["X", "Y"], to=w["to"], boundary=w["call_boundary"], fill_value=w["call_fill"])
    if op == "diff2":
        return g.diff(w["c"], ["Y", "X"], to=w["to"], fill_value=w["call_fill"])
    if op == "interp_to_none":
        return g.interp(w["c"], ["X", "Y"], to=w["to_none"])
    if op == "diff_to_none":
        return g.diff(w["c"], ["Y", "X"], to=w["to_none"])
    if op == "min_unpadded":           # shifts that need no padding hand the caller's own buffer to the kernel
        return g.min(w["co"], "Y", to="center")
    if op == "max_unpadded":
        return g.max(w["co"], "Y", to="center")
    if op == "diff_unpadded":
        return g.diff(w["co"], "Y", to="center")
    if op == "min_to_inner":
        return g.min(w["c"], "Y", to="inner")
    if op == "get_metric_v":           # the Y metric exists at the centre only: v sits on yg
        return g.get_metric(w["v"], ("Y",))
    if op == "integrate_v":
        return g.integrate(w["v"], "Y")
    if op == "average_u":
        return g.average(w["u"], ["X", "Y"])
    if op == "pad":
        from xgcm.padding import pad
        return pad(w["c"], g, boundary_width=w["bw"], boundary=w["call_boundary"], fill_value=w["call_fill"])
    if op == "vecdiff":
        return g.diff(w["vecX"], "X", other_component=w["otherY"])
    if op == "diff_2d_vector":
        return g.diff_2d_vector(w["vec2"], to="center")
    if op == "interp_2d_vector":
        return g.interp_2d_vector(w["vec2"], to="center", boundary=w.get("call_boundary"))
    if op == "interp_default":         # no target named: the grid's default shifts decide
        return g.interp(w["c"], ["X", "Y"])
    if op == "interp_dicts":
        return g.interp(w["c"], "X", to=w["to"], boundary=w["call_boundary"], fill_value=w["call_fill"])
    if op in ("ctor", "ctor_faces"):
        import xgcm
        g2 = xgcm.Grid(w["ds"], **w["ctor_kwargs"])
        return xr.DataArray(np.array([len(g2.axes)], dtype=float), dims=["n"])
    if op == "fdiff":
        return g.diff(w["c"], "X", to="left")
    if op == "finterp":
        return g.interp(w["c"], "Y", to="left")
    if op == "ctor_autoparse":
        import xgcm
        g2 = xgcm.Grid(w["ds"], **w["ctor_kwargs"])
        return xr.DataArray(np.array([len(g2.axes)], dtype=float), dims=["n"])
    if op == "cdiff":
        return g.diff(w["c"], "X")
    if op == "fdiffz":
        return g.diff(w["c3"], "Z", to="left", boundary="fill")
    if op == "fcumsumz":
        return g.cumsum(w["c3"], "Z", to="left", boundary="fill")
    if op == "fpadz":
        from xgcm.padding import pad
        return pad(w["c3"], g, boundary_width=w["bwz"])
    if op == "fdiff2d":
        return g.diff(w["c3"], ["X", "Z"], to="left")
    if op == "fvecdiff":
        return g.diff(w["vecX"], "X", other_component=w["otherY"])
    if op == "fvecinterp":
        return g.interp(w["vecX"], "X", other_component=w["otherY"])
    if op == "fpad":
        from xgcm.padding import pad
        return pad(w["c"], g, boundary_width=w["bw"])
    if op == "fvecpad":
        from xgcm.padding import pad
        return pad(w["vecX"], g, boundary_width=w["bw"], other_component=w["otherY"])
    if op == "derivative":
        return g.derivative(w["c"], "X")
    if op == "integrate":
        return g.integrate(w["c"], ["X", "Y"])
    if op == "average":
        return g.average(w["c"], "X")
    if op == "cumint":
        return g.cumint(w["c"], "X", to=w["to"], boundary=w["call_boundary"])
    if op == "get_metric":
        return g.get_metric(w["u"], ("X",))
    if op == "interp_like":
        return g.interp_like(w["u"], w["c"], "extend", None)
    if op == "mw_diff":
        return g.diff(w["c"], "X", metric_weighted=w["mw"])
    if op == "t_linear_anon":
        return g.transform(w["c"], "Z", w["levels"], target_data=w["theta_anon"])
    if op == "t_linear":
        return g.transform(w["c"], "Z", w["levels"], target_data=w["theta"], mask_edges=False)
    if op == "t_log":
        return g.transform(w["c"], "Z", w["levels"], target_data=w["theta"], method="log")
    if op == "t_conservative":
        return g.transform(w["c"], "Z", w["bins"], target_data=w["theta_o"], method="conservative")
    raise KeyError(op)


def world_snapshot(w):
    out = {k: snap(v) for k, v in w.items() if k != "grid"}
    out["grid"] = grid_state(w["grid"])
    return out


def result_of(r):
    if isinstance(r, dict):
        return {k: result_of(v) for k, v in r.items()}
    if isinstance(r, xr.DataArray):
        return (r.name, tuple(r.dims), np.asarray(r.values).tolist(), sorted(map(str, r.coords)))
    return repr(r)


def eval_case(case, drv):
    detail = {}
    ok = True
    with warnings.catch_warnings():
        warnings.simplefilter("ignore")
        w = build(case)
        if w["ctor_mutated"]:
            return {"corr_ok": True, "prop_ok": False, "branch": case["scenario"] + ":constructor",
                    "detail": {"mutated": {"step": -1, "op": "Grid(...)", "objects": w["ctor_mutated"]}}}
        for step, op in enumerate(case["ops"]):
            before = world_snapshot(w)
            try:
                got = ("ok", result_of(do(op, w)))
            except Exception as e:  # noqa: BLE001
                got = ("err", exc_kind(e) + ": " + str(e)[:100])
            after = world_snapshot(w)
            changed = [k for k in before if before[k] != after[k]]
            if changed:
                ok = False
                detail["mutated"] = {"step": step, "op": op, "objects": changed}
                break
            fresh = build(case)
            try:
                want = ("ok", result_of(do(op, fresh)))
            except Exception as e:  # noqa: BLE001
                want = ("err", exc_kind(e) + ": " + str(e)[:100])
            if got != want:
                ok = False
                detail["history"] = {"step": step, "op": op, "after_history": str(got)[:300], "first": str(want)[:300]}
                break
    return {"corr_ok": True, "prop_ok": ok, "branch": case["scenario"] + ":" + "+".join(case["ops"]), "detail": detail or None}


def nontrivial(case, verdict):
    return len(case["ops"]) >= 2 or any(o in ("vecdiff", "fvecdiff", "fvecinterp", "fvecpad", "cumsum", "interp", "min", "pad",
                                             "ctor", "ctor_faces", "mw_diff", "cumint", "diff_2d_vector", "interp_2d_vector") for o in case["ops"])

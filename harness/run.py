#!/venv/bin/python
"""harness entry: run.py <ID> --tier --seed --seconds --max-cases --out f [--replay f]"""
import argparse
import importlib
import json
import os
import sys

sys.path.insert(0, os.path.dirname(os.path.abspath(__file__)))
from common import digest  # noqa: E402
from runner import run_property, shrink  # noqa: E402
from common import Driver  # noqa: E402


def limit_memory():
    """an input on which the implementation's memory use explodes (a string iterated letter by letter into
    factorially many permutations, ...) must surface as a MemoryError INSIDE the call - which the harnesses record as
    an outcome like any other exception - instead of the whole harness being killed by the kernel (which the check
    could only report as an infrastructure failure)"""
    try:
        import resource
        gb = float(os.environ.get("XGCM_VERIF_MEM_GB", "10"))
        lim = int(gb * (1 << 30))
        soft, hard = resource.getrlimit(resource.RLIMIT_AS)
        if hard != resource.RLIM_INFINITY:
            lim = min(lim, hard)
        resource.setrlimit(resource.RLIMIT_AS, (lim, hard))
    except Exception:  # noqa: BLE001  -- no such limit on this platform: run without
        pass


def main():
    limit_memory()
    ap = argparse.ArgumentParser()
    ap.add_argument("pid")
    ap.add_argument("--tier", default="quick")
    ap.add_argument("--seed", type=int, default=0)
    ap.add_argument("--seconds", type=float, default=45)
    ap.add_argument("--max-cases", type=int, default=500)
    ap.add_argument("--out", required=True)
    ap.add_argument("--replay")
    a = ap.parse_args()
    mod = importlib.import_module(a.pid.lower())
    out = run_property(mod, a.pid, a.seed, a.tier, a.seconds, a.max_cases, replay=a.replay)
    viols = out.violations
    if viols and not getattr(out, "infra_error", False):
        viols = [shrink(mod, Driver, viols[0])] + viols[1:]
    for v in viols:
        v["digest"] = digest(v["case"])
    res = {
        "evaluations": out.evaluations,
        "distinct_nontrivial": len(out.nontrivial),
        "rule": mod.RULE,
        "samples": out.samples,
        "hist": dict(out.hist.most_common(60)),
        "corr_mismatch": out.corr_mismatch[:20],
        "violations": viols[:10],
        "known_hits": out.known_hits,
        "notes": out.notes,
        "exhaustive": out.exhaustive,
        "infra_error": bool(getattr(out, "infra_error", False)),
        "assumptions": getattr(mod, "ASSUMPTIONS", []),
        "tie": getattr(mod, "TIE", "translator + correspondence"),
    }
    with open(a.out, "w") as f:
        json.dump(res, f, default=str)


if __name__ == "__main__":
    main()

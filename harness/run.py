#!/venv/bin/python
"""harness entry: run.py <ID> --tier --seed --seconds --max-cases --out f [--replay f]"""
import argparse
import importlib
import json
import os
import sys

sys.path.insert(0, os.path.dirname(os.path.abspath(__file__)))
from common import digest  # noqa: E402
from runner import run_property, shrink  # noqa: E402
from common import Driver  # noqa: E402


def main():
    ap = argparse.ArgumentParser()
    ap.add_argument("pid")
    ap.add_argument("--tier", default="quick")
    ap.add_argument("--seed", type=int, default=0)
    ap.add_argument("--seconds", type=float, default=45)
    ap.add_argument("--max-cases", type=int, default=500)
    ap.add_argument("--out", required=True)
    ap.add_argument("--replay")
    a = ap.parse_args()
    mod = importlib.import_module(a.pid.lower())
    out = run_property(mod, a.pid, a.seed, a.tier, a.seconds, a.max_cases, replay=a.replay)
    viols = out.violations
    if viols and not getattr(out, "infra_error", False):
        viols = [shrink(mod, Driver, viols[0])] + viols[1:]
    for v in viols:
        v["digest"] = digest(v["case"])
    res = {
        "evaluations": out.evaluations,
        "distinct_nontrivial": len(out.nontrivial),
        "rule": mod.RULE,
        "samples": out.samples,
        "hist": dict(out.hist.most_common(60)),
        "corr_mismatch": out.corr_mismatch[:20],
        "violations": viols[:10],
        "known_hits": out.known_hits,
        "notes": out.notes,
        "exhaustive": out.exhaustive,
        "infra_error": bool(getattr(out, "infra_error", False)),
        "assumptions": getattr(mod, "ASSUMPTIONS", []),
        "tie": getattr(mod, "TIE", "translator + correspondence"),
    }
    with open(a.out, "w") as f:
        json.dump(res, f, default=str)


if __name__ == "__main__":
    main()

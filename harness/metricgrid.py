"""Shared helpers for the metric properties (C10, C16)."""
from __future__ import annotations

import numpy as np
import xarray as xr

from common import POSITIONS, pos_len

PRIMES = [3, 5, 7, 11, 13, 17, 19, 23, 29, 31, 37, 41, 43, 47, 53, 59, 61, 67, 71, 73]


def random_axes(rng, n_axes, names=("X", "Y", "Z")):
    axes = []
    for i in range(n_axes):
        others = [p for p in ("left", "right") if rng.random() < 0.6] or ["left"]
        poss = ["center"] + others
        axes.append({"name": names[i], "n": rng.randint(2, 4),
                     "coords": {p: f"{names[i].lower()}{p[0]}" for p in poss}})
    return axes


def build_dataset(axes, mvars):
    """mvars: list of dict(name, dims, prime) -> Dataset with one variable each:
    prime * 2**(index-dependent exponent): non-uniform, positive, exactly representable,
    and the prime identifies the variable in any product / interpolation"""
    coords = {}
    size = {}
    for ax in axes:
        for p, d in ax["coords"].items():
            L = pos_len(ax["n"], p)
            coords[d] = (d, np.arange(L, dtype=float))
            size[d] = L
    data = {}
    for k, mv in enumerate(mvars):
        shape = [size[d] for d in mv["dims"]]
        idx = np.indices(shape).sum(axis=0) if shape else np.zeros(())
        vals = mv["prime"] * np.power(2.0, ((idx + k) % 3) - 1)
        data[mv["name"]] = (mv["dims"], vals)
    return xr.Dataset(data, coords=coords), size


def enc_mvars(mvars):
    return str(len(mvars)) + "".join(f" {m['name']} {len(m['dims'])} {' '.join(m['dims'])}" if m["dims"]
                                     else f" {m['name']} 0" for m in mvars)


def enc_calls(calls):
    out = str(len(calls))
    for c in calls:
        out += f" {len(c['key'])} {' '.join(c['key'])} {len(c['names'])} {' '.join(c['names'])} {'T' if c['ow'] else 'F'}"
    return out


def registry_of(grid):
    """names per key, keys as sorted tuples, in dict insertion order"""
    return [(tuple(sorted(k)), [v.name for v in vs]) for k, vs in grid._metrics.items()]


def parse_registry(txt):
    if txt == "":
        return []
    out = []
    for part in txt.split(";"):
        k, _, vs = part.partition(":")
        out.append((tuple(sorted(k.split(","))), [v for v in vs.split(",") if v]))
    return out

"""C12 — results do not depend on the hash seed or on table ordering.

Runtime monitor (string-hash seeds are a run-time phenomenon; the Lean side proves order-independence
of the seedless model, see Properties/C12).  A case = one probe document (face-connected grid with corner
cells, renamed multi-axis signatures, COMODO/SGRID datasets with 2-3 axes, a metric registry offering
alternative products).  The probe script is run in FRESH interpreters under several PYTHONHASHSEED values
(quick 4, thorough 16) and with the same link table / width mapping / dataset listed in shuffled orders;
the canonical JSON outputs must be byte-identical.  The first output is also compared with the seedless
Lean model of the padding (corner cells included).
"""
from __future__ import annotations

import json
import os
import random
import subprocess

import numpy as np

import facegrid as fg
from common import VERIF, dyadic, enc_rat

RULE = ("random reciprocated tables (2-4 faces, N 2-3) with 2-D widths and a rule per axis; 6 signature pairs with "
        "2-3 dummy names; COMODO datasets with 2-3 axes, SGRID 2-D(+vertical)/3-D; metric registries with two "
        "alternative products for 3 axes; seeds {0,1,2,3} (thorough: 16) x 3 orderings; every case is non-trivial; "
        "distinct by case")
TIE = "correspondence (seedless model of the padding) + runtime monitor (fresh interpreters per hash seed)"
ASSUMPTIONS = ["hash-seed independence is monitored at run time on sampled seeds, not proved"]

PROBE = os.path.join(VERIF, "harness", "scripts", "c12_probe.py")


def gen_case(rng, tier, i):
    seeds = [0, 1, 2, 3] if tier == "quick" else [0, 1, 2, 3, 4, 5, 6, 7, 8, 9, 10, 11, 12, 13, 14, 15]
    case = _gen_case(rng, tier, i)
    case["_seeds"] = seeds
    return case


def _gen_case(rng, tier, i):
    nf = rng.randint(2, 4)
    N = rng.randint(2, 3)
    tbl = fg.random_links(rng, nf)
    w = min(2, N)
    case = {"nf": nf, "N": N, "tbl": {str(f): v for f, v in tbl.items()},
            "widths": {"X": [rng.randint(1, w), rng.randint(0, w)], "Y": [rng.randint(0, w), rng.randint(1, w)]},
            "boundary": {"X": rng.choice(["fill", "extend", "periodic"]), "Y": rng.choice(["fill", "extend", "periodic"])},
            "fill": {"X": dyadic(rng), "Y": dyadic(rng)},
            "data": [dyadic(rng, -16, 16, 1) for _ in range(nf * N * N)]}
    names = ["a", "b", "c", "X", "Y", "t", "lon", "eta"]
    pairs = []
    for _ in range(6):
        n1 = rng.sample(names, 3)
        n2 = rng.sample(names, 3)
        pos = [rng.choice(["center", "left", "right"]) for _ in range(4)]
        k = rng.choice([2, 3])
        s1 = f"({n1[0]}:{pos[0]},{n1[1]}:{pos[1]}),({n1[k-1]}:{pos[2]})->({n1[1]}:{pos[3]})"
        m = dict(zip(n1, n2))
        if rng.random() < 0.3:
            m[n1[1]] = m[n1[0]]      # non-injective renaming
        s2 = f"({m[n1[0]]}:{pos[0]},{m[n1[1]]}:{pos[1]}),({m[n1[k-1]]}:{pos[2]})->({m[n1[1]]}:{pos[3]})"
        pairs.append([s1, s2])
    case["sig_pairs"] = pairs
    # COMODO: 2-3 axes with arbitrary names
    axn = rng.sample(["X", "Y", "Z", "T", "lon", "eta", "sigma", "q"], rng.randint(2, 3))
    cdims, centers = [], []
    for k, a in enumerate(axn):
        n = rng.randint(2, 3)
        cdims.append([f"c{k}", n, {"axis": a}])
        centers.append([f"c{k}", n, a])
        cdims.append([f"g{k}", n, {"axis": a, "c_grid_axis_shift": -0.5}])
    rng.shuffle(cdims)
    case["comodo_dims"], case["comodo_centers"] = cdims, centers
    topo = rng.choice(["2d", "2dv", "3d"])
    sd = [["xc", 3], ["xn", 4], ["yc", 2], ["yn", 3], ["zc", 2], ["zn", 3]]
    attrs = {"cf_role": "grid_topology", "topology_dimension": 3 if topo == "3d" else 2,
             "node_dimensions": "xn yn" + (" zn" if topo == "3d" else "")}
    spec = "xc: xn (padding: none) yc: yn (padding: none)"
    if topo == "3d":
        attrs["volume_dimensions"] = spec + " zc: zn (padding: none)"
    else:
        attrs["face_dimensions"] = spec
        if topo == "2dv":
            attrs["vertical_dimensions"] = "zc: zn (padding: none)"
    case["sgrid_attrs"], case["sgrid_dims"] = attrs, sd
    # metrics: two alternative products for (X, Y, Z)
    case["metric_dims"] = [["xc", 2], ["yc", 2], ["zc", 2]]
    case["metric_coords"] = {"X": {"center": "xc"}, "Y": {"center": "yc"}, "Z": {"center": "zc"}}
    mv = [["a_xy", ["xc", "yc"], 3], ["d_z", ["zc"], 5], ["a_xz", ["xc", "zc"], 7], ["d_y", ["yc"], 11],
          ["a_yz", ["yc", "zc"], 13], ["d_x", ["xc"], 17]]
    case["metric_vars"] = mv
    reg = [[["X", "Y"], ["a_xy"]], [["Z"], ["d_z"]], [["X", "Z"], ["a_xz"]], [["Y"], ["d_y"]],
           [["Y", "Z"], ["a_yz"]], [["X"], ["d_x"]]]
    rng.shuffle(reg)
    case["metric_registry"] = reg[: rng.randint(4, 6)]
    if rng.random() < 0.35:
        # only single-axis metrics: the product has three factors (their order shows in the result's dimensions)
        case["metric_registry"] = [r for r in reg if len(r[0]) == 1]
    case["metric_array_dims"] = ["xc", "yc", "zc"]
    qs = [["X", "Y", "Z"], ["Z", "Y", "X"], ["Y", "Z", "X"]]
    case["metric_queries"] = qs
    case["shuffle_seed"] = rng.randrange(1 << 30)
    return case


def orderings(case, k):
    rr = random.Random(case["shuffle_seed"] + k)
    c = dict(case)
    faces = list(range(case["nf"]))
    ax_order = {str(f): list(case["tbl"][str(f)].keys()) for f in faces}
    worder = list(case["widths"])
    gorder = ["X", "Y"]
    if k > 0:
        rr.shuffle(faces)
        for f in ax_order:
            rr.shuffle(ax_order[f])
        rr.shuffle(worder)
        c["comodo_dims"] = case["comodo_dims"][:]          # the dataset itself is an argument: keep its order
        reg = case["metric_registry"][:]
        c["metric_registry"] = reg                          # registration order is part of the history (C16)
    c["face_order"], c["axis_order"], c["width_order"], c["grid_axis_order"] = faces, ax_order, worder, gorder
    return c


def run_probe(doc, seed):
    env = dict(os.environ)
    env["PYTHONHASHSEED"] = str(seed)
    p = subprocess.run(["/venv/bin/python", PROBE], input=json.dumps(doc), capture_output=True, text=True, env=env, timeout=300)
    if p.returncode != 0:
        return "probe-failed: " + p.stderr[-400:]
    return p.stdout.strip()


def eval_case(case, drv):
    tier_seeds = case.get("_seeds") or [0, 1, 2, 3]
    outs = {}
    jobs = []
    for k in range(3):
        doc = orderings(case, k)
        for s in (tier_seeds if k == 0 else tier_seeds[:2]):
            jobs.append((k, s, doc))
    from concurrent.futures import ThreadPoolExecutor
    with ThreadPoolExecutor(max_workers=8) as ex:
        for (k, s, _), o in zip(jobs, ex.map(lambda j: run_probe(j[2], j[1]), jobs)):
            outs[(k, s)] = o
    ref = outs[(0, tier_seeds[0])]
    detail = {}
    prop_ok = True
    if ref.startswith("probe-failed"):
        return {"corr_ok": True, "prop_ok": False, "branch": "probe-failed", "detail": {"stderr": ref}}
    for key, o in outs.items():
        if o != ref:
            prop_ok = False
            try:
                a, b = json.loads(ref), json.loads(o)
                diff = [k for k in a if a[k] != b.get(k)]
            except Exception:  # noqa: BLE001
                diff = ["unparseable"]
            detail["differs"] = {"ordering": key[0], "seed": key[1], "fields": diff}
            break
    # seedless model of the padding, corners included
    corr_ok = True
    r = json.loads(ref)
    if isinstance(r["pad"], dict):
        tbl = {int(f): v for f, v in case["tbl"].items()}
        data4 = np.array(case["data"], dtype=float).reshape(case["nf"], case["N"], case["N"], 1)
        req = case["widths"]
        # the model's pad-axis order = order of the grid's axes
        line = (f"c05 X Y {fg.enc_table(tbl)} 2 X Y {req['X'][0]} {req['X'][1]} {req['Y'][0]} {req['Y'][1]} "
                f"{case['boundary']['X']} {enc_rat(case['fill']['X'])} {case['boundary']['Y']} {enc_rat(case['fill']['Y'])} "
                f"N {case['nf']} 1 {fg.enc_faces(data4)}")
        model = fg.dec_faces(drv.ask(line), case["nf"], 1)[..., 0]
        got = fg.exact(np.array(r["pad"]["values"], dtype=float))
        if got.shape != model.shape or not bool((got == model).all()):
            corr_ok = False
            detail["model"] = {"shape": [list(got.shape), list(model.shape)]}
    return {"corr_ok": corr_ok, "prop_ok": prop_ok, "branch": f"faces{case['nf']}", "detail": detail or None}


def nontrivial(case, verdict):
    return True

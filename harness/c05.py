"""C05 — halo cells across every kind of face link.

Implementation `xgcm.padding.pad` on a face-connected grid  vs  Lean model
`padFaceConnections` (all cells incl. corners = correspondence)  vs  the independent
oracle `facegrid.spec_padded` written from the property statement (interior + non-corner
halo cells = property).
"""
from __future__ import annotations

import copy

import numpy as np
import xarray as xr

import facegrid as fg
from common import RULES, dyadic, enc_rat, exc_kind, fillv

RULE = ("random reciprocated tables of 2-6 faces (random joins of free sides: all 8 link kinds, "
        "self-links), N in 2..5, widths 0..min(3,N) per side per axis (one or both axes named), every rule "
        "on open edges, scalar (any of 9 position pairs) and vector {axis: comp}+other_component, 0-2 extra "
        "dims incl. size 1, any dim order incl. the face dimension; non-trivial = the padded region crosses "
        "at least one swapped or reversed link; distinct by case")

VEC_DIMS = {"X": ("xg", "yc"), "Y": ("xc", "yg")}


def gen_case(rng, tier, i):
    nf = rng.randint(2, 6 if tier == "thorough" else 4)
    N = rng.randint(2, 5 if tier == "thorough" else 4)
    tbl = fg.random_links(rng, nf)
    extra = [(f"e{k}", rng.choice([1, 2, 2])) for k in range(rng.randint(0, 2))]
    vec = rng.random() < 0.4
    if vec:
        vax = rng.choice(["X", "Y"])
        dims = VEC_DIMS[vax]
    else:
        vax = None
        dims = (rng.choice(["xc", "xg", "xr"]), rng.choice(["yc", "yg", "yr"]))
    order = ["face", dims[0], dims[1]] + [d for d, _ in extra]
    rng.shuffle(order)
    wmax = min(3, N)
    widths = {}
    axes = ["X", "Y"]
    rng.shuffle(axes)
    for a in axes[: rng.choice([1, 2, 2])]:
        widths[a] = [rng.randint(0, wmax), rng.randint(0, wmax)]
    if all(w == [0, 0] for w in widths.values()) and rng.random() < 0.9:
        widths[next(iter(widths))] = [1, 0]
    sizes = {"face": nf, **{d: N for d in ("xc", "xg", "xr", "yc", "yg", "yr")}, **dict(extra)}
    shape = [sizes[d] for d in order]
    rngdata = lambda: [dyadic(rng, -16, 16, 1) for _ in range(int(np.prod(shape)))]  # noqa: E731
    case = {"nf": nf, "N": N, "tbl": {str(f): v for f, v in tbl.items()}, "extra": extra, "vec": vax,
            "dims": list(dims), "order": order, "widths": widths,
            "boundary": {"X": rng.choice(RULES), "Y": rng.choice(RULES)},
            "fill": {"X": fillv(rng), "Y": fillv(rng)},
            "call_boundary": rng.choice([None, None, "fill", "extend", {"X": "extend"}]),
            "data": rngdata(), "partner": rngdata() if vec else None}
    if rng.random() < 0.1:
        # missing values (land) in the data, also right at the face edges: a halo cell whose source cell is missing
        # is missing - the link is not silently replaced by the boundary rule
        case["nan_data"] = True
        for key in ("data", "partner"):
            if case[key]:
                for _ in range(rng.randint(1, 4)):
                    case[key][rng.randrange(len(case[key]))] = None
    elif vec and rng.random() < 0.2:
        # components of different types: an integer-typed component next to a float partner with non-integral values
        # (what crosses an axis-swapping link must arrive unrounded); integral fill values keep numpy's own
        # constant padding of an integer array exact
        case["int_comp"] = True
        case["data"] = [float(rng.randint(-16, 16)) for _ in case["data"]]
        case["fill"] = {"X": float(rng.randint(-3, 3)), "Y": float(rng.randint(-3, 3))}
    return case


def build(case):
    nf, N = case["nf"], case["N"]
    extra = [tuple(e) for e in case["extra"]]
    ds = fg.dataset(nf, N, extra)
    tbl = {int(f): v for f, v in case["tbl"].items()}
    grid = fg.make_grid(ds, tbl, case["boundary"], case["fill"])
    order = case["order"]
    shape = [ds.sizes[d] for d in order]
    da = xr.DataArray(np.array([np.nan if v is None else v for v in case["data"]],
                               dtype=np.int64 if case.get("int_comp") else float).reshape(shape), dims=order, name="q")
    partner = None
    if case["vec"]:
        other = "Y" if case["vec"] == "X" else "X"
        pd = VEC_DIMS[other]
        porder = [{case["dims"][0]: pd[0], case["dims"][1]: pd[1]}.get(d, d) for d in order]
        partner = xr.DataArray(np.array([np.nan if v is None else v for v in case["partner"]], dtype=float).reshape(shape),
                               dims=porder, name="p")
    return ds, tbl, grid, da, partner


def resolved_rules(case):
    rules = dict(case["boundary"])
    cb = case.get("call_boundary")
    if isinstance(cb, str):
        rules = {"X": cb, "Y": cb}
    elif isinstance(cb, dict):
        rules.update(cb)
    return rules


def run_impl(case):
    from xgcm.padding import pad
    ds, tbl, grid, da, partner = build(case)
    bw = {a: tuple(w) for a, w in case["widths"].items()}
    if case["vec"]:
        other = "Y" if case["vec"] == "X" else "X"
        arg, oc = {case["vec"]: da}, {other: partner}
    else:
        arg, oc = da, None
    res = pad(arg, grid, boundary_width=bw, boundary=copy.deepcopy(case.get("call_boundary")),
              fill_value=None, other_component=oc)
    if isinstance(res, dict):
        (res,) = res.values()
    return ds, tbl, grid, da, partner, res


def model_request(case, tbl, da, partner):
    # the axes the table names (computed here, not through a private helper of xgcm)
    conn_axes = fg.table_axes(tbl)
    pad_axes = [a for a in ("X", "Y") if a in (conn_axes + list(case["widths"].keys()))]     # the grid's own axis order (not a set's)
    data4 = fg.canon_faces(da, *case["dims"])
    R = data4.shape[3]
    rules = resolved_rules(case)
    req = {a: case["widths"].get(a, [0, 0]) for a in ("X", "Y")}
    line = (f"c05 X Y {fg.enc_table(tbl)} {len(pad_axes)} {' '.join(pad_axes)} "
            f"{req['X'][0]} {req['X'][1]} {req['Y'][0]} {req['Y'][1]} "
            f"{rules['X']} {enc_rat(case['fill']['X'])} {rules['Y']} {enc_rat(case['fill']['Y'])} "
            + (f"V {case['vec']}" if case["vec"] else "N")
            + f" {case['nf']} {R} {fg.enc_faces(data4)}")
    partner4 = None
    if case["vec"]:
        other = "Y" if case["vec"] == "X" else "X"
        partner4 = fg.canon_faces(partner, *VEC_DIMS[other])
        line += " " + fg.enc_faces(partner4)
    return line, data4, partner4, req, rules


def eval_case(case, drv):
    try:
        ds, tbl, grid, da, partner, res = run_impl(case)
        impl = ("ok", res)
    except Exception as e:  # noqa: BLE001
        ds, tbl, grid, da, partner = build(case)
        impl = ("err", exc_kind(e), str(e)[:200])
    line, data4, partner4, req, rules = model_request(case, tbl, da, partner)
    R = data4.shape[3]
    kinds = sorted(fg.link_kinds(tbl))
    if impl[0] != "ok":
        return {"corr_ok": False, "prop_ok": False, "branch": "refused:" + impl[1],
                "detail": {"impl": list(impl)}}
    if all(w == [0, 0] for w in case["widths"].values()):
        got = fg.exact(fg.canon_faces(res, *case["dims"]))
        ok = bool((got == fg.exact(data4)).all())
        return {"corr_ok": ok, "prop_ok": ok, "branch": "zero-width", "detail": None}
    got = fg.exact(fg.canon_faces(res, *case["dims"]))
    model = fg.dec_faces(drv.ask(line), case["nf"], R)
    if case.get("nan_data"):
        model = fg.nanify(model)
    corr_ok = got.shape == model.shape and bool((got == model).all())
    want, mask = fg.spec_padded(tbl, fg.exact(data4), None if partner4 is None else fg.exact(partner4),
                                case["vec"], req, rules, case["fill"])
    prop_ok = got.shape == want.shape
    bad = []
    if prop_ok:
        for f, i, j in zip(*np.nonzero(mask)):
            if list(got[f, i, j]) != list(want[f, i, j]):
                prop_ok = False
                bad.append([int(f), int(i), int(j), [str(v) for v in got[f, i, j]], [str(v) for v in want[f, i, j]]])
                if len(bad) > 5:
                    break
    detail = None
    if not (corr_ok and prop_ok):
        cm = []
        if got.shape == model.shape:
            for idx in zip(*np.nonzero((got != model).any(axis=3))):
                cm.append([int(x) for x in idx])
        detail = {"shape": [list(got.shape), list(model.shape), list(want.shape)], "spec_mismatch": bad,
                  "model_mismatch_cells": cm[:8], "kinds": kinds}
    return {"corr_ok": corr_ok, "prop_ok": prop_ok,
            "branch": ("vec:" if case["vec"] else "sca:") + ",".join(kinds), "detail": detail}


def nontrivial(case, verdict):
    tbl = {int(f): v for f, v in case["tbl"].items()}
    return any(("swap" in k) or ("rev" in k) for k in fg.link_kinds(tbl))


def shrink_candidates(case):
    if case["extra"]:
        c = copy.deepcopy(case)
        d, s = c["extra"].pop()
        if s == 1:
            c["order"] = [x for x in c["order"] if x != d]
            yield c
    for a in list(case["widths"]):
        for side in (0, 1):
            if case["widths"][a][side] > 0:
                c = copy.deepcopy(case)
                c["widths"][a][side] -= 1
                yield c

"""C07 — conservative transform.

kinds
  kernel    : xgcm.transform.interp_1d_conservative on (..., n) arrays vs the Lean model per column
              (exact stream: dyadic values, power-of-two cell widths; tolerance stream: arbitrary floats),
              and the relations of the property evaluated on the implementation itself:
              conservation, merging adjacent bins, non-negativity, reversed bins, column independence
  transform : Grid.transform(method='conservative') with target_data on the bounds (outer) or on the
              centres, extra dims, optional dask chunking of them; compared with the kernel applied column
              by column to the bound values (model) and checked for conservation
numba is replaced by the pure-Python stand-in /verif/shims/numba (same kernel source).
"""
from __future__ import annotations

import copy
import math

import numpy as np
import xarray as xr

from common import dec_rat, dyadic, enc_rat, exc_kind, frac

RULE = ("kernel: n in 1..6 (thorough ..12), profiles monotone / non-monotone / with repeats / values drawn from "
        "the bin edges with probability 1/2, strictly monotonic bins (increasing or decreasing) spanning the "
        "profile or not, NaN bounds, 0-2 leading dims; transform: outer/centre target_data, extra dims, dask "
        "chunks; exact stream (dyadic, power-of-two cell widths) and tolerance stream (rel 1e-9); non-trivial = "
        "a profile value lies exactly on a bin edge, or the profile is non-monotonic, or bins decrease; "
        "distinct by case")
ASSUMPTIONS = ["numba is replaced by shims/numba (pure Python gufunc loop over the same kernel source)"]


def gen_profile(rng, n, bins, exact):
    th = []
    cur = rng.choice(bins) if rng.random() < 0.5 else (dyadic(rng, 0, 8, 1) if exact else rng.uniform(0, 8))
    th.append(cur)
    for _ in range(n):
        r = rng.random()
        if r < 0.15:
            step = 0.0
        elif exact:
            step = rng.choice([0.5, 1.0, 2.0, 4.0]) * rng.choice([1, 1, 1, -1])
        else:
            step = rng.uniform(0.1, 3.0) * rng.choice([1, 1, 1, -1])
        cur = cur + step
        th.append(cur)
    return th


def gen_case(rng, tier, i):
    exact = rng.random() < 0.7
    kind = "kernel" if rng.random() < 0.7 else "transform"
    nmax = 6 if tier == "quick" else 12
    n = rng.randint(1, nmax)
    m = rng.randint(1, 5)
    if exact:
        edges = sorted({dyadic(rng, -2, 14, 1) for _ in range(m + 1)})
    else:
        edges = sorted({round(rng.uniform(-2, 14), 3) for _ in range(m + 1)})
    while len(edges) < 2:
        edges.append(edges[-1] + 1.0)
    lead = [rng.randint(1, 3) for _ in range(rng.randint(0, 2))] if kind == "kernel" else []
    ncol = int(np.prod(lead)) if lead else 1
    cols = []
    for _ in range(ncol):
        th = gen_profile(rng, n, edges, exact)
        if rng.random() < 0.6:  # make the bins span the profile
            lo, hi = min(th), max(th)
            if edges[0] > lo:
                edges = [math.floor(lo) - 1.0] + edges
            if edges[-1] < hi:
                edges = edges + [math.ceil(hi) + 1.0]
        phi = [dyadic(rng, -8, 8, 2) if exact else rng.uniform(-5, 5) for _ in range(n)]
        if rng.random() < 0.3:
            phi = [abs(p) for p in phi]
        cols.append({"phi": phi, "theta": th})
    if kind == "kernel" and rng.random() < 0.12:
        c = rng.choice(cols)
        c["theta"][rng.randrange(len(c["theta"]))] = None       # NaN bound
    int_phi = rng.random() < 0.12          # integer-typed data (counts per cell): shares must not be truncated
    if int_phi:
        for c in cols:
            c["phi"] = [float(rng.randint(-3, 9)) for _ in range(n)]
    int_theta = exact and rng.random() < 0.1   # integer-typed target_data with non-integer bin edges
    if int_theta:
        for c in cols:
            c["theta"] = [None if t is None else float(math.floor(t)) for t in c["theta"]]
        edges = sorted({e + 0.5 for e in edges} | {min(edges) - 1.5})
    decreasing = rng.random() < 0.3
    bad_bins = rng.random() < 0.05
    case = {"kind": kind, "exact": exact, "n": n, "lead": lead, "cols": cols, "int_phi": int_phi, "int_theta": int_theta,
            "grid_rule": rng.choice(["extend", "fill", "fill"]), "grid_fill": rng.choice([0.0, 3.5, -20.0]),
            "bins": (edges[::-1] if decreasing else edges), "bad_bins": bad_bins}
    if bad_bins and len(case["bins"]) >= 3:
        b = list(case["bins"])
        b[1], b[2] = b[2], b[1]
        case["bins"] = b
    else:
        case["bad_bins"] = False
    if kind == "transform":
        case["on_centres"] = rng.random() < 0.4
        case["extra"] = rng.randint(1, 3)
        case["chunk"] = rng.random() < 0.4
        # one column per extra index
        while len(case["cols"]) < case["extra"]:
            case["cols"].append({"phi": [float(rng.randint(-3, 9)) if int_phi else dyadic(rng, -8, 8, 2) for _ in range(n)],
                                 "theta": gen_profile(rng, n, edges, exact)})
        case["cols"] = case["cols"][: case["extra"]]
    if int_theta:
        for c in case["cols"]:
            c["theta"] = [None if t is None else float(math.floor(t)) for t in c["theta"]]
    elif exact and rng.random() < 0.12:
        # weak stratification: target_data of the form 1024 + x / 4096 (cells a few 1e-4 wide on values of order 1e3);
        # a cell that is narrow relative to its magnitude is still an interval, not a point
        case["fine"] = True
        f = lambda x: None if x is None else 1024.0 + x / 4096.0  # noqa: E731  (exact in float64, monotone)
        for c in case["cols"]:
            c["theta"] = [f(t) for t in c["theta"]]
        case["bins"] = [f(b) for b in case["bins"]]
    return case


def enc_list(xs):
    return str(len(xs)) + "".join(" " + ("nan" if x is None or (isinstance(x, float) and math.isnan(x)) else enc_rat(x))
                                  for x in xs)


def model_col(drv, phi, theta, bins):
    ans = drv.ask(f"c07 {enc_list(phi)} {enc_list(theta)} {enc_list(bins)}")
    t = ans.split(" ")
    if t[0] == "ok":
        return [dec_rat(x) for x in t[1:]]
    return t[1]


def close(a, b, exact):
    if exact:
        return frac(a) == b
    fa = frac(a)
    return abs(fa - b) <= 1e-9 * max(1, abs(fa), abs(b))


def overlap_oracle(phi, theta, bins):
    """the statement itself: each cell contributes to each bin in proportion to the overlap of the cell's
    target_data interval with the bin (exact fractions).  Only for columns without degenerate cells (a cell whose
    two bounds coincide has no interval; where its content goes is pinned by the other statements)."""
    from fractions import Fraction as F
    edges = [F(x) for x in bins]
    dec = edges[0] > edges[-1]
    if dec:
        edges = edges[::-1]
    out = [F(0)] * (len(edges) - 1)
    for p, a, b in zip(phi, theta[:-1], theta[1:]):
        a, b = F(a), F(b)
        lo, hi = min(a, b), max(a, b)
        if lo == hi:
            return None
        for j in range(len(out)):
            ov = min(hi, edges[j + 1]) - max(lo, edges[j])
            if ov > 0:
                out[j] += F(p) * ov / (hi - lo)
    return out[::-1] if dec else out


def eval_kernel(case, drv):
    from xgcm.transform import interp_1d_conservative
    n, lead, bins = case["n"], case["lead"], case["bins"]
    exact = case["exact"]
    pdt = np.int64 if case.get("int_phi") else float
    tdt = np.int64 if case.get("int_theta") and not any(t is None for c in case["cols"] for t in c["theta"]) else float
    phi = np.array([c["phi"] for c in case["cols"]], dtype=pdt).reshape(lead + [n])
    theta = np.array([[np.nan if t is None else t for t in c["theta"]] for c in case["cols"]],
                     dtype=float).reshape(lead + [n + 1]).astype(tdt)
    b = np.array(bins, dtype=float)
    try:
        out = interp_1d_conservative(phi, theta, b)
        impl = ("ok", out.reshape(-1, len(bins) - 1))
    except Exception as e:  # noqa: BLE001
        impl = ("err", exc_kind(e))
    models = [model_col(drv, c["phi"], c["theta"], bins) for c in case["cols"]]
    detail = {}
    if impl[0] == "err":
        ok = all(isinstance(mo, str) for mo in models)
        return {"corr_ok": ok, "prop_ok": ok == case["bad_bins"] or ok, "branch": "refused:" + impl[1],
                "detail": None if ok else {"impl": impl[1], "model": str(models)[:200]}}
    corr_ok = True
    for k, mo in enumerate(models):
        if isinstance(mo, str) or len(mo) != impl[1].shape[1] or \
                not all(close(x, y, exact) for x, y in zip(impl[1][k].tolist(), mo)):
            corr_ok = False
            detail["corr"] = {"col": k, "impl": impl[1][k].tolist(), "model": [str(x) for x in mo] if not isinstance(mo, str) else mo}
            break
    prop_ok = not case["bad_bins"]          # non-monotonic bins must be refused
    if case["bad_bins"]:
        detail["prop"] = "non-monotonic bins were not refused"
    inc = sorted(bins)
    tol = 0 if exact else 1e-9
    for k, c in enumerate(case["cols"]):
        th = c["theta"]
        if any(t is None for t in th):
            continue
        o = impl[1][k]
        want = overlap_oracle(c["phi"], th, bins) if not case["bad_bins"] else None
        if want is not None and not all(close(x, y, exact) for x, y in zip(o.tolist(), want)):
            prop_ok = False
            detail["overlap"] = {"col": k, "impl": o.tolist(), "proportional_overlap": [str(x) for x in want]}
            break
        within = all(inc[0] <= t <= inc[-1] for t in th)
        if within:   # conservation
            s_out, s_in = sum(frac(x) for x in o.tolist()), sum(frac(x) for x in c["phi"])
            if abs(s_out - s_in) > tol * max(1, abs(s_in)) * len(th):
                prop_ok = False
                detail["conservation"] = {"col": k, "sum_out": str(s_out), "sum_in": str(s_in)}
        if all(p >= 0 for p in c["phi"]) and any(x < -tol for x in o.tolist()):
            prop_ok = False
            detail["nonneg"] = {"col": k, "out": o.tolist()}
        # reversed bins only reverse the output
        o2 = interp_1d_conservative(np.array(c["phi"], dtype=pdt), np.array(th, dtype=float).astype(tdt), b[::-1].copy())
        if not all(close(x, frac(y), exact) for x, y in zip(o2[::-1].tolist(), o.tolist())):
            prop_ok = False
            detail["reverse"] = {"col": k, "fwd": o.tolist(), "rev": o2.tolist()}
        # merging two adjacent bins sums their contents
        if len(bins) >= 3:
            j = 1 + (k % (len(bins) - 2))
            merged = np.delete(b, j)
            o3 = interp_1d_conservative(np.array(c["phi"], dtype=pdt), np.array(th, dtype=float).astype(tdt), merged)
            want = list(o[: j - 1]) + [o[j - 1] + o[j]] + list(o[j + 1:])
            if not all(close(x, frac(y), exact) or abs(x - y) <= 1e-9 * max(1, abs(x)) for x, y in zip(o3.tolist(), want)):
                prop_ok = False
                detail["merge"] = {"col": k, "j": j, "merged": o3.tolist(), "want": [float(w) for w in want]}
        # column independence: the column alone
        o4 = interp_1d_conservative(np.array(c["phi"], dtype=pdt), np.array(th, dtype=float).astype(tdt), b)
        if not np.array_equal(o4, o):
            prop_ok = False
            detail["columns"] = {"col": k, "alone": o4.tolist(), "in_nd": o.tolist()}
    br = "kernel:" + ("dec" if bins[0] > bins[-1] else "inc") + (":exact" if exact else ":tol")
    return {"corr_ok": corr_ok, "prop_ok": prop_ok, "branch": br, "detail": detail or None}


def eval_transform(case, drv):
    import xgcm
    n, bins, exact = case["n"], case["bins"], case["exact"]
    E = case["extra"]
    cols = case["cols"]
    if any(t is None for c in cols for t in c["theta"]):
        for c in cols:
            c["theta"] = [0.0 if t is None else t for t in c["theta"]]
    ds = xr.Dataset(coords={"zc": ("zc", np.arange(n) + 0.5), "zo": ("zo", np.arange(n + 1) * 1.0),
                            "e": ("e", np.arange(E) * 1.0)})
    # the axis' own rule must not leak into the interpolation of centre-located target_data ("repeated boundary values")
    grid = xgcm.Grid(ds, coords={"Z": {"center": "zc", "outer": "zo"}}, boundary=case.get("grid_rule", "extend"),
                     fill_value=case.get("grid_fill", 0.0), autoparse_metadata=False)
    phi = xr.DataArray(np.array([c["phi"] for c in cols], dtype=np.int64 if case.get("int_phi") else float),
                       dims=["e", "zc"], name="phi")
    theta_o = np.array([c["theta"] for c in cols], dtype=float)
    if case["on_centres"]:
        tc = theta_o[:, :n].copy()
        target_data = xr.DataArray(tc, dims=["e", "zc"], name="theta")
        # bounds the implementation derives: interp to outer with 'extend'
        pad = np.concatenate([tc[:, :1], tc, tc[:, -1:]], axis=1)
        bounds = (pad[:, :-1] + pad[:, 1:]) / 2.0
    else:
        target_data = xr.DataArray(theta_o.astype(np.int64) if case.get("int_theta") else theta_o, dims=["e", "zo"], name="theta")
        bounds = theta_o
    if case["chunk"]:
        phi = phi.chunk({"e": 1})
        target_data = target_data.chunk({"e": 1})
    target = np.array(bins, dtype=float)
    try:
        res = grid.transform(phi, "Z", target, target_data=target_data, method="conservative")
        lazy_ok = (not case["chunk"]) or hasattr(res.data, "dask")
        res = res.compute()
        impl = ("ok", res.transpose("e", "theta").values)
        dims_ok = set(res.dims) == {"e", "theta"}     # the result's name is C08's statement, not C07's
    except Exception as e:  # noqa: BLE001
        impl = ("err", exc_kind(e) + ": " + str(e)[:120])
        lazy_ok = dims_ok = True
    models = [model_col(drv, c["phi"], bounds[k].tolist(), bins) for k, c in enumerate(cols)]
    if impl[0] == "err":
        ok = all(isinstance(mo, str) for mo in models)
        return {"corr_ok": ok, "prop_ok": True, "branch": "transform:refused",
                "detail": None if ok else {"impl": impl[1], "model": str(models)[:200]}}
    detail = {}
    corr_ok = True
    ex = exact and not case["on_centres"]
    for k, mo in enumerate(models):
        if isinstance(mo, str) or not all(close(x, y, ex) for x, y in zip(impl[1][k].tolist(), mo)):
            corr_ok = False
            detail["corr"] = {"col": k, "impl": impl[1][k].tolist(), "model": str(mo)[:200]}
            break
    prop_ok = lazy_ok and dims_ok
    if not prop_ok:
        detail["meta"] = {"lazy": lazy_ok, "dims_name": dims_ok}
    inc = sorted(bins)
    for k, c in enumerate(cols):
        if all(inc[0] <= t <= inc[-1] for t in bounds[k].tolist()):
            s_out, s_in = sum(frac(x) for x in impl[1][k].tolist()), sum(frac(x) for x in c["phi"])
            if abs(s_out - s_in) > (0 if ex else 1e-9) * max(1, abs(s_in)) * (n + 1):
                prop_ok = False
                detail["conservation"] = {"col": k, "sum_out": str(s_out), "sum_in": str(s_in)}
    # a second transform on the SAME grid, same names / dims / shapes, other target_data values (the next time step):
    # what it returns depends on its own arguments only
    try:
        td2 = (target_data.astype(float) + 1.0).rename("theta")
        bounds2 = bounds + 1.0
        res2 = grid.transform(phi, "Z", target, target_data=td2, method="conservative").compute()
        vals2 = res2.transpose("e", "theta").values
        for k, c in enumerate(cols):
            mo2 = model_col(drv, c["phi"], bounds2[k].tolist(), bins)
            if isinstance(mo2, str) or not all(close(x, y, ex) for x, y in zip(vals2[k].tolist(), mo2)):
                prop_ok = False
                detail["second_call_on_same_grid"] = {"col": k, "impl": vals2[k].tolist(), "model": str(mo2)[:200]}
                break
    except Exception as e:  # noqa: BLE001
        prop_ok = False
        detail["second_call_on_same_grid"] = {"refused": exc_kind(e) + ": " + str(e)[:120]}
    return {"corr_ok": corr_ok, "prop_ok": prop_ok,
            "branch": "transform:" + ("centres" if case["on_centres"] else "outer") + (":dask" if case["chunk"] else ""),
            "detail": detail or None}


def eval_case(case, drv):
    case = copy.deepcopy(case)
    if case["kind"] == "kernel":
        return eval_kernel(case, drv)
    return eval_transform(case, drv)


def nontrivial(case, verdict):
    bins = set(case["bins"])
    for c in case["cols"]:
        th = [t for t in c["theta"] if t is not None]
        if any(t in bins for t in th):
            return True
        d = [b - a for a, b in zip(th, th[1:])]
        if any(x > 0 for x in d) and any(x < 0 for x in d):
            return True
    return case["bins"][0] > case["bins"][-1]

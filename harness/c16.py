"""C16 — the metric registry under any batching.

A case = one history of up to 4 registration calls (the first possibly through the constructor's
`metrics=`) over a pool of variables for 1-2 axis sets, each call naming 1-3 variables at pairwise
different positions, overwrite True/False.

  correspondence : after every call, outcome + registry (names per axis set, in order) of the real Grid
                   vs the Lean model `setMetrics`
  property       : (i) an independent slot-map oracle (latest registration wins; an occupied slot refuses
                   without overwrite and stays as it was); (ii) BATCHING on the implementation itself: the
                   same history with every call split into single-variable calls ends in the same registry
                   (up to the first refusal); (iii) get_metric at every position gives the same arrays on
                   both grids
"""
from __future__ import annotations

import copy
import itertools

import numpy as np

import metricgrid as mg
from common import exc_kind

RULE = ("histories of 1-4 calls (first optionally via metrics=), axis sets ('X',) and ('X','Y'), pool of 4+4 "
        "variables (two per slot for some slots), 1-3 variables per call at pairwise different positions, "
        "overwrite T/F; non-trivial = some call hits an occupied slot or names >= 2 variables; distinct by history")

AXES = [{"name": "X", "n": 3, "coords": {"center": "xc", "left": "xg", "right": "xr"}},
        {"name": "Y", "n": 2, "coords": {"center": "yc", "left": "yg"}}]
POOL = {("X",): [("dx_c", ["xc"]), ("dx_g", ["xg"]), ("dx_r", ["xr"]), ("dx_c2", ["xc"]), ("dx_g2", ["xg"])],
        ("X", "Y"): [("a_cc", ["xc", "yc"]), ("a_gc", ["xg", "yc"]), ("a_cg", ["xc", "yg"]), ("a_cc2", ["yc", "xc"])]}
MVARS = [{"name": n, "dims": d, "prime": mg.PRIMES[i]} for i, (n, d) in
         enumerate([v for k in POOL for v in POOL[k]])]
DIMS = {m["name"]: frozenset(m["dims"]) for m in MVARS}


def gen_case(rng, tier, i):
    if rng.random() < 0.12:
        # a constructor mapping whose keys spell the SAME axis set in two ways ("X" and ("X",); ("X","Y") and ("Y","X")):
        # every entry is a registration of its own, in the order listed
        key = rng.choice([("X",), ("X", "Y")])
        pool = POOL[key]
        picks = rng.sample(pool, min(len(pool), rng.randint(2, 4)))
        cut = rng.randint(1, len(picks) - 1)
        groups = []
        for part in (picks[:cut], picks[cut:]):
            names, seen = [], set()
            for n, d in part:
                if frozenset(d) not in seen:
                    names.append(n)
                    seen.add(frozenset(d))
            groups.append(names)
        spell = [["str"], ["tuple"]] if key == ("X",) else [["tuple"], ["reversed"]]
        rng.shuffle(spell)
        return {"kind": "ctor2", "calls": [{"key": list(key), "names": g, "ow": False} for g in groups],
                "spell": [x[0] for x in spell], "ctor_first": True}
    ncalls = rng.randint(1, 4)
    keys = [("X",)] if rng.random() < 0.5 else [("X",), ("X", "Y")]
    calls = []
    for _ in range(ncalls):
        key = rng.choice(keys)
        pool = POOL[key]
        k = rng.randint(1, 3)
        chosen, seen = [], set()
        for n, d in rng.sample(pool, len(pool)):
            if frozenset(d) not in seen:
                chosen.append(n)
                seen.add(frozenset(d))
            if len(chosen) == k:
                break
        calls.append({"key": list(key), "names": chosen, "ow": rng.random() < 0.4,
                      "as_str": len(key) == 1 and rng.random() < 0.3})
    return {"calls": calls, "ctor_first": rng.random() < 0.3, "queries": rng.random() < 0.35}


def run_history(calls, ctor_first, queries=False):
    """-> list of (outcome, registry) after each call, and the grid"""
    import xgcm
    ds, _ = mg.build_dataset(AXES, MVARS)
    coords = {a["name"]: dict(a["coords"]) for a in AXES}
    states = []
    grid = None
    start = 0
    if ctor_first and calls:
        c = calls[0]
        try:
            grid = xgcm.Grid(ds, coords=coords, metrics={tuple(c["key"]): list(c["names"])},
                             autoparse_metadata=False)
            states.append(("ok", mg.registry_of(grid)))
        except Exception as e:  # noqa: BLE001
            grid = xgcm.Grid(ds, coords=coords, autoparse_metadata=False)
            states.append(("err:" + exc_kind(e), mg.registry_of(grid)))
        start = 1
    if grid is None:
        grid = xgcm.Grid(ds, coords=coords, autoparse_metadata=False)
    import xarray as _xr
    for j, c in enumerate(calls[start:]):
        key = c["key"][0] if c.get("as_str") else tuple(c["key"])
        names = c["names"][0] if len(c["names"]) == 1 and c.get("as_str") else list(c["names"])
        if queries:
            # asking for a metric (at a position that may have none registered) registers nothing
            for pos_dims in (("xg", "yc"), ("xr", "yg"), ("xc", "yg"))[: 1 + (j % 3)]:
                arr = _xr.DataArray(np.zeros((3, 2)), dims=list(pos_dims))
                for axes_ in (("X",), ("X", "Y")):
                    try:
                        grid.get_metric(arr, axes_)
                    except Exception:  # noqa: BLE001
                        pass
        try:
            grid.set_metrics(key, names, overwrite=c["ow"])
            states.append(("ok", mg.registry_of(grid)))
        except Exception as e:  # noqa: BLE001
            states.append(("err:" + exc_kind(e), mg.registry_of(grid)))
    return states, grid, ds


def slot_oracle(calls):
    """independent statement-level oracle: slots (axes, dims) -> variable; order of first occupation"""
    slots = {}
    order = {}
    outs = []
    for c in calls:
        key = tuple(sorted(c["key"]))
        res = "ok"
        for n in c["names"]:
            s = (key, DIMS[n])
            if s in slots and not c["ow"]:
                res = "err:ValueError"
                break
            if s not in slots:
                order.setdefault(key, []).append(s)
            slots[s] = n
        reg = [(k, [slots[s] for s in ss]) for k, ss in order.items()]
        outs.append((res, reg))
    return outs


def metric_arrays(grid, ds):
    out = {}
    for pos_dims in itertools.product(["xc", "xg", "xr"], ["yc", "yg"]):
        arr = ds["a_cc"].isel(xc=0, yc=0, drop=True) * 0 + \
            __import__("xarray").DataArray(np.zeros((3, 2)), dims=list(pos_dims))
        for axes in (("X",), ("X", "Y")):
            try:
                m = grid.get_metric(arr, axes)
                out[(pos_dims, axes)] = (list(m.dims), np.asarray(m.transpose(*sorted(m.dims)).values).tolist())
            except Exception as e:  # noqa: BLE001
                out[(pos_dims, axes)] = "err:" + exc_kind(e)
    return out


def eval_ctor2(case):
    import xgcm
    calls = case["calls"]
    ds, _ = mg.build_dataset(AXES, MVARS)
    coords = {a["name"]: dict(a["coords"]) for a in AXES}
    mapping = {}
    for c, sp in zip(calls, case["spell"]):
        k = {"str": c["key"][0], "tuple": tuple(c["key"]), "reversed": tuple(reversed(c["key"]))}[sp]
        mapping[k] = list(c["names"])
    want = slot_oracle(calls)
    refused = any(o != "ok" for o, _ in want)
    try:
        grid = xgcm.Grid(ds, coords=coords, metrics=mapping, autoparse_metadata=False)
        got = ("ok", mg.registry_of(grid))
    except Exception as e:  # noqa: BLE001
        grid, got = None, ("err:" + exc_kind(e), None)
    detail = {}
    if refused:
        ok = got[0].startswith("err")
    else:
        ok = got == ("ok", want[-1][1])
        if ok:
            _, grid2, ds2 = run_history_split(calls)
            m1, m2 = metric_arrays(grid, ds), metric_arrays(grid2, ds2)
            if m1 != m2:
                ok = False
                detail["get_metric"] = [str(k) for k in m1 if m1[k] != m2[k]][:3]
    if not ok:
        detail["ctor"] = {"mapping": str(mapping), "impl": str(got)[:300], "entry_by_entry": str(want)[:300]}
    return {"corr_ok": True, "prop_ok": ok, "branch": "ctor2:" + "+".join(case["spell"]) + (":refused" if refused else ""),
            "detail": detail or None, "nt": True}


def eval_case(case, drv):
    if case.get("kind") == "ctor2":
        return eval_ctor2(case)
    calls = case["calls"]
    states, grid, ds = run_history(calls, case["ctor_first"], queries=case.get("queries", False))
    req = (f"c16 2 X Y {mg.enc_mvars(MVARS)} {mg.enc_calls(calls)}")
    ans = drv.ask(req).split(" # ")
    model = []
    for a in ans:
        o, _, reg = a.partition("|")
        model.append((o, mg.parse_registry(reg)))
    corr_ok = model == [(o, r) for o, r in states]
    want = slot_oracle(calls)
    prop_ok = want == [(o, r) for o, r in states]
    detail = {}
    if not corr_ok:
        detail["model"] = {"impl": str(states)[:400], "model": str(model)[:400]}
    if not prop_ok:
        detail["slots"] = {"impl": str(states)[:400], "oracle": str(want)[:400]}
    # batching: split every call into single-variable calls (stop a call's remainder at its first refusal)
    split = []
    for c in calls:
        for n in c["names"]:
            split.append({"key": c["key"], "names": [n], "ow": c["ow"], "group": id(c)})
    states2, grid2, ds2 = run_history_split(calls)
    if states2 != states[-1][1]:
        prop_ok = False
        detail["batching"] = {"batched": str(states[-1][1])[:300], "one_by_one": str(states2)[:300]}
    else:
        m1, m2 = metric_arrays(grid, ds), metric_arrays(grid2, ds2)
        if m1 != m2:
            prop_ok = False
            bad = [str(k) for k in m1 if m1[k] != m2[k]][:3]
            detail["get_metric"] = bad
    nt = any(len(c["names"]) > 1 for c in calls)
    return {"corr_ok": corr_ok, "prop_ok": prop_ok, "branch": f"calls{len(calls)}" + (":ctor" if case["ctor_first"] else ""),
            "detail": detail or None, "nt": nt}


def run_history_split(calls):
    """every call one variable at a time; within a call stop at the first refusal"""
    import xgcm
    ds, _ = mg.build_dataset(AXES, MVARS)
    coords = {a["name"]: dict(a["coords"]) for a in AXES}
    grid = xgcm.Grid(ds, coords=coords, autoparse_metadata=False)
    for c in calls:
        for n in c["names"]:
            try:
                grid.set_metrics(tuple(c["key"]), [n], overwrite=c["ow"])
            except Exception:  # noqa: BLE001
                break
    return mg.registry_of(grid), grid, ds


def nontrivial(case, verdict):
    if verdict.get("nt"):
        return True
    seen = set()
    for c in case["calls"]:
        for n in c["names"]:
            s = (tuple(sorted(c["key"])), DIMS[n])
            if s in seen:
                return True
            seen.add(s)
    return False

"""C03 — scalar operations are invariant to how the domain is cut into faces.

The harness GENERATES decompositions: a periodic or open rectangular domain of Kx x Ky
square faces of N x N cells, an independent orientation (one of the 8 symmetries of the
square) per face, filtered (by backtracking) to decompositions all of whose junctions are
expressible in the face_connections format.  The link table is derived from the geometry
here in Python (independently of the Lean development); each face's data is the pull-back
of a random global field G.

  implementation : Grid.diff / interp / min / max on the face-connected Grid
  model          : Lean `c03op` = padFaceConnections + the selected ufunc's stencil
  oracle         : numpy on the UNDIVIDED field: G extended by np.pad, pulled back through
                   each face's placement and orientation, then the plain stencil
"""
from __future__ import annotations

import itertools

import numpy as np
import xarray as xr

import facegrid as fg
from common import dyadic, enc_rat, exc_kind, fillv

RULE = ("decompositions Kx,Ky in 1..3 (thorough ..4), N in 2..5, periodic/open per global axis, random "
        "orientations filtered to expressible junctions; all four operators x both axes x to in "
        "{left,right} x rule on open edges x 0-2 extra dims with the face dimension anywhere; "
        "non-trivial = the topology has at least one swapped or reversed junction; distinct by case")

D4 = [(sw, fx, fy) for sw in (0, 1) for fx in (0, 1) for fy in (0, 1)]


def lin(o, d):
    sw, fx, fy = o
    dx, dy = (d[1], d[0]) if sw else d
    return (-dx if fx else dx, -dy if fy else dy)


def app(o, N, x, y):
    sw, fx, fy = o
    xp, yp = (y, x) if sw else (x, y)
    return (N - 1 - xp if fx else xp, N - 1 - yp if fy else yp)


def normal(a, s):
    v = 1 if s else -1
    return (0, v) if a else (v, 0)


def tangent(a):
    return (1, 0) if a else (0, 1)


def facing_side(og, d):
    """the side (b, s2) of a face with orientation og whose outward normal is -d"""
    for b in (0, 1):
        for s2 in (0, 1):
            if lin(og, normal(b, s2)) == (-d[0], -d[1]):
                return b, s2
    raise AssertionError


def expressible(of, og, a, s):
    d = lin(of, normal(a, s))
    b, s2 = facing_side(og, d)
    tf, tg = lin(of, tangent(a)), lin(og, tangent(b))
    mirrored = tf == (-tg[0], -tg[1])
    return mirrored == ((a != b) and not (s == s2))


def neighbours(Kx, Ky, per):
    """(face, a-direction in global frame) -> neighbour face or None"""
    def nb(I, J, d):
        I2, J2 = I + d[0], J + d[1]
        if not (0 <= I2 < Kx):
            if not per[0]:
                return None
            I2 %= Kx
        if not (0 <= J2 < Ky):
            if not per[1]:
                return None
            J2 %= Ky
        return I2 * Ky + J2
    return nb


def choose_orientations(rng, Kx, Ky, per):
    nf = Kx * Ky
    nb = neighbours(Kx, Ky, per)
    orient = [None] * nf
    order = list(range(nf))

    def ok(f):
        I, J = divmod(f, Ky)
        for a in (0, 1):
            for s in (0, 1):
                d = lin(orient[f], normal(a, s))
                g = nb(I, J, d)
                if g is None or orient[g] is None:
                    continue
                if not expressible(orient[f], orient[g], a, s):
                    return False
                # and seen from g
                b, s2 = facing_side(orient[g], d)
                if not expressible(orient[g], orient[f], b, s2):
                    return False
        return True

    def rec(i):
        if i == nf:
            return True
        f = order[i]
        opts = D4[:]
        rng.shuffle(opts)
        for o in opts:
            orient[f] = o
            if ok(f) and rec(i + 1):
                return True
        orient[f] = None
        return False
    assert rec(0)
    return orient


def table_of(Kx, Ky, per, orient):
    nb = neighbours(Kx, Ky, per)
    tbl = {}
    for f in range(Kx * Ky):
        I, J = divmod(f, Ky)
        ent = {}
        for a in (0, 1):
            pr = []
            for s in (0, 1):
                d = lin(orient[f], normal(a, s))
                g = nb(I, J, d)
                if g is None:
                    pr.append(None)
                else:
                    b, s2 = facing_side(orient[g], d)
                    pr.append([g, "Y" if b else "X", s == s2])
            ent["Y" if a else "X"] = pr
        tbl[f] = ent
    return tbl


def gen_case(rng, tier, i):
    kmax = 4 if tier == "thorough" else 3
    Kx, Ky = rng.randint(1, kmax), rng.randint(1, kmax)
    if Kx * Ky > (9 if tier == "thorough" else 6):
        Ky = 1
    N = rng.randint(2, 5 if tier == "thorough" else 4)
    per = [rng.random() < 0.6, rng.random() < 0.6]
    orient = choose_orientations(rng, Kx, Ky, per)
    extra = [(f"e{k}", rng.choice([1, 2])) for k in range(rng.randint(0, 2))]
    order = ["face", "xc", "yc"] + [d for d, _ in extra]
    rng.shuffle(order)
    G = [[dyadic(rng, -16, 16, 1) for _ in range(Ky * N)] for _ in range(Kx * N)]
    if rng.random() < 0.12:
        # missing values (land), anywhere - also in the rows / columns that touch a junction
        for _ in range(rng.randint(1, 4)):
            G[rng.randrange(Kx * N)][rng.randrange(Ky * N)] = None
    return {"Kx": Kx, "Ky": Ky, "N": N, "per": per, "orient": orient, "extra": extra, "order": order, "G": G,
            "func": rng.choice(["diff", "interp", "min", "max"]), "axis": rng.choice(["X", "Y"]),
            "to": rng.choice(["left", "right"]), "rule": rng.choice(["fill", "extend", "periodic"]),
            "fill": fillv(rng)}


def face_data(case, G):
    Kx, Ky, N = case["Kx"], case["Ky"], case["N"]
    nf = Kx * Ky
    out = np.zeros((nf, N, N))
    for f in range(nf):
        I, J = divmod(f, Ky)
        for x in range(N):
            for y in range(N):
                u, v = app(case["orient"][f], N, x, y)
                out[f, x, y] = G[I * N + u, J * N + v]
    return out


def oracle(case, G):
    """op on the undivided field, pulled back to every face; across an edge of the domain that has
    no link the ordinary boundary rule is applied to the face's own line (second sentence of C03)"""
    Kx, Ky, N = case["Kx"], case["Ky"], case["N"]
    rule = case["rule"]
    a = 0 if case["axis"] == "X" else 1
    lo, hi = (1, 0) if case["to"] == "left" else (0, 1)
    nf = Kx * Ky
    out = np.zeros((nf, N, N))
    def nanprop(f):
        return lambda l, r: float("nan") if (l != l or r != r) else f(l, r)     # a missing neighbour gives a missing value
    op = {"diff": lambda l, r: r - l, "interp": lambda l, r: (l + r) / 2.0,
          "min": nanprop(min), "max": nanprop(max)}[case["func"]]
    size = (Kx * N, Ky * N)
    for f in range(nf):
        I, J = divmod(f, Ky)

        def val(x, y):
            u, v = app(case["orient"][f], N, x, y)
            gu, gv = I * N + u, J * N + v
            inside = True
            if not (0 <= gu < size[0]):
                if case["per"][0]:
                    gu %= size[0]
                else:
                    inside = False
            if not (0 <= gv < size[1]):
                if case["per"][1]:
                    gv %= size[1]
                else:
                    inside = False
            if inside:
                return G[gu, gv]
            # unlinked edge: the rule acts on the face's own line
            if rule == "fill":
                return case["fill"]
            cx, cy = x, y
            if rule == "extend":
                cx, cy = min(max(x, 0), N - 1), min(max(y, 0), N - 1)
            else:
                cx, cy = x % N, y % N
            u, v = app(case["orient"][f], N, cx, cy)
            return G[I * N + u, J * N + v]
        for x in range(N):
            for y in range(N):
                if a == 0:
                    left, right = (val(x - 1, y), val(x, y)) if lo else (val(x, y), val(x + 1, y))
                else:
                    left, right = (val(x, y - 1), val(x, y)) if lo else (val(x, y), val(x, y + 1))
                out[f, x, y] = op(left, right)
    return out


def eval_case(case, drv):
    Kx, Ky, N = case["Kx"], case["Ky"], case["N"]
    nf = Kx * Ky
    G = np.array([[np.nan if v is None else v for v in row] for row in case["G"]], dtype=float)
    tbl = table_of(Kx, Ky, case["per"], [tuple(o) for o in case["orient"]])
    extra = [tuple(e) for e in case["extra"]]
    ds = fg.dataset(nf, N, extra)
    rule, fill = case["rule"], case["fill"]
    grid = fg.make_grid(ds, tbl, {"X": rule, "Y": rule}, {"X": fill, "Y": fill})
    d3 = face_data(case, G)
    # broadcast over extra dims with a per-slice offset so that extra dims matter
    full = xr.DataArray(d3, dims=["face", "xc", "yc"])
    for k, (d, s) in enumerate(extra):
        full = full + xr.DataArray(np.arange(s, dtype=float) * (k + 1) * 0.0, dims=[d])  # same field on every slice
    da = full.transpose(*case["order"]).rename("q")
    tdim = {"X": {"left": "xg", "right": "xr"}, "Y": {"left": "yg", "right": "yr"}}[case["axis"]][case["to"]]
    dims_out = ("xc" if case["axis"] == "Y" else tdim, "yc" if case["axis"] == "X" else tdim)
    try:
        res = getattr(grid, case["func"])(da, case["axis"], to=case["to"])
        got = fg.exact(fg.canon_faces(res, *dims_out))
        impl_err = None
    except Exception as e:  # noqa: BLE001
        got, impl_err = None, exc_kind(e) + ": " + str(e)[:150]
    kinds = sorted(fg.link_kinds(tbl))
    if got is None:
        return {"corr_ok": False, "prop_ok": False, "branch": "refused", "detail": {"impl": impl_err, "kinds": kinds}}
    # model
    conn_axes = fg.table_axes(tbl)      # the axes the table names (not through a private helper of xgcm)
    pad_axes = [a for a in ("X", "Y") if a in (conn_axes + [case["axis"]])]     # the grid's own axis order (not a set's)
    data4 = fg.canon_faces(da, "xc", "yc")
    R = data4.shape[3]
    line = (f"c03op {case['func']} center {case['to']} {case['axis']} X Y {fg.enc_table(tbl)} "
            f"{len(pad_axes)} {' '.join(pad_axes)} {rule} {enc_rat(fill)} {rule} {enc_rat(fill)} N "
            f"{nf} {R} {fg.enc_faces(data4)}")
    has_nan = bool(np.isnan(G).any())
    if has_nan:
        # the Lean model computes in exact rationals and has no missing values: such cases are judged by the
        # undivided-field oracle (IEEE semantics) alone
        corr_ok = True
    else:
        ans = drv.ask(line)
        if not ans.startswith("ok"):
            return {"corr_ok": False, "prop_ok": True, "branch": "model-refused", "detail": {"model": ans[:100]}}
        model = fg.dec_faces(ans, nf, R)
        corr_ok = got.shape == model.shape and bool((got == model).all())
    want = fg.exact(oracle(case, G))
    prop_ok = True
    bad = []
    for r in range(R):
        if not (got[..., r] == want).all():
            prop_ok = False
            for idx in zip(*np.nonzero(got[..., r] != want)):
                bad.append([int(x) for x in idx] + [str(got[idx + (r,)]), str(want[idx])])
                if len(bad) > 5:
                    break
            break
    detail = None
    if not (corr_ok and prop_ok):
        detail = {"kinds": kinds, "bad_vs_oracle": bad, "table": tbl}
    return {"corr_ok": corr_ok, "prop_ok": prop_ok,
            "branch": f"{case['func']}:{','.join(kinds) or 'nolinks'}" + (":missing-values" if has_nan else ""), "detail": detail}


def nontrivial(case, verdict):
    tbl = table_of(case["Kx"], case["Ky"], case["per"], [tuple(o) for o in case["orient"]])
    return any(("swap" in k) or ("rev" in k) for k in fg.link_kinds(tbl))

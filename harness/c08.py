"""C08 — linear and log transforms.

kinds
  kernel    : xgcm.transform.interp_1d_linear on (..., n) arrays, direction varying across columns,
              levels in random order inside / outside / exactly at the ends, mask_edges x bypass_checks,
              logarithmic; vs the Lean model per column (log: the model gets np.log of theta and levels,
              tolerance stream)
  transform : Grid.transform(method='linear'|'log'): 1-D target (ndarray or DataArray), N-D target with
              target_dim, target_data given or taken from the dataset, extra dims, dask chunks; values per
              column vs the model, and NAMES: new dimension named after the target (or target_data for a
              bare array), result named input + suffix
"""
from __future__ import annotations

import copy
import math

import numpy as np
import xarray as xr

from common import dec_rat, dyadic, enc_rat, exc_kind, frac

RULE = ("kernel: columns of length 2..7 (thorough ..14), strictly monotonic profiles in either direction "
        "(varying across columns), levels inside/outside/at the ends in random order, mask_edges x "
        "bypass_checks (bypass only with increasing data), linear (exact dyadic stream) and log (tolerance); "
        "transform: 1-D/N-D targets, target_dim, named/bare targets, suffix given or default, extra dims, dask; "
        "non-trivial = a decreasing column, or a level exactly on an end / outside the range; distinct by case")
ASSUMPTIONS = ["numba is replaced by shims/numba (pure Python gufunc loop over the same kernel source)"]


def profile(rng, n, exact, log):
    start = dyadic(rng, 1, 8, 1) if exact else rng.uniform(1, 8)
    th = [start]
    for _ in range(n - 1):
        th.append(th[-1] + (rng.choice([0.5, 1.0, 2.0, 4.0]) if exact else rng.uniform(0.2, 3.0)))
    if rng.random() < 0.5:
        th = th[::-1]
    return th


def levels_for(rng, ths, exact, k):
    lo, hi = min(min(t) for t in ths), max(max(t) for t in ths)
    out = []
    for _ in range(k):
        r = rng.random()
        if r < 0.25:
            out.append(rng.choice(rng.choice(ths)))                       # exactly a node (often an end)
        elif r < 0.4:
            out.append(rng.choice([lo - 1.0, hi + 1.5, lo - 0.25]))       # outside
        elif exact:
            out.append(dyadic(rng, int(lo), int(hi) + 1, 2))
        else:
            out.append(rng.uniform(lo - 0.5, hi + 0.5))
    return out


def gen_case(rng, tier, i):
    kind = "kernel" if rng.random() < 0.6 else "transform"
    log = rng.random() < 0.25
    exact = (not log) and rng.random() < 0.75
    n = rng.randint(2, 7 if tier == "quick" else 14)
    ncol = rng.randint(1, 4)
    cols = []
    for _ in range(ncol):
        th = profile(rng, n, exact, log)
        cols.append({"theta": th, "phi": [dyadic(rng, -8, 8, 2) if exact else rng.uniform(-5, 5) for _ in range(n)]})
    bypass = rng.random() < 0.2
    if bypass:
        for c in cols:
            if c["theta"][0] > c["theta"][-1]:
                c["theta"] = c["theta"][::-1]
    case = {"kind": kind, "log": log, "exact": exact, "n": n, "cols": cols,
            "levels": levels_for(rng, [c["theta"] for c in cols], exact, rng.randint(1, 5)),
            "mask": rng.random() < 0.5, "bypass": bypass}
    if kind == "transform":
        case["target_kind"] = rng.choice(["ndarray", "dataarray", "nd"])
        case["target_dim_name"] = rng.choice(["lev", "sigma_levels", "t"])
        case["tdata_name"] = rng.choice(["theta", "dens", None])
        case["use_coord"] = rng.random() < 0.2        # target_data=None: the dataset's own coordinate
        case["suffix"] = rng.choice([None, "_on_theta", ""])
        case["chunk"] = rng.random() < 0.35
        case["da_name"] = rng.choice(["phi", "salt"])
        case["lev_shift"] = 0.25
        if exact and not log and rng.random() < 0.2:
            # single-precision data against double-precision target_data that single precision cannot hold
            # (density-like values: 1024 + x / 2**16): nothing may be rounded to the precision of the data
            case["f32"] = True
            f = lambda x: 1024.0 + x / 65536.0  # noqa: E731  (exact in float64, monotone)
            for c in cols:
                c["theta"] = [f(t) for t in c["theta"]]
            case["levels"] = [f(l) for l in case["levels"]]
            case["lev_shift"] = 0.25 / 65536.0
    return case


def enc_list(xs):
    return str(len(xs)) + "".join(" " + enc_rat(x) for x in xs)


def model_col(drv, phi, theta, levels, mask, bypass):
    ans = drv.ask(f"c08 {enc_list(phi)} {enc_list(theta)} {enc_list(levels)} {'T' if mask else 'F'} {'T' if bypass else 'F'}")
    return [None if t == "nan" else dec_rat(t) for t in ans.split(" ")[1:]]


def same(vals, model, exact):
    if len(vals) != len(model):
        return False
    for v, m in zip(vals, model):
        if m is None:
            if not (isinstance(v, float) and math.isnan(v)):
                return False
        else:
            if isinstance(v, float) and math.isnan(v):
                return False
            fv = frac(v)
            if exact:
                if fv != m:
                    return False
            elif abs(fv - m) > 1e-9 * max(1, abs(fv), abs(m)):
                return False
    return True


def eval_kernel(case, drv):
    from xgcm.transform import interp_1d_linear
    phi = np.array([c["phi"] for c in case["cols"]], dtype=float)
    theta = np.array([c["theta"] for c in case["cols"]], dtype=float)
    lev = np.array(case["levels"], dtype=float)
    out = interp_1d_linear(phi, theta, lev, mask_edges=case["mask"], bypass_checks=case["bypass"],
                           logarithmic=case["log"])
    ok = True
    detail = None
    for k, c in enumerate(case["cols"]):
        th, lv = (np.log(np.array(c["theta"])).tolist(), np.log(lev).tolist()) if case["log"] else (c["theta"], case["levels"])
        mo = model_col(drv, c["phi"], th, lv, case["mask"], case["bypass"])
        if not same(out[k].tolist(), mo, case["exact"]):
            ok = False
            detail = {"col": k, "impl": out[k].tolist(), "model": [None if m is None else str(m) for m in mo]}
            break
        # column alone == column inside the N-D call
        alone = interp_1d_linear(phi[k], theta[k], lev, mask_edges=case["mask"], bypass_checks=case["bypass"],
                                 logarithmic=case["log"])
        if not np.array_equal(alone, out[k], equal_nan=True):
            return {"corr_ok": True, "prop_ok": False, "branch": "kernel",
                    "detail": {"columns": [alone.tolist(), out[k].tolist()]}}
    br = "kernel:" + ("log" if case["log"] else "linear") + (":mask" if case["mask"] else "") + (":bypass" if case["bypass"] else "")
    # the model IS the pwl spec by theorem; agreement with it is the property
    return {"corr_ok": ok, "prop_ok": ok, "branch": br, "detail": detail}


def eval_transform(case, drv):
    import xgcm
    n, cols = case["n"], case["cols"]
    E = len(cols)
    ds = xr.Dataset(coords={"zc": ("zc", np.array(cols[0]["theta"], dtype=float) if case["use_coord"]
                                   else np.arange(n) + 0.5),
                            "e": ("e", np.arange(E) * 1.0)})
    grid = xgcm.Grid(ds, coords={"Z": {"center": "zc"}}, boundary="fill", autoparse_metadata=False)
    phi = xr.DataArray(np.array([c["phi"] for c in cols], dtype=np.float32 if case.get("f32") else float), dims=["e", "zc"],
                       coords={"zc": ds.zc, "e": ds.e}, name=case["da_name"])
    if case["use_coord"]:
        thetas = [cols[0]["theta"]] * E
        target_data = None
    else:
        thetas = [c["theta"] for c in cols]
        target_data = xr.DataArray(np.array(thetas, dtype=float), dims=["e", "zc"], name=case["tdata_name"])
    levels = case["levels"]
    tdn = case["target_dim_name"]
    kw = {"method": "log" if case["log"] else "linear", "mask_edges": case["mask"], "bypass_checks": case["bypass"]}
    per_col_levels = [levels] * E
    if case["target_kind"] == "ndarray":
        target = np.array(levels, dtype=float)
        expect_dim = "zc" if target_data is None else (case["tdata_name"] or "TRANSFORMED_DIMENSION")
    elif case["target_kind"] == "dataarray":
        target = xr.DataArray(np.array(levels, dtype=float), dims=[tdn])
        expect_dim = tdn
    else:
        per_col_levels = [[l + case.get("lev_shift", 0.25) * k for l in levels] for k in range(E)]
        target = xr.DataArray(np.array(per_col_levels, dtype=float), dims=["e", tdn])
        kw["target_dim"] = tdn
        expect_dim = tdn
    if target_data is not None:
        kw["target_data"] = target_data
    if case["suffix"] is not None:
        kw["suffix"] = case["suffix"]
    if case["chunk"]:
        phi = phi.chunk({"e": 1})
        if target_data is not None:
            kw["target_data"] = target_data.chunk({"e": 1})
    try:
        res = grid.transform(phi, "Z", target, **kw)
        lazy_ok = (not case["chunk"]) or hasattr(res.data, "dask")
        res = res.compute()
    except Exception as e:  # noqa: BLE001
        return {"corr_ok": False, "prop_ok": False, "branch": "transform:refused",
                "detail": {"impl": exc_kind(e) + ": " + str(e)[:160], "kw": {k: str(v)[:40] for k, v in kw.items()}}}
    detail = {}
    want_name = case["da_name"] + ("_transformed" if case["suffix"] is None else case["suffix"])
    prop_ok = lazy_ok
    if res.name != want_name:
        prop_ok = False
        detail["name"] = [res.name, want_name]
    if expect_dim not in res.dims or set(res.dims) != {"e", expect_dim}:
        prop_ok = False
        detail["dims"] = [list(res.dims), expect_dim]
        return {"corr_ok": True, "prop_ok": False, "branch": "transform", "detail": detail}
    vals = res.transpose("e", expect_dim).values
    corr_ok = True
    # naming against the Lean model of _parse_target / input_handling
    kind = {"ndarray": "bare", "dataarray": f"one {tdn}", "nd": "many"}.get(case["target_kind"], "many")
    td_tok = "U" if target_data is None else (case["tdata_name"] or "A")
    ans = drv.ask(f"c08names {kind} {kw.get('target_dim') or 'N'} {td_tok} zc {case['da_name'] or 'N'} "
                  f"{'N' if case['suffix'] is None else (case['suffix'] or 'E')}").split(" ")
    new_dims = [d for d in res.dims if d != "e"]
    if ans != [new_dims[0] if len(new_dims) == 1 else "?", res.name if res.name is not None else "none"]:
        corr_ok = False
        detail["names_model"] = {"model": ans, "impl": [new_dims, res.name]}
    for k, c in enumerate(cols):
        th, lv = thetas[k], per_col_levels[k]
        if case["log"]:
            th, lv = np.log(np.array(th)).tolist(), np.log(np.array(lv)).tolist()
        mo = model_col(drv, c["phi"], th, lv, case["mask"], case["bypass"])
        if not same(vals[k].tolist(), mo, case["exact"]):
            corr_ok = False
            detail["values"] = {"col": k, "impl": vals[k].tolist(), "model": [None if m is None else str(m) for m in mo]}
            break
    return {"corr_ok": corr_ok, "prop_ok": prop_ok and corr_ok,
            "branch": f"transform:{case['target_kind']}:{'log' if case['log'] else 'linear'}" + (":dask" if case["chunk"] else "")
            + (":f32" if case.get("f32") else ""),
            "detail": detail or None}


def eval_case(case, drv):
    case = copy.deepcopy(case)
    if case["log"]:
        case["levels"] = [abs(l) + 0.5 for l in case["levels"]]
    if case["kind"] == "kernel":
        return eval_kernel(case, drv)
    return eval_transform(case, drv)


def nontrivial(case, verdict):
    for c in case["cols"]:
        th = c["theta"]
        if th[0] > th[-1]:
            return True
        if any(l <= min(th) or l >= max(th) for l in case["levels"]):
            return True
    return False

"""C09 — cumsum / cumint.

kinds of case
  cumsum  : Grid.cumsum vs Lean model (`cumsumND` over the generated table) and Lean spec
  inverse : diff(cumsum(to outer, fill 0)) == original            (relation on the implementation)
  commute : cumsum over two axes in both orders, zero / no fill   (relation on the implementation)
  cumint  : Grid.cumint vs model cumsum of data x metric; last value on outer/right == integrate
"""
from __future__ import annotations

import copy

import numpy as np
import xarray as xr

from common import (RULES, Layout, build_grid, canon_da, dyadic, dyadic_array, enc_arr, enc_grid, fillv,
                    enc_kw, enc_rat, exc_kind, frac, grid_axes_for_driver, parse_res, pos_len, same_arr)

RULE = ("random simple grids (1-3 axes, n in 2..7, thorough ..20, extra dims, any order) x 8 shifts x rule x "
        "fill per call or grid default; kinds cumsum (vs model+spec), inverse, commute (2 axes, both "
        "orders), cumint (power-of-two metrics; last value vs integrate); non-trivial = a leading "
        "boundary value is needed (center->left/outer, right->center, inner->center) or kind != cumsum")

LEAD = {("center", "left"), ("right", "center"), ("center", "outer"), ("inner", "center")}


def gen_case(rng, tier, i):
    nmax = 7 if tier == "quick" else rng.choice([7, 12, 20])
    kind = rng.choices(["cumsum", "inverse", "commute", "cumint"], [6, 1, 2, 2])[0]
    n_axes = 2 if kind == "commute" and rng.random() < 0.8 else None
    # axis names of any length (a plain string naming an axis is one name, not a sequence of letters)
    layout = Layout.random(rng, n_axes=n_axes, nmax=nmax, max_extra=2,
                           names=rng.choice([None, None, ["lon", "lat", "depth"], ["xi", "eta", "s_rho"]]))
    if kind == "commute" and len(layout.axes) < 2:
        kind = "cumsum"
    if kind == "inverse":
        for a in layout.axes:
            a["coords"].setdefault("outer", f"{a['name'].lower()}_o")
    ctor = {}
    r = rng.random()
    if r < 0.3:
        ctor["periodic"] = rng.choice([True, False])
    elif r < 0.6:
        ctor["boundary"] = rng.choice(RULES)
    else:
        ctor["boundary"] = {a["name"]: rng.choice(RULES) for a in layout.axes}
    if rng.random() < 0.4 and kind != "commute":
        ctor["fill_value"] = {a["name"]: fillv(rng) for a in layout.axes}
    present, dims = [], []
    for a in layout.axes:
        if kind in ("inverse", "cumint"):
            p = "center"
        else:
            p = rng.choice(list(a["coords"]))
        present.append((a["name"], p))
        dims.append((a["coords"][p], pos_len(a["n"], p)))
    for d, s in layout.extra:
        dims.append((d, s))
    rng.shuffle(dims)
    data = dyadic_array(rng, [s for _, s in dims])
    k = 2 if kind == "commute" else rng.randint(1, len(present))
    chosen = rng.sample(present, k)
    to_words = {}
    for aname, p in chosen:
        a = layout.axis(aname)
        cands = [q for q in a["coords"] if q != "center"] if p == "center" else ["center"]
        to_words[aname] = rng.choice(cands)
    if kind == "inverse":
        to_words = {a: "outer" for a, _ in chosen}
    if kind == "cumint":
        chosen = chosen[:1]
        to_words = {chosen[0][0]: to_words[chosen[0][0]]}
    axis = [a for a, _ in chosen]
    call = {"axis": axis, "to": dict(to_words) if rng.random() < 0.7 or kind != "cumsum" else None}
    if kind == "inverse":
        call["boundary"], call["fill_value"] = "fill", 0.0
    else:
        r = rng.random()
        if r < 0.4:
            call["boundary"] = rng.choice(RULES)
        elif r < 0.6:
            call["boundary"] = {a["name"]: rng.choice(RULES) for a in layout.axes if rng.random() < 0.6}
        if kind != "commute":
            r = rng.random()
            if r < 0.4:
                call["fill_value"] = fillv(rng)
            elif r < 0.6:
                call["fill_value"] = {a["name"]: fillv(rng) for a in layout.axes if rng.random() < 0.6}
    metric = None
    if kind == "cumint":
        aname = axis[0]
        n = layout.axis(aname)["n"]
        metric = [float(2 ** rng.randint(-2, 3)) for _ in range(n)]
    case = {"kind": kind, "layout": {"axes": layout.axes, "extra": layout.extra}, "ctor": ctor,
            "dims": [d for d, _ in dims], "data": data.tolist(), "call": call, "metric": metric}
    r = rng.random()
    if kind in ("cumsum", "cumint") and r < (0.08 if kind == "cumsum" else 0.25):
        case["dtype"] = "int64"            # integer-typed data with integral fill values (see c01)
        case["data"] = np.round(data).tolist()

        def integral(v):
            if isinstance(v, dict):
                return {k: float(round(x)) for k, x in v.items()}
            return v if v is None else float(round(v))
        for kw in (ctor, call):
            if "fill_value" in kw:
                kw["fill_value"] = integral(kw["fill_value"])
    elif kind == "cumsum" and r < 0.16:
        case["dtype"] = "float32"
    elif kind == "cumint" and r < 0.35:
        case["dtype"] = "bool"             # a mask: cumint accumulates the metric over the wet cells
        case["data"] = (np.asarray(data) > 0).astype(float).tolist()
    return case


def _steps(case):
    layout = Layout(case["layout"]["axes"], case["layout"]["extra"])
    out = []
    for aname in case["call"]["axis"]:
        a = layout.axis(aname)
        f = next((p for p, d in a["coords"].items() if d in case["dims"]), None)
        t = (case["call"].get("to") or {}).get(aname)
        if t is None and f is not None:
            order = {"center": ["left", "right", "outer", "inner"]}.get(f, ["center"])
            t = next((q for q in order if q in a["coords"]), None)
        out.append((f, t))
    return out


def agree(a, b):
    if a[0] != b[0]:
        return False
    if a[0] == "ok":
        return same_arr(a[1], b[1])
    return True


def short(r):
    if r[0] == "ok":
        return ["ok", r[1][0], r[1][1], [str(x) for x in r[1][2][:48]]]
    return list(r)


def eval_case(case, drv):
    layout = Layout(case["layout"]["axes"], [tuple(e) for e in case["layout"]["extra"]])
    ds = layout.dataset()
    call = case["call"]
    kind = case["kind"]
    import xgcm
    gkw = dict(case["ctor"])
    if kind == "cumint":
        aname = call["axis"][0]
        cdim = layout.axis(aname)["coords"]["center"]
        ds["dx"] = (cdim, np.array(case["metric"], dtype=float))
        gkw["metrics"] = {(aname,): ["dx"]}
    grid = xgcm.Grid(ds, coords=layout.coords_arg(), autoparse_metadata=False, **copy.deepcopy(gkw))
    da = xr.DataArray(np.array(case["data"], dtype=float).reshape([ds.sizes[d] for d in case["dims"]]).astype(
        case.get("dtype", "float64")),
                      dims=case["dims"], name="phi")
    kwargs = {k: copy.deepcopy(call[k]) for k in ("to", "boundary", "fill_value") if call.get(k) is not None}
    gaxes = grid_axes_for_driver(grid)
    axis = call["axis"]

    def model_req(values, dims, axes):
        return (f"{enc_grid(gaxes)} {enc_arr(dims, values)} {len(axes)} {' '.join(axes)} "
                f"{enc_kw(call.get('to'))} {enc_kw(call.get('boundary'))} "
                f"{enc_kw(call.get('fill_value'), enc_rat)}")

    detail = None
    branch = kind + ":" + "+".join(f"{f}>{t}" for f, t in _steps(case))
    if kind == "cumsum":
        try:
            res = grid.cumsum(da, axis if len(axis) > 1 else axis[0], **kwargs)
            impl = ("ok", canon_da(res))
        except Exception as e:  # noqa: BLE001
            impl = ("err", exc_kind(e))
        req = model_req(da.values, case["dims"], axis)
        model = parse_res(drv.ask("c09 " + req))
        spec = parse_res(drv.ask("c09spec " + req))
        corr_ok = agree(impl, model)
        prop_ok = agree(impl, spec if spec[0] == "ok" else ("err", None))
        if not (corr_ok and prop_ok):
            detail = {"impl": short(impl), "model": short(model), "spec": short(spec)}
        if impl[0] != "ok":
            branch = "refused:" + impl[1]
        return {"corr_ok": corr_ok, "prop_ok": prop_ok, "branch": branch, "detail": detail}
    if kind == "inverse":
        c = grid.cumsum(da, axis, **kwargs)
        back = grid.diff(c, axis, to="center", boundary="fill", fill_value=0.0)
        ok = same_arr(canon_da(back), canon_da(da))
        if not ok:
            detail = {"orig": short(("ok", canon_da(da))), "back": short(("ok", canon_da(back)))}
        return {"corr_ok": True, "prop_ok": ok, "branch": branch, "detail": detail}
    if kind == "commute":
        r1 = grid.cumsum(da, axis, **kwargs)
        r2 = grid.cumsum(da, axis[::-1], **kwargs)
        ok = same_arr(canon_da(r1), canon_da(r2.transpose(*r1.dims)))
        if not ok:
            detail = {"ab": short(("ok", canon_da(r1))), "ba": short(("ok", canon_da(r2)))}
        # also the model on both orders (correspondence)
        m1 = parse_res(drv.ask("c09 " + model_req(da.values, case["dims"], axis)))
        corr_ok = agree(("ok", canon_da(r1)), m1)
        if not corr_ok:
            detail = {"impl": short(("ok", canon_da(r1))), "model": short(m1)}
        return {"corr_ok": corr_ok, "prop_ok": ok, "branch": branch, "detail": detail}
    if kind == "cumint":
        aname = axis[0]
        try:
            res = grid.cumint(da, aname, **kwargs)
            impl = ("ok", canon_da(res))
        except Exception as e:  # noqa: BLE001
            impl = ("err", exc_kind(e))
        weighted = da * ds["dx"]
        weighted = weighted.transpose(*da.dims)
        model = parse_res(drv.ask("c09 " + model_req(weighted.values, case["dims"], [aname])))
        spec = parse_res(drv.ask("c09spec " + model_req(weighted.values, case["dims"], [aname])))
        corr_ok = agree(impl, model)
        prop_ok = agree(impl, spec if spec[0] == "ok" else ("err", None))
        t = (call.get("to") or {}).get(aname)
        if impl[0] == "ok" and t in ("outer", "right"):
            tdim = layout.axis(aname)["coords"][t]
            last = res.isel({tdim: -1})
            integ = grid.integrate(da, aname)
            ok2 = same_arr(canon_da(last.transpose(*integ.dims)), canon_da(integ))
            prop_ok = prop_ok and ok2
            if not ok2:
                detail = {"last": short(("ok", canon_da(last))), "integrate": short(("ok", canon_da(integ)))}
        if not (corr_ok and prop_ok) and detail is None:
            detail = {"impl": short(impl), "model": short(model), "spec": short(spec)}
        return {"corr_ok": corr_ok, "prop_ok": prop_ok, "branch": branch, "detail": detail}
    raise ValueError(kind)


def nontrivial(case, verdict):
    return case["kind"] != "cumsum" or any(st in LEAD for st in _steps(case))

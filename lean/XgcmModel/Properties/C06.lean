import XgcmModel.Model.Chunks
import XgcmModel.Gen.Regex
import XgcmModel.Proofs.C01
/-
  C06 — Lazy (dask) execution equals in-memory execution for every chunking.
  What a theorem can carry: the chunk algebra and the overlap decomposition.  That no computation is
  triggered while the result is built, and scheduler independence, are run-time facts of dask —
  monitored by the harness, not proved.
-/
namespace Xgcm.C06
open Xgcm

variable {α β : Type}

/-- merging keeps the number of chunks and accounts for exactly lo + hi extra cells -/
theorem merge_pattern (chunks : List Nat) (lo hi : Nat) (hne : chunks ≠ []) :
    (mergeChunks chunks lo hi).length = chunks.length ∧
    (mergeChunks chunks lo hi).sum = lo + chunks.sum + hi := by
  cases chunks with
  | nil => exact absurd rfl hne
  | cons c rest =>
    cases rest with
    | nil => simp [mergeChunks]
    | cons c2 r =>
      have hlen : ((c2 :: r).dropLast ++ [(c2 :: r).getLastD 0 + hi]).length = (c2 :: r).length := by
        simp
      have hsum : ((c2 :: r).dropLast ++ [(c2 :: r).getLastD 0 + hi]).sum = (c2 :: r).sum + hi := by
        have := List.dropLast_concat_getLast (l := c2 :: r) (by simp)
        have hs : (c2 :: r).sum = ((c2 :: r).dropLast).sum + (c2 :: r).getLast (by simp) := by
          conv => lhs; rw [← this]
          simp
        have hg : (c2 :: r).getLastD 0 = (c2 :: r).getLast (by simp) := by
          simp [List.getLastD, List.getLast?_eq_some_getLast]
        rw [List.sum_append, hg, hs]
        simp
        omega
      refine ⟨?_, ?_⟩
      · simp only [mergeChunks, List.length_cons] at hlen ⊢
        omega
      · simp only [mergeChunks, List.sum_cons] at hsum ⊢
        omega

theorem sten_length (d : Nat) (g : List α → β) (l : List α) : (sten d g l).length = l.length - d := by
  simp [sten]

/-- the splitting lemma: a window function over a line = over its first c + d cells, followed by
    the same over the line without its first c cells -/
theorem sten_split (d : Nat) (g : List α → β) (l : List α) (c : Nat) (h : c + d ≤ l.length) :
    sten d g l = sten d g (l.take (c + d)) ++ sten d g (l.drop c) := by
  apply List.ext_getElem
  · simp only [sten, List.length_map, List.length_range, List.length_append, List.length_take,
      List.length_drop]
    omega
  · intro i h1 h2
    simp only [sten, List.length_map, List.length_range] at h1
    by_cases hi : i < c
    · rw [List.getElem_append_left (by simp [sten]; omega)]
      simp only [sten, List.getElem_map, List.getElem_range]
      congr 1
      -- the window [i, i+d] lies inside the first c + d cells
      rw [List.drop_take, List.take_take]
      congr 1
      omega
    · rw [List.getElem_append_right (by simp [sten]; omega)]
      simp only [sten, List.getElem_map, List.getElem_range, List.length_map, List.length_range,
        List.length_take]
      congr 1
      rw [List.drop_drop]
      congr 2
      omega

/-- **The overlap decomposition computes what the undivided computation computes**, for EVERY
    composition of the line into chunks — size-1 chunks, uneven chunks, a single chunk — every
    window width and every window function. -/
theorem overlap_blocks_eq_global (d : Nat) (g : List α → β) (chunks : List Nat) (l : List α)
    (h : l.length = chunks.sum + d) : blockwise d g chunks l = sten d g l := by
  induction chunks generalizing l with
  | nil =>
    simp only [blockwise, sten]
    simp only [List.sum_nil, Nat.zero_add] at h
    simp [h]
  | cons c cs ih =>
    simp only [blockwise]
    simp only [List.sum_cons] at h
    rw [ih (l.drop c) (by simp [List.length_drop]; omega)]
    exact (sten_split d g l c (by omega)).symm

/-- each block returns exactly the cells of its ORIGINAL chunk (the explicit output chunks the wrapper
    declares): the `d` borrowed cells are consumed by the window -/
theorem block_output_is_chunk (d : Nat) (g : List α → β) (l : List α) (c : Nat) (h : c + d ≤ l.length) :
    (sten d g (l.take (c + d))).length = c := by
  simp [sten_length, List.length_take]; omega

/-- the forward two-point stencil every predefined kernel reduces to is a window function of width 2 -/
theorem fwd_eq_sten (op : α → α → β) (d0 : α) (l : List α) : fwd op l = sten 1 (win2 op d0) l := by
  apply List.ext_getElem
  · simp [sten]
  · intro k h1 h2
    have hk : k + 1 < l.length := by simp at h1; omega
    rw [fwd_getElem]
    simp only [sten, List.getElem_map, List.getElem_range, win2]
    congr 1
    · simp [List.getD_eq_getElem?_getD, List.getElem?_take, List.getElem?_drop]
      rw [List.getElem?_eq_getElem (by omega)]; rfl
    · simp [List.getD_eq_getElem?_getD, List.getElem?_take, List.getElem?_drop]
      rw [List.getElem?_eq_getElem (by omega)]; rfl

/-- **Every predefined kernel, run block by block over ANY chunking of the operated dimension,
    returns the documented line.**  For each operator and each valid shift that keeps the length
    (the ones admitted under map_overlap) the kernel selected from the regenerated table has the
    coordinate-derived widths lo + hi = 1 and the operator's normal-form body; its block-wise
    evaluation on the padded line over the merged pattern of any composition `chunks` of the n cells
    equals its undivided evaluation, which is the specification line of C01. -/
theorem predefined_kernels_blockwise (o : Ops α) (d0 : α) (fn : Func) (f t : Pos) (r : Rule) (fill : α)
    (hv : validShift f t = true) (hf : f ≠ .inner ∧ f ≠ .outer) (ht : t ≠ .inner ∧ t ≠ .outer)
    (chunks : List Nat) (xs : List α) (hn : 2 ≤ chunks.sum) (hx : xs.length = chunks.sum) :
    ∃ e, selectUfunc Gen.gridops fn.toString f t = .ok e ∧ e.lo + e.hi = 1 ∧
      e.body.eval o (pad1d r fill e.lo e.hi xs) =
        some (blockwise 1 (win2 (fn.op o) d0) chunks (pad1d r fill e.lo e.hi xs)) ∧
      blockwise 1 (win2 (fn.op o) d0) chunks (pad1d r fill e.lo e.hi xs) =
        specLine (fn.op o) r fill f t chunks.sum xs := by
  obtain ⟨e, hsel, hw, hb⟩ := select_valid fn f t hv
  have hlo : e.lo = (widthOf f t).1 := by rw [← hw]
  have hhi : e.hi = (widthOf f t).2 := by rw [← hw]
  have hsum : e.lo + e.hi = 1 := by
    rw [hlo, hhi]
    cases f <;> cases t <;> simp [validShift] at hv <;> simp [widthOf] <;> simp at hf ht
  have hlen : (pad1d r fill e.lo e.hi xs).length = chunks.sum + 1 := by
    simp [hx]; omega
  have hblk := overlap_blocks_eq_global 1 (win2 (fn.op o) d0) chunks (pad1d r fill e.lo e.hi xs) hlen
  have hxs : xs.length = f.len chunks.sum := by
    rw [hx]; cases f <;> simp [Pos.len] <;> simp at hf
  refine ⟨e, hsel, hsum, ?_, ?_⟩
  · rw [hb, eval_canonicalBody, hblk, fwd_eq_sten _ d0]
  · rw [hblk, ← fwd_eq_sten, hlo, hhi]
    exact fwd_pad_eq_spec (fn.op o) r fill f t chunks.sum xs hv hn hxs

/-- cutting a collection of lines into blocks and concatenating gives the collection back … -/
theorem splitBy_flatten (cs : List Nat) (l : List α) (h : l.length = cs.sum) :
    (splitBy cs l).flatten = l := by
  induction cs generalizing l with
  | nil => simp at h; simp [splitBy, h]
  | cons c cs ih =>
    simp only [splitBy, List.flatten_cons]
    rw [ih (l.drop c) (by simp at h ⊢; omega)]
    exact List.take_append_drop c l

/-- … so **a kernel that works line by line gives the same lines whether it is handed the whole
    collection or any chunking of the non-core dimensions, block by block** (dask="parallelized":
    chunks of the face dimension, of extra dimensions, of the other axes). -/
theorem parallelized_blocks_eq_global (k : List α → List β) (cs : List Nat) (rows : List (List α))
    (h : rows.length = cs.sum) :
    ((splitBy cs rows).map (List.map k)).flatten = rows.map k := by
  rw [← List.map_flatten, splitBy_flatten cs rows h]

/-- cumsum never goes through map_overlap; what a chunked running sum has to compute is the running
    sum of each block started from the total carried over from the blocks before it - and that IS the
    undivided running sum, for every cut -/
theorem cumsum_blocks_eq_global (o : Ops α) (acc : α) (l1 l2 : List α) :
    runningSum o acc (l1 ++ l2) = runningSum o acc l1 ++ runningSum o (l1.foldl o.add acc) l2 := by
  induction l1 generalizing acc with
  | nil => rfl
  | cons x r ih => simp [runningSum, ih]

/-- a position keeps the cell count exactly when it is not inner / outer … -/
theorem length_unchanged_iff (n : Nat) (p : Pos) :
    p.len n = n ↔ (p ≠ .inner ∨ n = 0) ∧ p ≠ .outer := by
  cases p <;> simp [Pos.len] <;> omega

/-- … and those are exactly the positions the source refuses under map_overlap
    (`DISALLOWED_OVERLAP_POSITIONS`, regenerated) -/
theorem refusal_list_is_length_changing :
    ∀ p : Pos, overlapAllowed Gen.disallowedOverlapPositions [p] = true ↔ (p ≠ .inner ∧ p ≠ .outer) := by
  intro p
  cases p <;> decide

/-- the dispatcher's decision: in-memory data → "forbidden"; dask data → "parallelized"; operated
    dimension chunked → "allowed" with map_overlap, except cumsum which never uses map_overlap -/
theorem dask_mode_decision (f : String) :
    daskMode false false f = ⟨"forbidden", false⟩ ∧ daskMode true false f = ⟨"parallelized", false⟩ ∧
    daskMode true true "cumsum" = ⟨"allowed", false⟩ ∧
    (f ≠ "cumsum" → daskMode true true f = ⟨"allowed", true⟩) := by
  refine ⟨rfl, rfl, by decide, ?_⟩
  intro hf
  simp [daskMode, hf]

/-- non-vacuity: uneven chunks with size-1 blocks -/
example : blockwise 1 (fun w : List Int => w.getD 1 0 - w.getD 0 0) [1, 3, 1] [0, 1, 3, 6, 10, 15] =
    sten 1 (fun w : List Int => w.getD 1 0 - w.getD 0 0) [0, 1, 3, 6, 10, 15] := by
  decide

/-- non-vacuity of `predefined_kernels_blockwise`: centre → left under the periodic rule, five cells
    chunked 1 + 3 + 1, and six lines cut 2 + 1 + 3 -/
example : validShift .center .left = true ∧ (2 : Nat) ≤ [1, 3, 1].sum ∧
    splitBy [2, 1, 3] [[1], [2], [3], [4], [5], [6]] = [[[1], [2]], [[3]], [[4], [5], [6]]] := by
  decide

end Xgcm.C06

import XgcmModel.Model.Chunks
import XgcmModel.Gen.Regex
/-
  C06 — Lazy (dask) execution equals in-memory execution for every chunking.
  What a theorem can carry: the chunk algebra and the overlap decomposition.  That no computation is
  triggered while the result is built, and scheduler independence, are run-time facts of dask —
  monitored by the harness, not proved.
-/
namespace Xgcm.C06
open Xgcm

variable {α β : Type}

/-- merging keeps the number of chunks and accounts for exactly lo + hi extra cells -/
theorem merge_pattern (chunks : List Nat) (lo hi : Nat) (hne : chunks ≠ []) :
    (mergeChunks chunks lo hi).length = chunks.length ∧
    (mergeChunks chunks lo hi).sum = lo + chunks.sum + hi := by
  cases chunks with
  | nil => exact absurd rfl hne
  | cons c rest =>
    cases rest with
    | nil => simp [mergeChunks]
    | cons c2 r =>
      have hlen : ((c2 :: r).dropLast ++ [(c2 :: r).getLastD 0 + hi]).length = (c2 :: r).length := by
        simp
      have hsum : ((c2 :: r).dropLast ++ [(c2 :: r).getLastD 0 + hi]).sum = (c2 :: r).sum + hi := by
        have := List.dropLast_concat_getLast (l := c2 :: r) (by simp)
        have hs : (c2 :: r).sum = ((c2 :: r).dropLast).sum + (c2 :: r).getLast (by simp) := by
          conv => lhs; rw [← this]
          simp
        have hg : (c2 :: r).getLastD 0 = (c2 :: r).getLast (by simp) := by
          simp [List.getLastD, List.getLast?_eq_some_getLast]
        rw [List.sum_append, hg, hs]
        simp
        omega
      refine ⟨?_, ?_⟩
      · simp only [mergeChunks, List.length_cons] at hlen ⊢
        omega
      · simp only [mergeChunks, List.sum_cons] at hsum ⊢
        omega

theorem sten_length (d : Nat) (g : List α → β) (l : List α) : (sten d g l).length = l.length - d := by
  simp [sten]

/-- the splitting lemma: a window function over a line = over its first c + d cells, followed by
    the same over the line without its first c cells -/
theorem sten_split (d : Nat) (g : List α → β) (l : List α) (c : Nat) (h : c + d ≤ l.length) :
    sten d g l = sten d g (l.take (c + d)) ++ sten d g (l.drop c) := by
  apply List.ext_getElem
  · simp only [sten, List.length_map, List.length_range, List.length_append, List.length_take,
      List.length_drop]
    omega
  · intro i h1 h2
    simp only [sten, List.length_map, List.length_range] at h1
    by_cases hi : i < c
    · rw [List.getElem_append_left (by simp [sten]; omega)]
      simp only [sten, List.getElem_map, List.getElem_range]
      congr 1
      -- the window [i, i+d] lies inside the first c + d cells
      rw [List.drop_take, List.take_take]
      congr 1
      omega
    · rw [List.getElem_append_right (by simp [sten]; omega)]
      simp only [sten, List.getElem_map, List.getElem_range, List.length_map, List.length_range,
        List.length_take]
      congr 1
      rw [List.drop_drop]
      congr 2
      omega

/-- **The overlap decomposition computes what the undivided computation computes**, for EVERY
    composition of the line into chunks — size-1 chunks, uneven chunks, a single chunk — every
    window width and every window function. -/
theorem overlap_blocks_eq_global (d : Nat) (g : List α → β) (chunks : List Nat) (l : List α)
    (h : l.length = chunks.sum + d) : blockwise d g chunks l = sten d g l := by
  induction chunks generalizing l with
  | nil =>
    simp only [blockwise, sten]
    simp only [List.sum_nil, Nat.zero_add] at h
    simp [h]
  | cons c cs ih =>
    simp only [blockwise]
    simp only [List.sum_cons] at h
    rw [ih (l.drop c) (by simp [List.length_drop]; omega)]
    exact (sten_split d g l c (by omega)).symm

/-- a position keeps the cell count exactly when it is not inner / outer … -/
theorem length_unchanged_iff (n : Nat) (p : Pos) :
    p.len n = n ↔ (p ≠ .inner ∨ n = 0) ∧ p ≠ .outer := by
  cases p <;> simp [Pos.len] <;> omega

/-- … and those are exactly the positions the source refuses under map_overlap
    (`DISALLOWED_OVERLAP_POSITIONS`, regenerated) -/
theorem refusal_list_is_length_changing :
    ∀ p : Pos, overlapAllowed Gen.disallowedOverlapPositions [p] = true ↔ (p ≠ .inner ∧ p ≠ .outer) := by
  intro p
  cases p <;> decide

/-- the dispatcher's decision: in-memory data → "forbidden"; dask data → "parallelized"; operated
    dimension chunked → "allowed" with map_overlap, except cumsum which never uses map_overlap -/
theorem dask_mode_decision (f : String) :
    daskMode false false f = ⟨"forbidden", false⟩ ∧ daskMode true false f = ⟨"parallelized", false⟩ ∧
    daskMode true true "cumsum" = ⟨"allowed", false⟩ ∧
    (f ≠ "cumsum" → daskMode true true f = ⟨"allowed", true⟩) := by
  refine ⟨rfl, rfl, by decide, ?_⟩
  intro hf
  simp [daskMode, hf]

/-- non-vacuity: uneven chunks with size-1 blocks -/
example : blockwise 1 (fun w : List Int => w.getD 1 0 - w.getD 0 0) [1, 3, 1] [0, 1, 3, 6, 10, 15] =
    sten 1 (fun w : List Int => w.getD 1 0 - w.getD 0 0) [0, 1, 3, 6, 10, 15] := by
  decide

end Xgcm.C06

import XgcmModel.Model.UFunc
import XgcmModel.Proofs.Pad
import XgcmModel.Proofs.Binding
import XgcmModel.Gen.Regex
import Mathlib.Data.List.Forall2
/-
  C11 — Grid ufuncs receive padded core dims last and return declared positions.
  `Gen.ufuncStoredOptions`, `Gen.ufuncCallTimeOptions`, `Gen.ufuncForwarded` are re-extracted
  from `GridUFunc.__init__` / `__call__` on every run.
-/
namespace Xgcm.C11
open Xgcm

variable {α : Type}

/-- **Bound options act as if passed at call time, and call-time values override them**: every
    option `GridUFunc.__init__` stores is read back in `__call__` (with the stored value as the
    default) and the value so obtained — not the stored attribute — is what is forwarded. -/
theorem option_override :
    Gen.ufuncStoredOptions.all (fun o =>
      Gen.ufuncCallTimeOptions.contains o && Gen.ufuncForwarded.contains (o, o)) = true ∧
    ["boundary_width", "boundary", "fill_value", "dask", "map_overlap", "pad_before_func"].all
      (fun o => Gen.ufuncStoredOptions.contains o) = true := by
  decide +kernel

theorem effective_spec {β : Type} (bound : β) (v : β) :
    effective (some v) bound = v ∧ effective none bound = bound := ⟨rfl, rfl⟩

/-- **Core dimensions are the trailing dimensions, in signature order**, and everything else keeps
    its relative order; padding does not rename or reorder dimensions. -/
theorem received_dims (g : GridM α) (arg r : NDArr α) (core : List String)
    (widths : List (String × Nat × Nat)) (b : KW String) (f : KW α) (padBefore : Bool)
    (h : receivedOf g arg core widths b f padBefore = .ok r) :
    ∃ padded, (if padBefore then padGrid g arg widths b f else .ok arg) = .ok padded ∧
      r.dims = padded.dims.filter (fun d => !core.contains d) ++ core ∧
      ∀ idx, r.get idx = padded.get (padded.dims.map (fun d =>
        idx.getD ((padded.dims.filter (fun d => !core.contains d) ++ core).idxOf d) 0)) := by
  unfold receivedOf at h
  split at h
  · cases h
  · rename_i padded hp
    cases h
    exact ⟨padded, hp, rfl, fun idx => rfl⟩

/-- the dimensions of a padded array are those of the input (so the non-core dimensions of what
    the function receives are the input's own, in the input's order) -/
theorem padGrid_dims (g : GridM α) (a p : NDArr α) (widths : List (String × Nat × Nat))
    (b : KW String) (f : KW α) (h : padGrid g a widths b f = .ok p) : p.dims = a.dims := by
  unfold padGrid at h
  split at h
  · cases h
  · split at h
    · cases h; rfl
    · simp only [bind, Except.bind] at h
      split at h
      · cases h
      · cases h
        exact padSeq_dims _ _

theorem substList_spec (m : List (String × String)) (l ws : List (String × Nat × Nat))
    (h : substList m l = some ws) :
    ws.length = l.length ∧
    ∀ i (hi : i < ws.length) (hi' : i < l.length), alookup (l[i]).1 m = some (ws[i]).1 ∧ (ws[i]).2 = (l[i]).2 := by
  induction l generalizing ws with
  | nil =>
    simp only [substList, Option.some.injEq] at h
    subst h
    exact ⟨rfl, fun i hi => by simp at hi⟩
  | cons w rest ih =>
    simp only [substList] at h
    cases hw : alookup w.1 m with
    | none => simp [hw] at h
    | some r =>
      cases hr : substList m rest with
      | none => simp [hw, hr] at h
      | some ws' =>
        simp only [hw, hr, Option.some.injEq] at h
        subst h
        obtain ⟨hl, hel⟩ := ih ws' hr
        refine ⟨by simp [hl], ?_⟩
        intro i hi hi'
        cases i with
        | zero => simp [hw]
        | succ i =>
          simp only [List.getElem_cons_succ]
          exact hel i (by simpa using hi) (by simpa using hi')

theorem substList_none (m : List (String × String)) (l : List (String × Nat × Nat))
    (h : ∃ w ∈ l, alookup w.1 m = none) : substList m l = none := by
  induction l with
  | nil => obtain ⟨w, hw, _⟩ := h; simp at hw
  | cons a rest ih =>
    obtain ⟨w, hw, hnone⟩ := h
    simp only [substList]
    rcases List.mem_cons.mp hw with rfl | hmem
    · simp [hnone]
    · rw [ih ⟨w, hmem, hnone⟩]
      cases alookup a.1 m <;> rfl

/-- **Dummy names in boundary_width are replaced by the real axes they are bound to**, widths
    and order kept; a dummy name that is not in the signature is refused. -/
theorem boundary_width_substitution (l : List (String × Nat × Nat)) (m : List (String × String))
    (hne : l ≠ []) :
    (∀ ws, substituteWidths (some l) m = .ok ws →
      ws.length = l.length ∧
      ∀ i (hi : i < ws.length) (hi' : i < l.length), alookup (l[i]).1 m = some (ws[i]).1 ∧ (ws[i]).2 = (l[i]).2) ∧
    ((∃ w ∈ l, alookup w.1 m = none) → substituteWidths (some l) m = .error .key) := by
  have hemp : l.isEmpty = false := by cases l <;> simp_all
  constructor
  · intro ws h
    simp only [substituteWidths, hemp, Bool.false_eq_true, if_false] at h
    cases hs : substList m l with
    | none => simp [hs] at h
    | some ws' =>
      simp only [hs, Except.ok.injEq] at h
      subst h
      exact substList_spec m l ws' hs
  · intro h
    simp [substituteWidths, hemp, substList_none m l h]

/-- **Inputs that are not on the positions the signature names are rejected** (before anything
    is padded or the function is called). -/
theorem off_position_refused (g : GridM α) (sig : USig) (args : List (NDArr α))
    (axis : List (List String)) (bw : Option (List (String × Nat × Nat))) (b : KW String) (f : KW α)
    (pb : Bool) (hbad : positionsOk g axis (sig.ins.map (fun a => a.map (·.2))) (args.map (·.dims)) = false) :
    ∃ e, applyGridUfunc g sig args axis bw b f pb = .error e := by
  unfold applyGridUfunc
  simp only [bind, Except.bind, pure, Except.pure]
  split
  · exact ⟨_, rfl⟩
  · split
    · exact ⟨_, rfl⟩
    · split
      · exact ⟨_, rfl⟩
      · simp only [hbad, Bool.false_eq_true, not_false_eq_true, if_true]
        exact ⟨_, rfl⟩

/-- success of a `mapM` in the error monad: every element was mapped successfully, in order -/
theorem mapM_ok_forall₂ {β γ : Type} (f : β → Except Err γ) (l : List β) (r : List γ)
    (h : l.mapM f = .ok r) : List.Forall₂ (fun a b => f a = .ok b) l r := by
  induction l generalizing r with
  | nil =>
    simp only [List.mapM_nil, pure, Except.pure] at h
    cases h; exact List.Forall₂.nil
  | cons a t ih =>
    rw [List.mapM_cons] at h
    simp only [bind, Except.bind, pure, Except.pure] at h
    cases hfa : f a with
    | error e => rw [hfa] at h; cases h
    | ok b =>
      rw [hfa] at h
      cases ht : t.mapM f with
      | error e => rw [ht] at h; cases h
      | ok rt =>
        rw [ht] at h
        cases h
        exact List.Forall₂.cons hfa (ih rt ht)

/-- **What comes back lives on the dimensions of the output positions**: when a call is answered,
    there is one entry per declared output, and the j-th core dimension of output i is the grid's
    dimension for (the real axis bound to the j-th dummy name of output i, its declared position). -/
theorem outputs_on_declared_positions (g : GridM α) (sig : USig) (args : List (NDArr α))
    (axis : List (List String)) (bw : Option (List (String × Nat × Nat))) (b : KW String) (f : KW α)
    (pb : Bool) (c : UCall α) (h : applyGridUfunc g sig args axis bw b f pb = .ok c) :
    ∃ (m : List (String × String)) (outNames : List (List String)),
      identifyAxes (sig.ins.map (fun a => a.map (·.1))) axis = .ok m ∧
      List.Forall₂ (fun (a : List (String × Pos)) (names : List String) =>
        List.Forall₂ (fun (np : String × Pos) r => alookup np.1 m = some r) a names) sig.outs outNames ∧
      List.Forall₂ (fun (ap : List String × List Pos) (ds : List String) =>
        List.Forall₂ (fun (np : String × Pos) d => dimOf g np.1 np.2 = .ok d) (List.zip ap.1 ap.2) ds)
        (List.zip outNames (sig.outs.map (fun a => a.map (·.2)))) c.outDims := by
  unfold applyGridUfunc at h
  simp only [bind, Except.bind, pure, Except.pure] at h
  split at h
  · cases h
  · split at h
    · cases h
    · rename_i m hm
      split at h
      · cases h
      · rename_i outNames hn
        split at h
        · cases h
        · split at h
          · cases h
          · split at h
            · cases h
            · rename_i outCore hoc
              split at h
              · cases h
              · split at h
                · cases h
                · cases h
                  refine ⟨m, outNames, hm, ?_, ?_⟩
                  · have := mapM_ok_forall₂ _ _ _ hn
                    refine this.imp (fun a names ha => ?_)
                    have h2 := mapM_ok_forall₂ _ _ _ ha
                    refine h2.imp (fun np r hr => ?_)
                    split at hr
                    · rename_i r' hr'; cases hr; exact hr'
                    · cases hr
                  · have := mapM_ok_forall₂ _ _ _ hoc
                    exact this.imp (fun ap ds hap => mapM_ok_forall₂ _ _ _ hap)

/-- a mismatch in the number of data arguments / axis entries is refused -/
theorem arity_refused (g : GridM α) (sig : USig) (args : List (NDArr α))
    (axis : List (List String)) (bw : Option (List (String × Nat × Nat))) (b : KW String) (f : KW α)
    (pb : Bool) (h : args.length ≠ axis.length) :
    applyGridUfunc g sig args axis bw b f pb = .error .value := by
  unfold applyGridUfunc
  simp [h, bind, Except.bind, throw, throwThe, MonadExceptOf.throw]

/-- **Dummy names are bound to real axes in order of first appearance** — by definition of the
    model: the k-th distinct dummy name (reading the inputs left to right) is bound to the k-th
    distinct real axis name of the `axis` argument; the call is refused when the argument counts, the
    per-argument lengths or the numbers of distinct names differ. -/
theorem binding_first_appearance (sigIn axis : List (List String)) (m : List (String × String))
    (h : identifyAxes sigIn axis = .ok m) :
    m = (dedup sigIn.flatten).zip (dedup axis.flatten) ∧ axis.length = sigIn.length ∧
      (dedup sigIn.flatten).length = (dedup axis.flatten).length := by
  unfold identifyAxes at h
  split at h
  · cases h
  · rename_i h1
    split at h
    · cases h
    · simp only [] at h
      split at h
      · cases h
      · rename_i h3
        cases h
        exact ⟨rfl, Classical.not_not.mp h1, Classical.not_not.mp h3⟩

open Xgcm.Binding in
/-- **Every consistent binding is honoured**: if the `axis` argument is the image of the signature's
    dummy names under ANY assignment σ of real axes to dummy names that sends different dummy names
    to different axes (any number of inputs, any number of axes per input, any repetition pattern),
    the call is accepted and every dummy name that occurs is bound to exactly σ of it. -/
theorem binding_is_the_assignment (sigIn : List (List String)) (σ : String → String)
    (hσ : InjOn σ sigIn.flatten) :
    ∃ m, identifyAxes sigIn (sigIn.map (List.map σ)) = .ok m ∧
      ∀ d ∈ sigIn.flatten, alookup d m = some (σ d) := by
  refine ⟨(dedup sigIn.flatten).map (fun d => (d, σ d)), ?_, ?_⟩
  · unfold identifyAxes
    simp only [List.length_map, ne_eq, not_true_eq_false, if_false, zip_any_len, Bool.false_eq_true,
      flatten_map_map, dedup_map σ _ hσ, zip_map_self]
  · intro d hd
    apply alookup_graph
    exact mem_dedupAux [] _ d hd (by simp)

/-- non-vacuity: binding by order of first appearance -/
example : (identifyAxes [["a", "b"], ["b"]] [["X", "Y"], ["Y"]]).toOption = some [("a", "X"), ("b", "Y")] ∧
    (identifyAxes [["a", "b"], ["a"]] [["X", "Y"], ["Y"]]).toOption = some [("a", "X"), ("b", "Y")] := by
  decide +kernel

end Xgcm.C11

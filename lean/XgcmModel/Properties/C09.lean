import XgcmModel.Proofs.Cumsum
import XgcmModel.Proofs.CumsumComm
import Mathlib.Algebra.Ring.Rat
import XgcmModel.Proofs.C01
import XgcmModel.Gen.GridDefaults
import XgcmModel.Model.RatOps
import XgcmModel.Proofs.MetricOps
/-
  C09 — cumsum is the running sum at the shifted position and inverts diff.
  `Gen.cumsumTable` is regenerated from the if/elif chain of `Grid.cumsum`
  on every run; `Gen.gridops` from gridops.py.
-/
namespace Xgcm.C09
open Xgcm

variable {α : Type}

/-- the generated (from, to) ↦ (trim, widths) table is the coordinate-derived
    one on the 8 valid shifts and has no entry for the 17 other pairs -/
theorem table_sound (f t : Pos) :
    alookup (f, t) Gen.cumsumTable =
      if validShift f t then some (cumsumEntrySpec f t) else none := by
  cases f <;> cases t <;> decide

/-- **Line theorem.**  For each of the 8 shifts, every rule and fill value,
    every n ≥ 2 and all data: `Grid.cumsum`'s running-sum / trim / pad along a
    line yields at every target point the sum of the inputs lying before it,
    the leading value of a target that precedes every input being the fill
    value / the nearest value / the wrapped last value. -/
theorem cumsum_eq_prefix_spec (o : Ops α) (f t : Pos) (hv : validShift f t = true) (n : Nat)
    (hn : 2 ≤ n) (r : Rule) (fill : α) (xs : List α) (hx : xs.length = f.len n) :
    cumsumLine o Gen.cumsumTable f t r fill xs = .ok (specCumsumLine o r fill f t n xs) := by
  unfold cumsumLine
  rw [table_sound, hv]
  simp only [if_true]
  rw [← cumsum_core o f t hv n hn r fill xs hx]

/-- every other position pair is refused -/
theorem invalid_shift_refused (o : Ops α) (f t : Pos) (hv : validShift f t = false)
    (r : Rule) (fill : α) (xs : List α) :
    cumsumLine o Gen.cumsumTable f t r fill xs = .error .value := by
  unfold cumsumLine
  rw [table_sound, hv]
  rfl

/-- **diff ∘ cumsum(to outer, fill 0) = id**, for every n ≥ 2 and all data, in
    any arithmetic where `(a + b) - a = b`. -/
theorem diff_cumsum_outer_zero (o : Ops α) (hlaw : ∀ a b, o.sub (o.add a b) a = b)
    (n : Nat) (hn : 2 ≤ n) (xs : List α) (hx : xs.length = n) (r' : Rule) (fill' : α) :
    ∃ c e, cumsumLine o Gen.cumsumTable .center .outer .fill o.zero xs = .ok c ∧
      selectUfunc Gen.gridops "diff" .outer .center = .ok e ∧
      op1d o e r' fill' c = some xs := by
  obtain ⟨e, hsel, hw, hb⟩ := select_valid Func.diff .outer .center (by decide)
  have hlo : e.lo = 0 := by have := congrArg Prod.fst hw; simpa [widthOf] using this
  have hhi : e.hi = 0 := by have := congrArg Prod.snd hw; simpa [widthOf] using this
  refine ⟨_, e, cumsum_eq_prefix_spec o .center .outer (by decide) n hn .fill o.zero xs
    (by simpa [Pos.len] using hx), hsel, ?_⟩
  simp only [op1d, hb, hlo, hhi, pad1d_zero, eval_canonicalBody, Option.some.injEq]
  apply List.ext_getElem
  · simp [specCumsumLine, Pos.len, hx]
  · intro k h1 h2
    rw [fwd_getElem]
    simp only [specCumsumLine, List.getElem_map, List.getElem_range, specCumsumAt,
      before_isEmpty .center .outer (by decide), specSumBefore_eq o .center .outer (by decide), cnt,
      Func.op]
    have hk : k < xs.length := h2
    have hm1 : min xs.length (k + 1) = k + 1 := by omega
    have hm0 : min xs.length k = k := by omega
    have hne : ¬ (k + 1 = 0) := by omega
    simp only [hm1, hm0, hne, decide_false, Bool.false_eq_true, if_false]
    have hpre : pre o xs (k + 1) = o.add (pre o xs k) xs[k] := by
      unfold pre
      have ht : xs.take (k + 1) = xs.take k ++ [xs[k]] := by
        rw [List.take_add_one, List.getElem?_eq_getElem hk]; rfl
      rw [ht, List.foldl_append]; rfl
    by_cases hk0 : k = 0
    · subst hk0
      simp only [decide_true, if_true]
      rw [hpre]
      have : pre o xs 0 = o.zero := rfl
      rw [this, hlaw]
    · simp only [hk0, decide_false, Bool.false_eq_true, if_false]
      rw [hpre, hlaw]

/-- **cumint's last value on outer and right targets is the integral**: at the
    last target point every input lies before it, so the value is the sum of
    all inputs (cumint feeds data × metric, integrate sums data × metric). -/
theorem last_value_is_total (o : Ops α) (t : Pos) (ht : t = .outer ∨ t = .right) (n : Nat)
    (hn : 2 ≤ n) (r : Rule) (fill : α) (xs : List α) (hx : xs.length = n) :
    specCumsumAt o r fill .center t n xs (t.len n - 1) = pre o xs xs.length := by
  have hv : validShift .center t = true := by rcases ht with h | h <;> subst h <;> decide
  simp only [specCumsumAt, before_isEmpty .center t hv, specSumBefore_eq o .center t hv]
  rcases ht with h | h <;> subst h <;> simp only [cnt, Pos.len]
  · have hne : ¬ (min xs.length (n + 1 - 1) = 0) := by omega
    simp only [hne, decide_false, Bool.false_eq_true, if_false]
    congr 1; omega
  · have hne : ¬ (min xs.length (n - 1 + 1) = 0) := by omega
    simp only [hne, decide_false, Bool.false_eq_true, if_false]
    congr 1; omega

/-- `cumint` feeds data × metric to cumsum, `integrate` sums data × metric: **the last value of
    cumint on outer and right targets is the integral** — for every cell count, every (non-uniform)
    metric, every boundary rule and fill value. -/
theorem cumint_last_is_integrate {K : Type} [Field K] (o : Ops K) (hadd : ∀ a b, o.add a b = a + b)
    (hzero : o.zero = 0) (t : Pos) (ht : t = .outer ∨ t = .right) (n : Nat) (hn : 2 ≤ n)
    (r : Rule) (fill : K) (data metric : List K) (hd : data.length = n) (hm : metric.length = n) :
    specCumsumAt o r fill .center t n
        (cumintLine id data metric) (t.len n - 1) = integrateCells (data.zip metric) := by
  have hx : (cumintLine id data metric).length = n := by simp [cumintLine, hd, hm]
  rw [last_value_is_total o t ht n hn r fill _ hx]
  have hfun : o.add = (· + ·) := by funext x y; exact hadd x y
  have hfull : ∀ xs : List K, pre o xs xs.length = xs.sum := by
    intro xs
    unfold pre
    rw [List.take_length, hfun, hzero]
    have : ∀ (acc : K) (l : List K), l.foldl (· + ·) acc = acc + l.sum := by
      intro acc l
      induction l generalizing acc with
      | nil => simp
      | cons a r ih => simp only [List.foldl_cons, List.sum_cons, ih]; ring
    rw [this]; simp
  rw [hfull]
  have hz : ∀ (d m : List K), (List.zipWith (· * ·) d m).sum = integrateCells (d.zip m) := by
    intro d
    induction d with
    | nil => intro m; simp [integrateCells]
    | cons a r ih =>
      intro m
      cases m with
      | nil => simp [integrateCells]
      | cons b q =>
        have := ih q
        simp only [integrateCells] at this
        simp [integrateCells, this]
  exact hz data metric

/-- **cumsum over two axes does not depend on their order** when no non-zero
    fill value is in force: for every 2-D slice `g` (sizes a × b) through the
    array, every pair of shifts, every pair of rules (fill only with value 0),
    at every target point (k, l). -/
theorem cumsum_axes_commute {β : Type} [AddCommMonoid β] (o : Ops β)
    (hadd : ∀ x y, o.add x y = x + y) (hzero : o.zero = 0)
    (g : Nat → Nat → β) (a b : Nat)
    (r1 r2 : Rule) (fill1 fill2 : β) (h1 : r1 = .fill → fill1 = o.zero) (h2 : r2 = .fill → fill2 = o.zero)
    (f1 t1 f2 t2 : Pos) (hv1 : validShift f1 t1 = true) (hv2 : validShift f2 t2 = true)
    (n1 n2 : Nat) (k l : Nat) :
    specCumsumAt o r2 fill2 f2 t2 n2
        ((List.range b).map (fun j =>
          specCumsumAt o r1 fill1 f1 t1 n1 ((List.range a).map (fun i => g i j)) k)) l
    =
    specCumsumAt o r1 fill1 f1 t1 n1
        ((List.range a).map (fun i =>
          specCumsumAt o r2 fill2 f2 t2 n2 ((List.range b).map (fun j => g i j)) l)) k :=
  cumsum_two_axes_commute o hadd hzero g a b r1 r2 fill1 fill2 h1 h2 f1 t1 f2 t2 hv1 hv2 n1 n2 k l

/-- the arithmetic the driver runs is an instance -/
theorem ratOps_is_monoid_ops : (∀ x y : Rat, ratOps.add x y = x + y) ∧ ratOps.zero = 0 :=
  ⟨fun _ _ => rfl, rfl⟩

/-- … and the exception is real: with fill value 1, centre→outer on a 2 × 2
    array of zeros, the two orders differ at target (0, 2) -/
theorem nonzero_fill_breaks_commutation :
    let g : Nat → Nat → Rat := fun _ _ => 0
    specCumsumAt ratOps .fill 1 .center .outer 2
        ((List.range 2).map (fun j =>
          specCumsumAt ratOps .fill 1 .center .outer 2 ((List.range 2).map (fun i => g i j)) 0)) 2
    ≠
    specCumsumAt ratOps .fill 1 .center .outer 2
        ((List.range 2).map (fun i =>
          specCumsumAt ratOps .fill 1 .center .outer 2 ((List.range 2).map (fun j => g i j)) 2)) 0 := by
  decide +kernel

/-- the exact-rational arithmetic the driver runs satisfies the law used above -/
theorem ratOps_law : ∀ a b : Rat, ratOps.sub (ratOps.add a b) a = b := by
  intro a b
  show a + b - a = b
  rw [Rat.add_comm, Rat.add_sub_cancel]

/-- non-vacuity -/
example : validShift .center .outer = true ∧ (2 : Nat) ≤ 3 ∧ ([5, 7, 9] : List Rat).length = 3 := by
  decide

end Xgcm.C09

import XgcmModel.Model.Metrics
/-
  C16 — The metric registry reflects exactly what was registered, in any batching.
-/
namespace Xgcm.C16
open Xgcm

/-- a variable "occupies the slot" of `v` in `lst` when one with the same dimensions is there -/
def occupied (lst : List MVar) (v : MVar) : Bool := lst.any (fun ve => sameSet ve.dims v.dims)

/-- **Single registration.**  Free slot: appended.  Occupied slot with overwrite: replaced in
    place.  Occupied slot without overwrite: refused, and the list is exactly as it was. -/
theorem register_one (lst : List MVar) (v : MVar) (ow : Bool) :
    (occupied lst v = false → regOne lst v ow = .ok (lst ++ [v])) ∧
    (occupied lst v = true → ow = true →
      regOne lst v ow = .ok (lst.map (fun ve => if sameSet ve.dims v.dims then v else ve))) ∧
    (occupied lst v = true → ow = false → regMany lst [v] ow = (lst, some .value)) := by
  unfold occupied
  refine ⟨fun h => by simp [regOne, h], fun h ho => by simp [regOne, h, ho], fun h ho => ?_⟩
  simp [regMany, regOne, h, ho]

/-- after a successful registration the slot holds the new variable (latest wins) -/
theorem latest_wins (lst lst' : List MVar) (v : MVar) (ow : Bool) (h : regOne lst v ow = .ok lst')
    (hrefl : sameSet v.dims v.dims = true) :
    ∀ ve ∈ lst', sameSet ve.dims v.dims = true → ve = v := by
  unfold regOne at h
  split at h
  · split at h
    · cases h
      intro ve hve hs
      simp only [List.mem_map] at hve
      obtain ⟨w, _, hw⟩ := hve
      by_cases hc : sameSet w.dims v.dims = true
      · simp [hc] at hw; exact hw.symm
      · simp [hc] at hw; subst hw; exact absurd hs hc
    · cases h
  · rename_i hno
    cases h
    intro ve hve hs
    simp only [List.mem_append, List.mem_singleton] at hve
    rcases hve with hve | hve
    · exfalso
      apply hno
      simp only [List.any_eq_true]
      exact ⟨ve, hve, hs⟩
    · exact hve

/-- a call with several variables = the same variables one call after the other, in any grouping
    (as long as no refusal intervenes; after a refusal the state is what had been done so far) -/
theorem regMany_append (lst : List MVar) (vs1 vs2 : List MVar) (ow : Bool) :
    regMany lst (vs1 ++ vs2) ow =
      (match regMany lst vs1 ow with
       | (l1, none) => regMany l1 vs2 ow
       | (l1, some e) => (l1, some e)) := by
  induction vs1 generalizing lst with
  | nil => simp [regMany]
  | cons v rest ih =>
    simp only [List.cons_append, regMany]
    cases h : regOne lst v ow with
    | ok l' => simp only [ih l']
    | error e => rfl

/-- variables at pairwise different positions, none of them occupying a slot of `lst` -/
def Fresh (lst vs : List MVar) : Prop :=
  (∀ v ∈ vs, occupied lst v = false) ∧
  vs.Pairwise (fun a b => sameSet a.dims b.dims = false ∧ sameSet b.dims a.dims = false)

theorem regMany_fresh (lst vs : List MVar) (ow : Bool) (h : Fresh lst vs) :
    regMany lst vs ow = (lst ++ vs, none) := by
  induction vs generalizing lst with
  | nil => simp [regMany]
  | cons v rest ih =>
    obtain ⟨h1, h2⟩ := h
    have hv : occupied lst v = false := h1 v (by simp)
    have hp := List.pairwise_cons.mp h2
    simp only [regMany, regOne]
    unfold occupied at hv
    simp only [hv, Bool.false_eq_true, if_false]
    rw [ih (lst ++ [v]) ⟨?_, hp.2⟩]
    · simp
    · intro w hw
      unfold occupied
      simp only [List.any_append, List.any_cons, List.any_nil, Bool.or_false, Bool.or_eq_false_iff]
      refine ⟨h1 w (by simp [hw]), (hp.1 w hw).1⟩

theorem set_find_self (r : Registry) (key : List String) (v : List MVar)
    (hrefl : sameSet key key = true) : (r.set key v).find? key = some v := by
  unfold Registry.set Registry.find?
  split
  · rename_i hany
    induction r with
    | nil => simp at hany
    | cons e rest ih =>
      simp only [List.map_cons, List.find?_cons]
      by_cases he : sameSet e.1 key = true
      · simp [he]
      · simp only [he, Bool.false_eq_true, if_false]
        have : rest.any (fun e => sameSet e.1 key) = true := by
          simpa [he] using hany
        exact ih this
  · rename_i hany
    rw [List.find?_append]
    have : List.find? (fun (e : List String × List MVar) => sameSet e.1 key) r = none := by
      rw [List.find?_eq_none]
      intro e he hc
      apply hany
      simp only [List.any_eq_true]
      exact ⟨e, he, hc⟩
    simp [this, hrefl]

theorem set_set (r : Registry) (key : List String) (v w : List MVar)
    (hrefl : sameSet key key = true) : (r.set key v).set key w = r.set key w := by
  unfold Registry.set
  by_cases hany : r.any (fun e => sameSet e.1 key) = true
  · have h2 : (r.map (fun e => if sameSet e.1 key = true then (e.1, v) else e)).any
        (fun e => sameSet e.1 key) = true := by
      simp only [List.any_map, List.any_eq_true] at hany ⊢
      obtain ⟨e, he, hc⟩ := hany
      exact ⟨e, he, by simp [hc]⟩
    simp only [hany, if_true, h2, List.map_map]
    apply List.map_congr_left
    intro e _
    by_cases hc : sameSet e.1 key = true <;> simp [hc]
  · have h2 : (r ++ [(key, v)]).any (fun e => sameSet e.1 key) = true := by
      simp [hrefl]
    simp only [hany, Bool.false_eq_true, if_false, h2, if_true, List.map_append, List.map_cons,
      List.map_nil, hrefl]
    congr 1
    have : ∀ e ∈ r, (if sameSet e.1 key = true then (e.1, w) else e) = e := by
      intro e he
      have : ¬ (sameSet e.1 key = true) := by
        intro hc; apply hany; simp only [List.any_eq_true]; exact ⟨e, he, hc⟩
      simp [this]
    rw [List.map_congr_left this]
    simp

/-- **Batching.**  Registering `ns1 ++ ns2` in one call leaves the registry and gives the outcome
    of registering `ns1` and then, unless that was refused, `ns2` — for an axis set that already
    has metrics (any variables), and for a new axis set (variables at pairwise different positions). -/
theorem batching (gridAxes : List String) (dsVars : List MVar) (r : Registry) (key : List String)
    (ns1 ns2 : List String) (vs1 vs2 : List MVar) (ow : Bool)
    (hkey : key.all (gridAxes.contains ·) = true) (hrefl : sameSet key key = true)
    (h1 : ns1.mapM (fun n => dsVars.find? (fun v => v.name == n)) = some vs1)
    (h2 : ns2.mapM (fun n => dsVars.find? (fun v => v.name == n)) = some vs2)
    (hfresh : r.find? key = none → Fresh vs1 vs2) :
    setMetrics gridAxes dsVars r key (ns1 ++ ns2) ow =
      (match setMetrics gridAxes dsVars r key ns1 ow with
       | (r1, none) => setMetrics gridAxes dsVars r1 key ns2 ow
       | (r1, some e) => (r1, some e)) := by
  have h12 : (ns1 ++ ns2).mapM (fun n => dsVars.find? (fun v => v.name == n)) = some (vs1 ++ vs2) := by
    rw [List.mapM_append, h1, h2]; rfl
  unfold setMetrics
  simp only [hkey, not_true, if_false, h12, h1]
  cases hf : r.find? key with
  | some lst =>
    simp only [regMany_append]
    cases hm : regMany lst vs1 ow with
    | mk l1 e1 =>
      cases e1 with
      | some e => rfl
      | none =>
        simp only [hkey, not_true, if_false, h2, set_find_self r key l1 hrefl, set_set r key _ _ hrefl]
  | none =>
    simp only [hkey, not_true, if_false, h2, set_find_self r key vs1 hrefl, set_set r key _ _ hrefl]
    rw [regMany_fresh vs1 vs2 ow (hfresh hf)]

/-- **A refused registration leaves the registry as it was** (single-variable call). -/
theorem refusal_preserves (gridAxes : List String) (dsVars : List MVar) (r : Registry)
    (key : List String) (n : String) (v : MVar) (lst : List MVar)
    (hkey : key.all (gridAxes.contains ·) = true)
    (hv : dsVars.find? (fun w => w.name == n) = some v) (hf : r.find? key = some lst)
    (hocc : occupied lst v = true) (hset : r.set key lst = r) :
    setMetrics gridAxes dsVars r key [n] false = (r, some .value) := by
  unfold setMetrics
  have hm : [n].mapM (fun n => dsVars.find? (fun v => v.name == n)) = some [v] := by
    simp [List.mapM_cons, hv]
  simp only [hkey, not_true, if_false, hm, hf]
  have := (register_one lst v false).2.2 hocc rfl
  rw [this]
  simp [hset]

/-! ### the invariant behind "each (axes, position) slot holds ONE variable" -/

/-- no two variables of one axis set sit on the same set of dimensions -/
def Distinct (lst : List MVar) : Prop := lst.Pairwise (fun a b => sameSet a.dims b.dims = false)

theorem sameSet_symm (a b : List String) : sameSet a b = sameSet b a := by
  simp [sameSet, Bool.and_comm]

theorem sameSet_trans (a b c : List String) (h1 : sameSet a b = true) (h2 : sameSet b c = true) :
    sameSet a c = true := by
  simp only [sameSet, Bool.and_eq_true, List.all_eq_true, List.contains_iff_mem] at *
  exact ⟨fun x hx => h2.1 x (h1.1 x hx), fun x hx => h1.2 x (h2.2 x hx)⟩

/-- one registration keeps the slots distinct, whether it appends or replaces -/
theorem regOne_distinct (lst lst' : List MVar) (v : MVar) (ow : Bool) (h : Distinct lst)
    (hr : regOne lst v ow = .ok lst') : Distinct lst' := by
  unfold regOne at hr
  split at hr
  · split at hr
    · cases hr
      refine List.Pairwise.map _ ?_ h
      intro a b hab
      cases ha : sameSet a.dims v.dims <;> cases hb : sameSet b.dims v.dims <;>
        simp only [Bool.false_eq_true, if_false, if_true]
      · exact hab
      · cases hav : sameSet a.dims v.dims with
        | false => rfl
        | true => rw [ha] at hav; cases hav
      · cases hvb : sameSet v.dims b.dims with
        | false => rfl
        | true =>
          have := sameSet_trans _ _ _ ha hvb
          rw [hab] at this; cases this
      · have := sameSet_trans _ _ _ ha (by rw [sameSet_symm]; exact hb)
        rw [hab] at this; cases this
    · cases hr
  · rename_i hany
    cases hr
    have hnone : ∀ a ∈ lst, sameSet a.dims v.dims = false := by
      intro a ha
      cases hs : sameSet a.dims v.dims with
      | false => rfl
      | true => exact absurd (List.any_eq_true.2 ⟨a, ha, hs⟩) hany
    exact List.pairwise_append.2 ⟨h, List.pairwise_singleton _ _, fun a ha b hb => by
      simp only [List.mem_singleton] at hb; subst hb; exact hnone a ha⟩

/-- … and so does a call naming any number of variables, refused half-way or not -/
theorem regMany_distinct (lst : List MVar) (vs : List MVar) (ow : Bool) (h : Distinct lst) :
    Distinct (regMany lst vs ow).1 := by
  induction vs generalizing lst with
  | nil => exact h
  | cons v rest ih =>
    unfold regMany
    cases hr : regOne lst v ow with
    | ok lst' => exact ih lst' (regOne_distinct lst lst' v ow h hr)
    | error e => exact h

/-- registry-level invariant -/
def RegInv (r : Registry) : Prop := ∀ e ∈ r, Distinct e.2

theorem set_inv (r : Registry) (key : List String) (v : List MVar) (hr : RegInv r) (hv : Distinct v) :
    RegInv (r.set key v) := by
  unfold Registry.set
  split
  · intro e he
    simp only [List.mem_map] at he
    obtain ⟨e0, he0, rfl⟩ := he
    split
    · exact hv
    · exact hr e0 he0
  · intro e he
    rcases List.mem_append.1 he with h | h
    · exact hr e h
    · simp only [List.mem_singleton] at h; subst h; exact hv

/-- **Every set_metrics call keeps "one variable per (axes, position) slot"** - by induction over
    the call history this holds after any sequence of calls, with any overwrite flags, refused or
    not (a new axis set is stored as given: its variables must sit at pairwise different positions,
    which is what the property's quantifier assumes of every call). -/
theorem setMetrics_inv (gridAxes : List String) (dsVars : List MVar) (r : Registry) (key : List String)
    (names : List String) (ow : Bool) (hr : RegInv r)
    (hnew : ∀ vs, names.mapM (fun n => dsVars.find? (fun v => v.name == n)) = some vs →
      r.find? key = none → Distinct vs) :
    RegInv (setMetrics gridAxes dsVars r key names ow).1 := by
  unfold setMetrics
  split
  · exact hr
  · split
    · exact hr
    · rename_i vs hvs
      split
      · rename_i lst hf
        have hl : Distinct lst := by
          unfold Registry.find? at hf
          simp only [Option.map_eq_some_iff] at hf
          obtain ⟨e, he, rfl⟩ := hf
          exact hr e (List.mem_of_find?_eq_some he)
        exact set_inv r key _ hr (regMany_distinct lst vs ow hl)
      · rename_i hf
        exact set_inv r key vs hr (hnew vs hvs hf)

/-- the invariant over a whole history of calls -/
theorem history_inv (gridAxes : List String) (dsVars : List MVar)
    (calls : List (List String × List String × Bool)) (r : Registry) (hr : RegInv r)
    (hnew : ∀ (r' : Registry) (key names : List String) (vs : List MVar),
      names.mapM (fun n => dsVars.find? (fun v => v.name == n)) = some vs →
      r'.find? key = none → (key, names) ∈ calls.map (fun c => (c.1, c.2.1)) → Distinct vs) :
    RegInv (calls.foldl (fun acc c => (setMetrics gridAxes dsVars acc c.1 c.2.1 c.2.2).1) r) := by
  induction calls generalizing r with
  | nil => exact hr
  | cons c cs ih =>
    simp only [List.foldl_cons]
    apply ih
    · exact setMetrics_inv gridAxes dsVars r c.1 c.2.1 c.2.2 hr
        (fun vs hvs hf => hnew r c.1 c.2.1 vs hvs hf (by simp))
    · intro r' key names vs hvs hf hmem
      exact hnew r' key names vs hvs hf (by simp only [List.map_cons, List.mem_cons]; exact Or.inr hmem)

/-- non-vacuity -/
example : Fresh [⟨"dx_c", ["xc"]⟩] [⟨"dx_g", ["xg"]⟩, ⟨"dx_r", ["xr"]⟩] := by
  refine ⟨by decide, ?_⟩
  simp [List.pairwise_cons]
  decide

/-- non-vacuity: the empty registry (a Grid built without `metrics=`) meets the invariant, and two
    variables at different positions are `Distinct` -/
example : RegInv [] ∧ Distinct [⟨"dx_c", ["xc"]⟩, ⟨"dx_g", ["xg"]⟩] := by
  constructor
  · intro e he
    cases he
  · simp [Distinct, List.pairwise_cons]
    decide

end Xgcm.C16

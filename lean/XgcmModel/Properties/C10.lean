import XgcmModel.Model.Metrics
import XgcmModel.Model.InterpLike
import XgcmModel.Proofs.MetricOps
/-
  C10 — The metric applied is the one registered for the array's position and axes.
  Selection logic, and (second half of the file) the arithmetic of integrate / average /
  derivative / metric_weighted over every ordered field, for every number of cells.
-/
namespace Xgcm.C10
open Xgcm

/-- **Position first.**  Within the variables registered for a block, the one located at the
    array's position is taken as it is; only if there is none is one of them interpolated. -/
theorem at_position_preferred (arrayDims : List String) (cands : List MVar) :
    (∀ mv, cands.find? (fun mv => subSet mv.dims arrayDims) = some mv →
      pickFactor arrayDims cands = some (mv, false)) ∧
    (cands.find? (fun mv => subSet mv.dims arrayDims) = none →
      ∀ f, pickFactor arrayDims cands = some f → f.2 = true ∧ f.1 ∈ cands) := by
  constructor
  · intro mv h; simp [pickFactor, h]
  · intro h f hf
    simp only [pickFactor, h, Option.map_eq_some_iff] at hf
    obtain ⟨mv, hmv, rfl⟩ := hf
    exact ⟨rfl, List.mem_of_getLast? hmv⟩

theorem pickFactor_mem (arrayDims : List String) (cands : List MVar) (f : MVar × Bool)
    (h : pickFactor arrayDims cands = some f) : f.1 ∈ cands := by
  unfold pickFactor at h
  cases hf : cands.find? (fun mv => subSet mv.dims arrayDims) with
  | some mv =>
    simp only [hf, Option.some.injEq] at h
    subst h
    exact List.mem_of_find?_eq_some hf
  | none =>
    simp only [hf, Option.map_eq_some_iff] at h
    obtain ⟨mv, hmv, rfl⟩ := h
    exact List.mem_of_getLast? hmv

/-- **Exactly that set wins.**  When variables are registered for exactly the requested set of
    axes, the result is ONE of them (at position, else interpolated) — never a product. -/
theorem exact_set_wins (r : Registry) (arrayDims axes : List String) (cands : List MVar)
    (hfind : r.find? axes = some cands) (hne : cands ≠ []) :
    ∃ f, selectMetric r arrayDims axes = .ok [f] ∧ f.1 ∈ cands ∧
      pickFactor arrayDims cands = some f := by
  have hpick : ∃ f, pickFactor arrayDims cands = some f := by
    unfold pickFactor
    cases hf : cands.find? (fun mv => subSet mv.dims arrayDims) with
    | some mv => exact ⟨_, rfl⟩
    | none =>
      cases hl : cands.getLast? with
      | none => exact absurd (List.getLast?_eq_none_iff.mp hl) hne
      | some mv => exact ⟨_, rfl⟩
  obtain ⟨f, hf⟩ := hpick
  exact ⟨f, by simp [selectMetric, hfind, hf], pickFactor_mem _ _ _ hf, hf⟩

/-- **A product only when nothing is registered for exactly that set**, and then every factor is a
    variable registered for a block of ONE enumerated combination, all of whose blocks are
    registered; the combination is the first such in the enumeration. -/
theorem product_from_first_registered_partition (r : Registry) (arrayDims axes : List String)
    (sel : Selection) (hnone : r.find? axes = none) (h : selectMetric r arrayDims axes = .ok sel) :
    ∃ comb ∈ axisCombinations axes.eraseDups,
      comb.mapM (fun block => (r.find? block).bind (pickFactor arrayDims)) = some sel := by
  simp only [selectMetric, hnone] at h
  split at h
  · rename_i sel' hs
    cases h
    obtain ⟨comb, hc, hm⟩ := List.exists_of_findSome?_eq_some hs
    exact ⟨comb, hc, hm⟩
  · cases h

/-- the enumeration for 1, 2 and 3 distinct axes: the exact set first, then (largest block
    first) pair + single, then the singletons -/
theorem partitions_1 (a : String) : axisCombinations [a] = [[[a]]] := by
  simp [axisCombinations]

theorem partitions_2 (a b : String) (hab : a ≠ b) :
    axisCombinations [a, b] = [[[a, b]], [[a], [b]], [[b], [a]]] := by
  have hba : b ≠ a := fun h => hab h.symm
  simp [axisCombinations, combinations, List.range, List.range.loop, hab, hba]

theorem partitions_3 (a b c : String) (hab : a ≠ b) (hac : a ≠ c) (hbc : b ≠ c) :
    axisCombinations [a, b, c] =
      [[[a, b, c]], [[a, b], [c]], [[a, c], [b]], [[b, c], [a]],
       [[a], [b], [c]], [[b], [a], [c]], [[c], [a], [b]]] := by
  have hba : b ≠ a := fun h => hab h.symm
  have hca : c ≠ a := fun h => hac h.symm
  have hcb : c ≠ b := fun h => hbc h.symm
  simp [axisCombinations, combinations, List.range, List.range.loop, hab, hac, hbc, hba, hca, hcb]

/-- an axis the grid lacks, or an array without exactly one dimension of an axis, is refused
    before any selection -/
theorem bad_axes_refused (axisDims : List (String × List String)) (r : Registry)
    (arrayDims axes : List String) (e : Err) (h : axesCheck axisDims arrayDims axes = some e) :
    getMetric axisDims r arrayDims axes = .error e := by
  simp [getMetric, h]

/-- outcome as an option, for concrete evaluation -/
def names (r : Except Err Selection) : Option (List (String × Bool)) :=
  match r with | .ok s => some (s.map (fun f => (f.1.name, f.2))) | .error _ => none

/-- non-vacuity: area registered at the tracer point and at the u point: a u-point array gets
    area_u; with only lengths registered it gets the product dx_u * dy_t -/
example :
    names (selectMetric [(["X", "Y"], [⟨"area_t", ["xc", "yc"]⟩, ⟨"area_u", ["xg", "yc"]⟩]),
                  (["X"], [⟨"dx_t", ["xc"]⟩])] ["xg", "yc"] ["X", "Y"]) = some [("area_u", false)] ∧
    names (selectMetric [(["X"], [⟨"dx_t", ["xc"]⟩, ⟨"dx_u", ["xg"]⟩]), (["Y"], [⟨"dy_t", ["yc"]⟩])]
                 ["xg", "yc"] ["X", "Y"]) = some [("dx_u", false), ("dy_t", false)] := by
  decide +kernel

/-! ### interp_like: how a metric that is not at the array's position gets there -/

/-- **Every hop `interp_like` makes is one of the 8 centre<->face shifts**: an axis on which both arrays have a
    dimension at different positions is moved directly when one of the two positions is the cell centre, and through
    the centre (two hops) when both are cell faces — for every grid and every pair of dimension lists.  So the
    interpolation of a misplaced metric is a composition of the stencil operations C01 verifies (with the rule
    `get_metric` passes: "extend"). -/
theorem interp_like_hops_are_valid_shifts {α : Type} (g : GridM α) (arrDims likeDims : List String)
    (m : String × Pos × Pos) (hm : m ∈ interpLikeMoves g arrDims likeDims) :
    m.2.1 ≠ m.2.2 ∧
    (if m.1 ∈ viaCenter (interpLikeMoves g arrDims likeDims) ∧ m.2.1 ≠ .center ∧ m.2.2 ≠ .center
     then validShift m.2.1 .center = true ∧ validShift .center m.2.2 = true
     else (m.2.1 = .center ∨ m.2.2 = .center) → validShift m.2.1 m.2.2 = true) := by
  obtain ⟨name, pa, pl⟩ := m
  have hne : pa ≠ pl := by
    unfold interpLikeMoves at hm
    rw [List.mem_filterMap] at hm
    obtain ⟨ax, _, hax⟩ := hm
    split at hax
    · rename_i a b _ _
      split at hax
      · rename_i hneq
        simp only [Option.some.injEq, Prod.mk.injEq] at hax
        obtain ⟨_, h1, h2⟩ := hax
        subst h1; subst h2
        intro e
        simp [e] at hneq
      · cases hax
    · cases hax
  refine ⟨hne, ?_⟩
  split
  · rename_i h
    obtain ⟨_, h1, h2⟩ := h
    constructor
    · cases pa <;> simp_all [validShift]
    · cases pl <;> simp_all [validShift]
  · intro hc
    cases pa <;> cases pl <;> simp_all [validShift]

/-- the two-hop rule, spelled out -/
theorem via_center_iff (moves : List (String × Pos × Pos)) (name : String) :
    name ∈ viaCenter moves ↔ ∃ pa pl, (name, pa, pl) ∈ moves ∧ pa ≠ .center ∧ pl ≠ .center := by
  unfold viaCenter
  simp only [List.mem_map, List.mem_filter, Bool.and_eq_true, bne_iff_ne, ne_eq]
  constructor
  · rintro ⟨⟨n, pa, pl⟩, ⟨hmem, h1, h2⟩, rfl⟩
    exact ⟨pa, pl, hmem, h1, h2⟩
  · rintro ⟨pa, pl, hmem, h1, h2⟩
    exact ⟨(name, pa, pl), ⟨hmem, h1, h2⟩, rfl⟩

/-! ### arithmetic of the metric-aware operations -/

section Arithmetic
variable {K : Type} [Field K]

/-- **integrate does not depend on the order of the axes**: reducing the second axis first or the
    first axis first gives the same sum of data × metric, for every pair of sizes, every field of
    values `f` and every (2-D or product) metric `w`. -/
theorem integrate_axis_order (n m : Nat) (f w : Nat → Nat → K) :
    integrate2 n m f w = integrate2' n m f w :=
  sum_range_comm n m (fun i j => f i j * w i j)

/-- **A constant field averages to the constant**, whatever the (non-uniform) weights, wherever data
    are missing, as long as the weights of the cells that have data do not sum to zero. -/
theorem average_const (c : K) (cells : List (Option K × K))
    (hconst : ∀ p ∈ cells, p.1 = none ∨ p.1 = some c)
    (hw : ((validCells cells).map (·.2)).sum ≠ 0) : averageCells cells = c := by
  have h : ∀ p ∈ validCells cells, p.1 = c := by
    intro p hp
    rcases hconst _ ((mem_validCells cells p).1 hp) with h | h <;> simp at h
    exact h
  unfold averageCells
  rw [integrate_const c _ h]
  field_simp

/-- without missing data, average is integrate divided by the summed metric -/
theorem average_is_integrate_over_weights (cells : List (K × K)) :
    averageCells (cells.map (fun p => (some p.1, p.2))) = integrateCells cells / (cells.map (·.2)).sum := by
  have : validCells (cells.map (fun p => (some p.1, p.2))) = cells := by
    simp [validCells, List.filterMap_map, Function.comp_def]
  simp [averageCells, this]

variable [LinearOrder K] [IsStrictOrderedRing K]

/-- **The average lies between the smallest and the largest value averaged**, for every registry of
    positive metrics (a product of positive metrics is positive). -/
theorem average_between (lo hi : K) (cells : List (Option K × K))
    (hpos : ∀ p ∈ cells, 0 < p.2) (hne : ∃ x w, (some x, w) ∈ cells)
    (hb : ∀ x w, (some x, w) ∈ cells → lo ≤ x ∧ x ≤ hi) :
    lo ≤ averageCells cells ∧ averageCells cells ≤ hi := by
  have hv0 : ∀ p ∈ validCells cells, 0 ≤ p.2 := fun p hp =>
    le_of_lt (hpos _ ((mem_validCells cells p).1 hp))
  have hvpos : ∀ p ∈ validCells cells, 0 < p.2 := fun p hp => hpos _ ((mem_validCells cells p).1 hp)
  have hsum : 0 < ((validCells cells).map (·.2)).sum := by
    obtain ⟨x, w, hm⟩ := hne
    have hmem : (x, w) ∈ validCells cells := (mem_validCells cells (x, w)).2 hm
    have hge : ∀ l : List (K × K), (∀ p ∈ l, 0 < p.2) → ∀ q ∈ l, q.2 ≤ (l.map (·.2)).sum := by
      intro l hl
      induction l with
      | nil => intro q hq; simp at hq
      | cons a r ih =>
        intro q hq
        have hr : 0 ≤ (r.map (·.2)).sum := by
          have : ∀ l : List (K × K), (∀ p ∈ l, 0 < p.2) → 0 ≤ (l.map (·.2)).sum := by
            intro l hl'
            induction l with
            | nil => simp
            | cons b t iht =>
              simp only [List.map_cons, List.sum_cons]
              have h1 := hl' b (by simp)
              have h2 := iht (fun p hp => hl' p (by simp [hp]))
              linarith
          exact this r (fun p hp => hl p (by simp [hp]))
        simp only [List.map_cons, List.sum_cons]
        rcases List.mem_cons.1 hq with h | h
        · subst h; linarith
        · have := ih (fun p hp => hl p (by simp [hp])) q h
          have ha := hl a (by simp)
          linarith
    exact lt_of_lt_of_le (hvpos _ hmem) (hge _ hvpos _ hmem)
  have hlo := integrate_ge lo (validCells cells) hv0
    (fun p hp => (hb p.1 p.2 ((mem_validCells cells p).1 hp)).1)
  have hhi := integrate_le hi (validCells cells) hv0
    (fun p hp => (hb p.1 p.2 ((mem_validCells cells p).1 hp)).2)
  unfold averageCells
  constructor
  · rw [le_div_iff₀ hsum]; exact hlo
  · rw [div_le_iff₀ hsum]; exact hhi

omit [LinearOrder K] [IsStrictOrderedRing K] in
/-- **derivative is diff divided by the metric at the result's position**: where the differences
    are `a` times the (non-zero) cell distances, the derivative is `a` - in particular the
    derivative of an affine field sampled on ANY non-uniform grid is its slope. -/
theorem derivative_of_affine (a : K) (diffs metric : List K) (hlen : diffs.length = metric.length)
    (hm : ∀ d ∈ metric, d ≠ 0) (hd : diffs = metric.map (a * ·)) :
    derivativeLine diffs metric = List.replicate metric.length a := by
  subst hd
  clear hlen
  induction metric with
  | nil => simp [derivativeLine]
  | cons d r ih =>
    have hd0 : d ≠ 0 := hm d (by simp)
    have := ih (fun x hx => hm x (by simp [hx]))
    simp only [derivativeLine, List.map_cons, List.zipWith_cons_cons, List.length_cons,
      List.replicate_succ] at this ⊢
    rw [this]
    congr 1
    field_simp

omit [LinearOrder K] [IsStrictOrderedRing K] in
/-- **metric_weighted**: the operation on data × metric divided by the metric at the result's
    position; with an operation that maps constants to constants (interp, min, max of a constant
    weighted field …) a uniform metric drops out -/
theorem metric_weighted_uniform (op : List K → List K) (data : List K) (m : K) (hm : m ≠ 0) (n k : Nat)
    (hdata : data.length = n) (hop : ∀ l : List K, op (l.map (· * m)) = (op l).map (· * m))
    (hk : (op data).length = k) :
    weightedOpLine op data (List.replicate n m) (List.replicate k m) = op data := by
  have h1 : List.zipWith (· * ·) data (List.replicate n m) = data.map (· * m) := by
    subst hdata
    clear hk
    induction data with
    | nil => simp
    | cons x r ih => simp [List.replicate_succ, ih]
  unfold weightedOpLine
  rw [h1, hop]
  subst hk
  generalize op data = l
  induction l with
  | nil => simp
  | cons x r ih =>
    simp only [List.map_cons, List.length_cons, List.replicate_succ, List.zipWith_cons_cons, ih]
    congr 1
    field_simp

end Arithmetic

/-- non-vacuity: three cells, one without data; weights 1, 2, 4 -/
example : averageCells [(some (3 : Rat), 1), (none, 2), (some 6, 4)] = 27 / 5 ∧
    integrate2 2 2 (fun i j => (i + 2 * j : Rat)) (fun _ _ => 2) =
      integrate2' 2 2 (fun i j => (i + 2 * j : Rat)) (fun _ _ => 2) := by
  constructor
  · simp only [averageCells, validCells, integrateCells, List.filterMap_cons, Option.map_some, Option.map_none, List.filterMap_nil, List.map_cons, List.map_nil, List.sum_cons, List.sum_nil]
    norm_num
  · exact integrate_axis_order _ _ _ _

end Xgcm.C10

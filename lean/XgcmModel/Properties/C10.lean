import XgcmModel.Model.Metrics
import XgcmModel.Model.InterpLike
/-
  C10 — The metric applied is the one registered for the array's position and axes.
  (Selection logic; the arithmetic of integrate / average / derivative / metric_weighted is
  tied by the correspondence run.)
-/
namespace Xgcm.C10
open Xgcm

/-- **Position first.**  Within the variables registered for a block, the one located at the
    array's position is taken as it is; only if there is none is one of them interpolated. -/
theorem at_position_preferred (arrayDims : List String) (cands : List MVar) :
    (∀ mv, cands.find? (fun mv => subSet mv.dims arrayDims) = some mv →
      pickFactor arrayDims cands = some (mv, false)) ∧
    (cands.find? (fun mv => subSet mv.dims arrayDims) = none →
      ∀ f, pickFactor arrayDims cands = some f → f.2 = true ∧ f.1 ∈ cands) := by
  constructor
  · intro mv h; simp [pickFactor, h]
  · intro h f hf
    simp only [pickFactor, h, Option.map_eq_some_iff] at hf
    obtain ⟨mv, hmv, rfl⟩ := hf
    exact ⟨rfl, List.mem_of_getLast? hmv⟩

theorem pickFactor_mem (arrayDims : List String) (cands : List MVar) (f : MVar × Bool)
    (h : pickFactor arrayDims cands = some f) : f.1 ∈ cands := by
  unfold pickFactor at h
  cases hf : cands.find? (fun mv => subSet mv.dims arrayDims) with
  | some mv =>
    simp only [hf, Option.some.injEq] at h
    subst h
    exact List.mem_of_find?_eq_some hf
  | none =>
    simp only [hf, Option.map_eq_some_iff] at h
    obtain ⟨mv, hmv, rfl⟩ := h
    exact List.mem_of_getLast? hmv

/-- **Exactly that set wins.**  When variables are registered for exactly the requested set of
    axes, the result is ONE of them (at position, else interpolated) — never a product. -/
theorem exact_set_wins (r : Registry) (arrayDims axes : List String) (cands : List MVar)
    (hfind : r.find? axes = some cands) (hne : cands ≠ []) :
    ∃ f, selectMetric r arrayDims axes = .ok [f] ∧ f.1 ∈ cands ∧
      pickFactor arrayDims cands = some f := by
  have hpick : ∃ f, pickFactor arrayDims cands = some f := by
    unfold pickFactor
    cases hf : cands.find? (fun mv => subSet mv.dims arrayDims) with
    | some mv => exact ⟨_, rfl⟩
    | none =>
      cases hl : cands.getLast? with
      | none => exact absurd (List.getLast?_eq_none_iff.mp hl) hne
      | some mv => exact ⟨_, rfl⟩
  obtain ⟨f, hf⟩ := hpick
  exact ⟨f, by simp [selectMetric, hfind, hf], pickFactor_mem _ _ _ hf, hf⟩

/-- **A product only when nothing is registered for exactly that set**, and then every factor is a
    variable registered for a block of ONE enumerated combination, all of whose blocks are
    registered; the combination is the first such in the enumeration. -/
theorem product_from_first_registered_partition (r : Registry) (arrayDims axes : List String)
    (sel : Selection) (hnone : r.find? axes = none) (h : selectMetric r arrayDims axes = .ok sel) :
    ∃ comb ∈ axisCombinations axes.eraseDups,
      comb.mapM (fun block => (r.find? block).bind (pickFactor arrayDims)) = some sel := by
  simp only [selectMetric, hnone] at h
  split at h
  · rename_i sel' hs
    cases h
    obtain ⟨comb, hc, hm⟩ := List.exists_of_findSome?_eq_some hs
    exact ⟨comb, hc, hm⟩
  · cases h

/-- the enumeration for 1, 2 and 3 distinct axes: the exact set first, then (largest block
    first) pair + single, then the singletons -/
theorem partitions_1 (a : String) : axisCombinations [a] = [[[a]]] := by
  simp [axisCombinations]

theorem partitions_2 (a b : String) (hab : a ≠ b) :
    axisCombinations [a, b] = [[[a, b]], [[a], [b]], [[b], [a]]] := by
  have hba : b ≠ a := fun h => hab h.symm
  simp [axisCombinations, combinations, List.range, List.range.loop, hab, hba]

theorem partitions_3 (a b c : String) (hab : a ≠ b) (hac : a ≠ c) (hbc : b ≠ c) :
    axisCombinations [a, b, c] =
      [[[a, b, c]], [[a, b], [c]], [[a, c], [b]], [[b, c], [a]],
       [[a], [b], [c]], [[b], [a], [c]], [[c], [a], [b]]] := by
  have hba : b ≠ a := fun h => hab h.symm
  have hca : c ≠ a := fun h => hac h.symm
  have hcb : c ≠ b := fun h => hbc h.symm
  simp [axisCombinations, combinations, List.range, List.range.loop, hab, hac, hbc, hba, hca, hcb]

/-- an axis the grid lacks, or an array without exactly one dimension of an axis, is refused
    before any selection -/
theorem bad_axes_refused (axisDims : List (String × List String)) (r : Registry)
    (arrayDims axes : List String) (e : Err) (h : axesCheck axisDims arrayDims axes = some e) :
    getMetric axisDims r arrayDims axes = .error e := by
  simp [getMetric, h]

/-- outcome as an option, for concrete evaluation -/
def names (r : Except Err Selection) : Option (List (String × Bool)) :=
  match r with | .ok s => some (s.map (fun f => (f.1.name, f.2))) | .error _ => none

/-- non-vacuity: area registered at the tracer point and at the u point: a u-point array gets
    area_u; with only lengths registered it gets the product dx_u * dy_t -/
example :
    names (selectMetric [(["X", "Y"], [⟨"area_t", ["xc", "yc"]⟩, ⟨"area_u", ["xg", "yc"]⟩]),
                  (["X"], [⟨"dx_t", ["xc"]⟩])] ["xg", "yc"] ["X", "Y"]) = some [("area_u", false)] ∧
    names (selectMetric [(["X"], [⟨"dx_t", ["xc"]⟩, ⟨"dx_u", ["xg"]⟩]), (["Y"], [⟨"dy_t", ["yc"]⟩])]
                 ["xg", "yc"] ["X", "Y"]) = some [("dx_u", false), ("dy_t", false)] := by
  decide +kernel

/-! ### interp_like: how a metric that is not at the array's position gets there -/

/-- **Every hop `interp_like` makes is one of the 8 centre<->face shifts**: an axis on which both arrays have a
    dimension at different positions is moved directly when one of the two positions is the cell centre, and through
    the centre (two hops) when both are cell faces — for every grid and every pair of dimension lists.  So the
    interpolation of a misplaced metric is a composition of the stencil operations C01 verifies (with the rule
    `get_metric` passes: "extend"). -/
theorem interp_like_hops_are_valid_shifts {α : Type} (g : GridM α) (arrDims likeDims : List String)
    (m : String × Pos × Pos) (hm : m ∈ interpLikeMoves g arrDims likeDims) :
    m.2.1 ≠ m.2.2 ∧
    (if m.1 ∈ viaCenter (interpLikeMoves g arrDims likeDims) ∧ m.2.1 ≠ .center ∧ m.2.2 ≠ .center
     then validShift m.2.1 .center = true ∧ validShift .center m.2.2 = true
     else (m.2.1 = .center ∨ m.2.2 = .center) → validShift m.2.1 m.2.2 = true) := by
  obtain ⟨name, pa, pl⟩ := m
  have hne : pa ≠ pl := by
    unfold interpLikeMoves at hm
    rw [List.mem_filterMap] at hm
    obtain ⟨ax, _, hax⟩ := hm
    split at hax
    · rename_i a b _ _
      split at hax
      · rename_i hneq
        simp only [Option.some.injEq, Prod.mk.injEq] at hax
        obtain ⟨_, h1, h2⟩ := hax
        subst h1; subst h2
        intro e
        simp [e] at hneq
      · cases hax
    · cases hax
  refine ⟨hne, ?_⟩
  split
  · rename_i h
    obtain ⟨_, h1, h2⟩ := h
    constructor
    · cases pa <;> simp_all [validShift]
    · cases pl <;> simp_all [validShift]
  · intro hc
    cases pa <;> cases pl <;> simp_all [validShift]

/-- the two-hop rule, spelled out -/
theorem via_center_iff (moves : List (String × Pos × Pos)) (name : String) :
    name ∈ viaCenter moves ↔ ∃ pa pl, (name, pa, pl) ∈ moves ∧ pa ≠ .center ∧ pl ≠ .center := by
  unfold viaCenter
  simp only [List.mem_map, List.mem_filter, Bool.and_eq_true, bne_iff_ne, ne_eq]
  constructor
  · rintro ⟨⟨n, pa, pl⟩, ⟨hmem, h1, h2⟩, rfl⟩
    exact ⟨pa, pl, hmem, h1, h2⟩
  · rintro ⟨pa, pl, hmem, h1, h2⟩
    exact ⟨(name, pa, pl), ⟨hmem, h1, h2⟩, rfl⟩

end Xgcm.C10

import XgcmModel.Proofs.FacePad4
/-
  C05 — Halo cells across every kind of face link come from the documented cell.

  Model: `padFaceConnections` (Model/FacePad.lean), a step-by-step transcription of
  `_pad_face_connections` (prepad to the maximum width, per face / per axis / per
  side source-slice choice with CPython slice bounds, dimension swap, orthogonal
  and tangential flips, signs, concat, final trim).  Statements are for square
  faces of n × n points, both horizontal axes among the pad axes (in either
  order), requested widths ≤ n, at least one non-zero width.
-/
set_option linter.unusedSimpArgs false
namespace Xgcm.C05
open Xgcm

variable {α : Type}

/-- standing assumptions of the C05 theorems -/
structure Setup (c : FPCfg α) (data partner : Nat → Arr2 α) (n : Nat) : Prop where
  both : BothAxes c
  wpos : 0 < c.width
  wle : c.width ≤ n
  dsq : ∀ g, Square n (data g)
  psq : ∀ g, Square n (partner g)

theorem prepad_sq (c : FPCfg α) (hb : BothAxes c) (a : Arr2 α) (n : Nat) (h : Square n a) :
    Square (n + 2 * c.width) (prepad c a) :=
  let p := prepad_both c hb a n h.hx h.hy
  ⟨p.1, p.2.1⟩

/-- **Requested widths.**  The result extends each face by exactly the requested
    (lower, upper) widths on each axis, whatever the maximum width used internally. -/
theorem extents (c : FPCfg α) (data partner : Nat → Arr2 α) (n f : Nat) (h : Setup c data partner n) :
    (padFaceConnections c data partner f).nx = c.reqX.1 + n + c.reqX.2 ∧
    (padFaceConnections c data partner f).ny = c.reqY.1 + n + c.reqY.2 := by
  have hNN : 2 * c.width ≤ n + 2 * c.width := by omega
  have hpd : ∀ g, Square (n + 2 * c.width) (prepad c (data g)) := fun g => prepad_sq c h.both _ n (h.dsq g)
  have hpp : ∀ g, Square (n + 2 * c.width) (prepad c (partner g)) := fun g => prepad_sq c h.both _ n (h.psq g)
  obtain ⟨sq, _, _⟩ := padFace_cells c h.both (fun g => prepad c (data g)) (fun g => prepad c (partner g)) f
    (n + 2 * c.width) h.wpos hNN hpd hpp
  have t := trim_spec c h.both _ n sq
  exact ⟨t.1, t.2.1⟩

/-- **Face interiors are unchanged.** -/
theorem interior_unchanged (c : FPCfg α) (data partner : Nat → Arr2 α) (n f : Nat)
    (h : Setup c data partner n) (x y : Nat) (hx : x < n) (hy : y < n) :
    (padFaceConnections c data partner f).get (c.reqX.1 + x) (c.reqY.1 + y) = (data f).get x y := by
  obtain ⟨b1, b2, b3, b4⟩ := width_bounds c
  have hNN : 2 * c.width ≤ n + 2 * c.width := by omega
  have hpd : ∀ g, Square (n + 2 * c.width) (prepad c (data g)) := fun g => prepad_sq c h.both _ n (h.dsq g)
  have hpp : ∀ g, Square (n + 2 * c.width) (prepad c (partner g)) := fun g => prepad_sq c h.both _ n (h.psq g)
  obtain ⟨sq, cx, _⟩ := padFace_cells c h.both (fun g => prepad c (data g)) (fun g => prepad c (partner g)) f
    (n + 2 * c.width) h.wpos hNN hpd hpp
  have t := trim_spec c h.both _ n sq
  show (trim c _).get _ _ = _
  rw [t.2.2]
  have e1 : c.reqX.1 + x + (c.width - c.reqX.1) = c.width + x := by omega
  have e2 : c.reqY.1 + y + (c.width - c.reqY.1) = c.width + y := by omega
  rw [e1, e2, cx _ _ (by omega) (by omega) (by omega)]
  have hi1 : ¬ (c.width + x < c.width) := by omega
  have hi2 : c.width + x < n + 2 * c.width - c.width := by omega
  simp only [xPassCell, hi1, if_false, hi2, if_true]
  exact (prepad_both c h.both (data f) n (h.dsq f).hx (h.dsq f).hy).2.2.1 x y hx hy

/-- the strip cell the model writes is the documented cell (both source choices) -/
theorem sideStrip_doc (c : FPCfg α) (data partner : Nat → Arr2 α) (n : Nat)
    (h : Setup c data partner n) (lk : Link) (isRight : Bool) (i y : Nat) (hi : i < c.width) (hy : y < n) :
    sideStrip c (fun g => prepad c (data g)) (fun g => prepad c (partner g)) c.xAxis lk isRight i
        (c.width + y) =
      docCell n isRight lk.2.2 (c.xAxis != lk.2.1)
        (c.vectorAxis.isSome && c.vectorAxis == some c.xAxis)
        (c.vectorAxis.isSome && c.vectorAxis != some c.xAxis) c.neg
        (if c.vectorAxis.isSome && (c.xAxis != lk.2.1) then partner lk.1 else data lk.1)
        (if isRight then i + 1 else c.width - i) y := by
  unfold sideStrip
  simp only
  cases hb : (c.vectorAxis.isSome && (c.xAxis != lk.2.1))
  · have p := prepad_both c h.both (data lk.1) n (h.dsq lk.1).hx (h.dsq lk.1).hy
    simp only [Bool.false_eq_true, if_false]
    exact stripCell_doc c.width n _ _ h.wpos h.wle p.1 p.2.1 p.2.2.1 _ _ _ _ _ _ i y hi hy
  · have p := prepad_both c h.both (partner lk.1) n (h.psq lk.1).hx (h.psq lk.1).hy
    simp only [if_true]
    exact stripCell_doc c.width n _ _ h.wpos h.wle p.1 p.2.1 p.2.2.1 _ _ _ _ _ _ i y hi hy

theorem docCell_eq_spec (c : FPCfg α) (data partner : Nat → Arr2 α) (n : Nat) (g : Nat) (b : String)
    (rev isRight : Bool) (k y : Nat) :
    docCell n isRight rev (c.xAxis != b)
        (c.vectorAxis.isSome && c.vectorAxis == some c.xAxis)
        (c.vectorAxis.isSome && c.vectorAxis != some c.xAxis) c.neg
        (if c.vectorAxis.isSome && (c.xAxis != b) then partner g else data g) k y =
      (let swap : Bool := b != c.xAxis
       let isVec := c.vectorAxis.isSome
       let src := if isVec && swap then partner g else data g
       let side : Nat := if isRight then 1 else 0
       let sside : Nat := if rev then side else 1 - side
       let cb := if sside = 0 then k - 1 else n - k
       let co := if swap && !rev then n - 1 - y else y
       let v := if swap then src.get co cb else src.get cb co
       let negate := isVec && ((rev && c.vectorAxis == some c.xAxis) ||
                               (swap && !rev && c.vectorAxis != some c.xAxis))
       if negate then c.neg v else v) := by
  have hsw : (c.xAxis != b) = (b != c.xAxis) := by
    simp only [bne, BEq.comm]
  rw [hsw]
  unfold docCell
  cases (b != c.xAxis) <;> cases rev <;> cases c.vectorAxis.isSome <;>
    cases (c.vectorAxis == some c.xAxis) <;> cases hv : (c.vectorAxis != some c.xAxis) <;> simp

/-- **Halo cells beyond an X edge** (all 8 link kinds, scalar and vector, every
    n, every requested width pair ≤ n, along-edge index inside the face): the cell
    is the documented one — `k` cells inward from the linked edge of the neighbour,
    same or mirrored along-edge position, partner component and sign as stated —
    or the ordinary boundary rule on an unlinked edge. -/
theorem halo_cell_X (c : FPCfg α) (data partner : Nat → Arr2 α) (n f : Nat)
    (h : Setup c data partner n) (i' j' : Nat)
    (hi : i' < c.reqX.1 + n + c.reqX.2) (hout : i' < c.reqX.1 ∨ c.reqX.1 + n ≤ i')
    (hj1 : c.reqY.1 ≤ j') (hj2 : j' < c.reqY.1 + n) :
    (padFaceConnections c data partner f).get i' j' =
      specHaloX c data partner n f ((i' : Int) - c.reqX.1) (j' - c.reqY.1) := by
  obtain ⟨b1, b2, b3, b4⟩ := width_bounds c
  have hNN : 2 * c.width ≤ n + 2 * c.width := by omega
  have hpd : ∀ g, Square (n + 2 * c.width) (prepad c (data g)) := fun g => prepad_sq c h.both _ n (h.dsq g)
  have hpp : ∀ g, Square (n + 2 * c.width) (prepad c (partner g)) := fun g => prepad_sq c h.both _ n (h.psq g)
  obtain ⟨sq, cx, _⟩ := padFace_cells c h.both (fun g => prepad c (data g)) (fun g => prepad c (partner g)) f
    (n + 2 * c.width) h.wpos hNN hpd hpp
  have t := trim_spec c h.both _ n sq
  show (trim c _).get _ _ = _
  rw [t.2.2]
  -- along-edge coordinate
  obtain ⟨y, rfl⟩ : ∃ y, j' = c.reqY.1 + y := ⟨j' - c.reqY.1, by omega⟩
  have hy : y < n := by omega
  have e2 : c.reqY.1 + y + (c.width - c.reqY.1) = c.width + y := by omega
  have e3 : c.reqY.1 + y - c.reqY.1 = y := by omega
  rw [e2, e3, cx _ _ (by omega) (by omega) (by omega)]
  have own := (prepad_both c h.both (data f) n (h.dsq f).hx (h.dsq f).hy).2.2.2.1
  rcases hout with hl | hr
  · -- lower side
    have h1 : i' + (c.width - c.reqX.1) < c.width := by omega
    have hneg : ((i' : Int) - (c.reqX.1 : Int)) < 0 := by omega
    simp only [xPassCell, h1, if_true, specHaloX, hneg, linkAt]
    show (match (linksOf c f c.xAxis).1 with | some lk => _ | none => _) = _
    rw [show faceLinks c f c.xAxis = linksOf c f c.xAxis from rfl]
    cases hlk : (linksOf c f c.xAxis).1 with
    | none =>
      simp only
      rw [own _ y hy]
      congr 1; omega
    | some lk =>
      obtain ⟨g, b, rev⟩ := lk
      simp only
      rw [sideStrip_doc c data partner n h (g, b, rev) false _ y h1 hy, docCell_eq_spec]
      have hk : c.width - (i' + (c.width - c.reqX.1)) = (-((i' : Int) - (c.reqX.1 : Int))).toNat := by omega
      simp only [Bool.false_eq_true, if_false, hk]
  · -- upper side
    have h1 : ¬ (i' + (c.width - c.reqX.1) < c.width) := by omega
    have h2 : ¬ (i' + (c.width - c.reqX.1) < n + 2 * c.width - c.width) := by omega
    have hneg : ¬ (((i' : Int) - (c.reqX.1 : Int)) < 0) := by omega
    simp only [xPassCell, h1, h2, if_false, specHaloX, hneg, linkAt]
    show (match (linksOf c f c.xAxis).2 with | some lk => _ | none => _) = _
    rw [show faceLinks c f c.xAxis = linksOf c f c.xAxis from rfl]
    simp only [Nat.one_ne_zero, if_false]
    cases hlk : (linksOf c f c.xAxis).2 with
    | none =>
      simp only
      rw [own _ y hy]
      congr 1; omega
    | some lk =>
      obtain ⟨g, b, rev⟩ := lk
      simp only
      have hi3 : i' + (c.width - c.reqX.1) - (n + 2 * c.width - c.width) < c.width := by omega
      rw [sideStrip_doc c data partner n h (g, b, rev) true _ y hi3 hy, docCell_eq_spec]
      have hk : i' + (c.width - c.reqX.1) - (n + 2 * c.width - c.width) + 1 =
          ((i' : Int) - (c.reqX.1 : Int) - (n : Int) + 1).toNat := by omega
      simp only [if_true, hk]


theorem sideStripT_doc (c : FPCfg α) (data partner : Nat → Arr2 α) (n : Nat)
    (h : Setup c data partner n) (lk : Link) (isRight : Bool) (x j : Nat) (hj : j < c.width) (hx : x < n) :
    sideStripT c (fun g => prepad c (data g)) (fun g => prepad c (partner g)) c.yAxis lk isRight
        (c.width + x) j =
      docCell n isRight lk.2.2 (c.yAxis != lk.2.1)
        (c.vectorAxis.isSome && c.vectorAxis == some c.yAxis)
        (c.vectorAxis.isSome && c.vectorAxis != some c.yAxis) c.neg
        (if c.vectorAxis.isSome && (c.yAxis != lk.2.1) then partner lk.1 else data lk.1).transpose
        (if isRight then j + 1 else c.width - j) x := by
  unfold sideStripT
  simp only
  cases hb : (c.vectorAxis.isSome && (c.yAxis != lk.2.1))
  · have p := prepad_both c h.both (data lk.1) n (h.dsq lk.1).hx (h.dsq lk.1).hy
    simp only [Bool.false_eq_true, if_false]
    exact stripCell_doc c.width n _ _ h.wpos h.wle p.2.1 p.1
      (fun a b ha hb' => p.2.2.1 b a hb' ha) _ _ _ _ _ _ j x hj hx
  · have p := prepad_both c h.both (partner lk.1) n (h.psq lk.1).hx (h.psq lk.1).hy
    simp only [if_true]
    exact stripCell_doc c.width n _ _ h.wpos h.wle p.2.1 p.1
      (fun a b ha hb' => p.2.2.1 b a hb' ha) _ _ _ _ _ _ j x hj hx

theorem docCellT_eq_spec (c : FPCfg α) (data partner : Nat → Arr2 α) (n : Nat) (g : Nat) (b : String)
    (rev isRight : Bool) (k x : Nat) :
    docCell n isRight rev (c.yAxis != b)
        (c.vectorAxis.isSome && c.vectorAxis == some c.yAxis)
        (c.vectorAxis.isSome && c.vectorAxis != some c.yAxis) c.neg
        (if c.vectorAxis.isSome && (c.yAxis != b) then partner g else data g).transpose k x =
      (let swap : Bool := b != c.yAxis
       let isVec := c.vectorAxis.isSome
       let src := if isVec && swap then partner g else data g
       let side : Nat := if isRight then 1 else 0
       let sside : Nat := if rev then side else 1 - side
       let cb := if sside = 0 then k - 1 else n - k
       let co := if swap && !rev then n - 1 - x else x
       let v := if swap then src.get cb co else src.get co cb
       let negate := isVec && ((rev && c.vectorAxis == some c.yAxis) ||
                               (swap && !rev && c.vectorAxis != some c.yAxis))
       if negate then c.neg v else v) := by
  have hsw : (c.yAxis != b) = (b != c.yAxis) := by
    simp only [bne, BEq.comm]
  rw [hsw]
  unfold docCell
  cases (b != c.yAxis) <;> cases rev <;> cases c.vectorAxis.isSome <;>
    cases (c.vectorAxis == some c.yAxis) <;> cases hv : (c.vectorAxis != some c.yAxis) <;>
    simp [Arr2.transpose]

/-- **Halo cells beyond a Y edge** — the mirror image of `halo_cell_X`. -/
theorem halo_cell_Y (c : FPCfg α) (data partner : Nat → Arr2 α) (n f : Nat)
    (h : Setup c data partner n) (i' j' : Nat)
    (hj : j' < c.reqY.1 + n + c.reqY.2) (hout : j' < c.reqY.1 ∨ c.reqY.1 + n ≤ j')
    (hi1 : c.reqX.1 ≤ i') (hi2 : i' < c.reqX.1 + n) :
    (padFaceConnections c data partner f).get i' j' =
      specHaloY c data partner n f (i' - c.reqX.1) ((j' : Int) - c.reqY.1) := by
  obtain ⟨b1, b2, b3, b4⟩ := width_bounds c
  have hNN : 2 * c.width ≤ n + 2 * c.width := by omega
  have hpd : ∀ g, Square (n + 2 * c.width) (prepad c (data g)) := fun g => prepad_sq c h.both _ n (h.dsq g)
  have hpp : ∀ g, Square (n + 2 * c.width) (prepad c (partner g)) := fun g => prepad_sq c h.both _ n (h.psq g)
  obtain ⟨sq, _, cy⟩ := padFace_cells c h.both (fun g => prepad c (data g)) (fun g => prepad c (partner g)) f
    (n + 2 * c.width) h.wpos hNN hpd hpp
  have t := trim_spec c h.both _ n sq
  show (trim c _).get _ _ = _
  rw [t.2.2]
  obtain ⟨x, rfl⟩ : ∃ x, i' = c.reqX.1 + x := ⟨i' - c.reqX.1, by omega⟩
  have hx : x < n := by omega
  have e2 : c.reqX.1 + x + (c.width - c.reqX.1) = c.width + x := by omega
  have e3 : c.reqX.1 + x - c.reqX.1 = x := by omega
  rw [e2, e3, cy _ _ (by omega) (by omega) (by omega)]
  have own := (prepad_both c h.both (data f) n (h.dsq f).hx (h.dsq f).hy).2.2.2.2
  rcases hout with hl | hr
  · have h1 : j' + (c.width - c.reqY.1) < c.width := by omega
    have hneg : ((j' : Int) - (c.reqY.1 : Int)) < 0 := by omega
    simp only [yPassCell, h1, if_true, specHaloY, hneg, linkAt]
    show (match (linksOf c f c.yAxis).1 with | some lk => _ | none => _) = _
    rw [show faceLinks c f c.yAxis = linksOf c f c.yAxis from rfl]
    cases hlk : (linksOf c f c.yAxis).1 with
    | none =>
      simp only
      rw [own x _ hx]
      congr 1; omega
    | some lk =>
      obtain ⟨g, b, rev⟩ := lk
      simp only
      rw [sideStripT_doc c data partner n h (g, b, rev) false x _ h1 hx, docCellT_eq_spec]
      have hk : c.width - (j' + (c.width - c.reqY.1)) = (-((j' : Int) - (c.reqY.1 : Int))).toNat := by omega
      simp only [Bool.false_eq_true, if_false, hk]
  · have h1 : ¬ (j' + (c.width - c.reqY.1) < c.width) := by omega
    have h2 : ¬ (j' + (c.width - c.reqY.1) < n + 2 * c.width - c.width) := by omega
    have hneg : ¬ (((j' : Int) - (c.reqY.1 : Int)) < 0) := by omega
    simp only [yPassCell, h1, h2, if_false, specHaloY, hneg, linkAt]
    show (match (linksOf c f c.yAxis).2 with | some lk => _ | none => _) = _
    rw [show faceLinks c f c.yAxis = linksOf c f c.yAxis from rfl]
    simp only [Nat.one_ne_zero, if_false]
    cases hlk : (linksOf c f c.yAxis).2 with
    | none =>
      simp only
      rw [own x _ hx]
      congr 1; omega
    | some lk =>
      obtain ⟨g, b, rev⟩ := lk
      simp only
      have hj3 : j' + (c.width - c.reqY.1) - (n + 2 * c.width - c.width) < c.width := by omega
      rw [sideStripT_doc c data partner n h (g, b, rev) true x _ hj3 hx, docCellT_eq_spec]
      have hk : j' + (c.width - c.reqY.1) - (n + 2 * c.width - c.width) + 1 =
          ((j' : Int) - (c.reqY.1 : Int) - (n : Int) + 1).toNat := by omega
      simp only [if_true, hk]

/-- non-vacuity: a two-face configuration with an axis-swapping link meets `Setup` -/
example : ∃ (c : FPCfg Int) (d p : Nat → Arr2 Int), Setup c d p 3 ∧
    (linksOf c 0 "X").2 = some (1, "Y", false) := by
  refine ⟨{ xAxis := "X", yAxis := "Y",
            conn := [(0, [("X", (none, some (1, "Y", false)))]), (1, [("Y", (some (0, "X", false), none))])],
            padAxes := ["X", "Y"], reqX := (0, 1), reqY := (1, 1), ruleX := .fill, fillX := 0,
            ruleY := .extend, fillY := 0, neg := fun x => -x, vectorAxis := none },
          fun f => ⟨3, 3, fun i j => (f * 100 + i * 10 + j : Nat)⟩,
          fun f => ⟨3, 3, fun i j => (f * 100 + i * 10 + j : Nat)⟩, ?_, ?_⟩
  · refine ⟨⟨by decide, Or.inl rfl⟩, by decide, by decide, fun g => ⟨rfl, rfl⟩, fun g => ⟨rfl, rfl⟩⟩
  · decide

end Xgcm.C05

import XgcmModel.Spec.C17
/-
  C17 — Only reciprocal face-connection tables are accepted.
-/
namespace Xgcm.C17
open Xgcm

theorem forAllM_ok {β : Type} (l : List β) (f : β → Res Unit) :
    forAllM l f = .ok () ↔ ∀ x ∈ l, f x = .ok () := by
  induction l with
  | nil => simp [forAllM]
  | cons x r ih =>
    unfold forAllM
    cases hx : f x with
    | error e => simp [hx]
    | ok u =>
      cases u
      simp only [ih, List.mem_cons, forall_eq_or_imp]
      constructor
      · intro h; exact ⟨hx, h⟩
      · intro h; exact h.2

/-- one `check_neighbor` call succeeds exactly when the link is absent or reciprocated -/
theorem checkNeighbor_ok (tbl : FaceTable) (axes : List String) (faces : List Nat)
    (f : Nat) (a : String) (link : Option Link) (s : Nat) (hs : s < 2) :
    checkNeighbor tbl axes faces f a link (1 - s) = .ok () ↔
      ∀ lk, link = some lk → LinkReciprocated tbl axes faces f a s lk := by
  cases link with
  | none => simp [checkNeighbor]
  | some lk =>
    obtain ⟨idx, ax, rev⟩ := lk
    have hs' : s = 0 ∨ s = 1 := by omega
    have hcorr : (if rev then (if 1 - s = 0 then 1 else 0) else 1 - s) = (if rev then s else 1 - s) := by
      rcases hs' with rfl | rfl <;> cases rev <;> simp
    simp only [checkNeighbor, hcorr, Option.some.injEq, forall_eq']
    unfold LinkReciprocated
    simp only
    have hp : (if rev then s else 1 - s) < 2 := by
      rcases hs' with rfl | rfl <;> cases rev <;> simp
    generalize (if rev then s else 1 - s) = p at hp
    -- the existential of the spec, given what the lookups return
    have hex : ∀ (ofl : Option FaceLinks), alookup idx tbl = ofl →
        ((∃ fl pr, alookup idx tbl = some fl ∧ alookup ax fl = some pr ∧
            linkAt pr p = some (f, a, rev)) ↔
         ∃ fl, ofl = some fl ∧ ∃ pr, alookup ax fl = some pr ∧ linkAt pr p = some (f, a, rev)) := by
      intro ofl h; subst h
      constructor
      · rintro ⟨fl, pr, e1, e2, e3⟩; exact ⟨fl, e1, pr, e2, e3⟩
      · rintro ⟨fl, e1, pr, e2, e3⟩; exact ⟨fl, pr, e1, e2, e3⟩
    rw [hex _ rfl]
    cases h1 : alookup idx tbl with
    | none => simp [Option.bind]
    | some fl =>
      cases h2 : alookup ax fl with
      | none => simp [Option.bind, h2]
      | some pr =>
        have hside : sideOf pr p = some (linkAt pr p) := by
          have : p = 0 ∨ p = 1 := by omega
          rcases this with rfl | rfl <;> simp [sideOf, linkAt]
        simp only [Option.bind, hside, Option.some.injEq, exists_eq_left', h2]
        cases h3 : linkAt pr p with
        | none => simp
        | some back =>
          obtain ⟨idxN, axN, revN⟩ := back
          simp only [Option.some.injEq, Prod.mk.injEq]
          by_cases c1 : axes.contains ax = true <;> by_cases c2 : axes.contains axN = true <;>
            by_cases c3 : faces.contains idx = true <;> by_cases c4 : faces.contains idxN = true <;>
            by_cases e1 : idxN = f <;> by_cases e2 : axN = a <;> by_cases e3 : revN = rev <;>
            simp_all

/-- **Accepted exactly when reciprocal**, for every table (any number of faces
    and axes, self-links included) whose axis keys are axes of the grid. -/
theorem accepts_iff_reciprocal (facedim : String) (dsDims : List String) (tbl : FaceTable)
    (axes : List String) (faces : List Nat) (hdim : dsDims.contains facedim = true)
    (hkeys : ∀ fe ∈ tbl, ∀ ae ∈ fe.2, axes.contains ae.1 = true) :
    assignFaceConnections [facedim] dsDims tbl axes faces = .ok () ↔ Reciprocal tbl axes faces := by
  have hfinal : checkAxisKeys tbl axes = .ok () := by
    unfold checkAxisKeys
    rw [forAllM_ok]; intro fe hfe
    rw [forAllM_ok]; intro ae hae
    rw [if_pos (hkeys fe hfe ae hae)]
  have key : checkAllLinks tbl axes faces = .ok () ↔ Reciprocal tbl axes faces := by
    unfold checkAllLinks
    rw [forAllM_ok]
    unfold Reciprocal
    apply forall_congr'; intro fe
    apply forall_congr'; intro hfe
    rw [forAllM_ok]
    apply forall_congr'; intro ae
    apply forall_congr'; intro hae
    have hl := checkNeighbor_ok tbl axes faces fe.1 ae.1 ae.2.1 0 (by omega)
    have hr := checkNeighbor_ok tbl axes faces fe.1 ae.1 ae.2.2 1 (by omega)
    simp only [Nat.sub_zero, Nat.sub_self] at hl hr
    constructor
    · intro h s hs lk hlk
      have : s = 0 ∨ s = 1 := by omega
      cases hc : checkNeighbor tbl axes faces fe.1 ae.1 ae.2.1 1 with
      | error e => rw [hc] at h; cases h
      | ok u =>
        cases u
        rw [hc] at h
        rcases this with rfl | rfl
        · exact hl.mp hc lk (by simpa [linkAt] using hlk)
        · exact hr.mp h lk (by simpa [linkAt] using hlk)
    · intro h
      have h0 := hl.mpr (fun lk hlk => h 0 (by omega) lk (by simpa [linkAt] using hlk))
      have h1 := hr.mpr (fun lk hlk => h 1 (by omega) lk (by simpa [linkAt] using hlk))
      rw [h0]; exact h1
  unfold assignFaceConnections
  simp only [hdim, not_true, if_false]
  constructor
  · intro h
    cases hc : checkAllLinks tbl axes faces with
    | error e => rw [hc] at h; cases h
    | ok u => cases u; exact key.mp hc
  · intro h
    rw [key.mpr h]; exact hfinal

/-- … and a table that names an axis the grid does not have is refused whatever its links are
    (also when that entry holds no links at all), so the hypothesis of `accepts_iff_reciprocal`
    excludes nothing that could be accepted -/
theorem unknown_axis_key_refused (facedim : String) (dsDims : List String) (tbl : FaceTable)
    (axes : List String) (faces : List Nat)
    (hbad : ∃ fe ∈ tbl, ∃ ae ∈ fe.2, axes.contains ae.1 = false) :
    ∃ e, assignFaceConnections [facedim] dsDims tbl axes faces = .error e := by
  unfold assignFaceConnections
  simp only
  split
  · exact ⟨_, rfl⟩
  · cases hc : checkAllLinks tbl axes faces with
    | error e => exact ⟨e, rfl⟩
    | ok u =>
      cases u
      simp only
      cases hk : checkAxisKeys tbl axes with
      | error e => exact ⟨e, rfl⟩
      | ok u =>
        cases u
        exfalso
        unfold checkAxisKeys at hk
        rw [forAllM_ok] at hk
        obtain ⟨fe, hfe, ae, hae, hcont⟩ := hbad
        have h2 := hk fe hfe
        rw [forAllM_ok] at h2
        have h3 := h2 ae hae
        rw [hcont] at h3
        simp at h3

/-- more than one face dimension (or none) is refused … -/
theorem one_face_dim_only (fcKeys dsDims : List String) (tbl : FaceTable) (axes : List String)
    (faces : List Nat) (h : fcKeys.length ≠ 1) :
    ∃ e, assignFaceConnections fcKeys dsDims tbl axes faces = .error e := by
  unfold assignFaceConnections
  match fcKeys, h with
  | [], _ => exact ⟨_, rfl⟩
  | [_], h => simp at h
  | _ :: _ :: _, _ => exact ⟨_, rfl⟩

/-- … and so is a face dimension that the dataset does not have. -/
theorem face_dim_must_exist (facedim : String) (dsDims : List String) (tbl : FaceTable)
    (axes : List String) (faces : List Nat) (h : dsDims.contains facedim = false) :
    assignFaceConnections [facedim] dsDims tbl axes faces = .error .value := by
  unfold assignFaceConnections
  simp only
  rw [if_pos (by rw [h]; decide)]

/-- outcome as a Bool, for concrete evaluation -/
def accepted (r : Res Unit) : Bool := match r with | .ok _ => true | .error _ => false

/-- non-vacuity: the two-face periodic table is accepted; breaking one back-link is refused -/
example :
    accepted (assignFaceConnections ["face"] ["face", "x"]
      [(0, [("X", (some (1, "X", false), some (1, "X", false)))]),
       (1, [("X", (some (0, "X", false), some (0, "X", false)))])] ["X"] [0, 1]) = true ∧
    accepted (assignFaceConnections ["face"] ["face", "x"]
      [(0, [("X", (some (1, "X", false), some (1, "X", false)))]),
       (1, [("X", (some (0, "X", false), none))])] ["X"] [0, 1]) = false := by
  decide +kernel

end Xgcm.C17

import XgcmModel.Proofs.Signature
import XgcmModel.Proofs.SigEquiv
import XgcmModel.Gen.Regex
/-
  C15 — Grid-ufunc signatures: parse/print are inverse; equivalence is renaming.

  The model parser (Model/Signature.lean) is the deterministic reading of the
  regular expression pinned below; `Gen.reSignature` etc. are regenerated from
  grid_ufunc.py on every run, so any edit to a fragment breaks `regex_pinned`.
-/
namespace Xgcm.C15
open Xgcm

/-! the regular expression the model parser implements, assembled the way the
    grammar reads -/
def reName : List Char := "\\w+".toList
def rePos : List Char :=
  "(?:".toList ++ Pos.center.chars ++ ['|'] ++ Pos.left.chars ++ ['|'] ++ Pos.right.chars ++ ['|'] ++
    Pos.inner.chars ++ ['|'] ++ Pos.outer.chars ++ [')']
def rePair : List Char := reName ++ [':'] ++ rePos
def rePairList : List Char := "(?:".toList ++ rePair ++ "(?:,".toList ++ rePair ++ ")*,?)*".toList
def reArg : List Char := "\\(".toList ++ rePairList ++ "\\)".toList
def reArgList : List Char := reArg ++ "(?:,".toList ++ reArg ++ ")*".toList
def reSig : List Char := ['^'] ++ reArgList ++ "->".toList ++ reArgList ++ "\\Z".toList

/-- the seven regular-expression strings in the source are the pinned ones, and
    the string parser applies the anchored pattern with `re.match` -/
theorem regex_pinned :
    Gen.reAxisName = some reName ∧ Gen.reAxisPosition = some rePos ∧
    Gen.reAxisNamePositionPair = some rePair ∧ Gen.reAxisNamePositionPairList = some rePairList ∧
    Gen.reArgument = some reArg ∧ Gen.reArgumentList = some reArgList ∧
    Gen.reSignature = some reSig ∧ Gen.signatureMatcher = "match" := by
  decide +kernel

/-- **parse ∘ print = id** for every well-formed signature: any number of
    inputs ≥ 1 and outputs ≥ 1, any number of pairs per argument (also none),
    any names made of word characters. -/
theorem parse_print (s : Sig) (h : Sig.WF s) : parseSig (printSig s) = some s := by
  obtain ⟨hi, ho, hwi, hwo⟩ := h
  have hns : ∀ c ∈ printSig s, c ≠ ' ' := by
    intro c hc
    simp only [printSig, List.mem_append, List.mem_cons, List.not_mem_nil, or_false] at hc
    rcases hc with (hc | hc | hc) | hc
    · exact printArgs_nospace _ hwi c hc
    · subst hc; decide
    · subst hc; decide
    · exact printArgs_nospace _ hwo c hc
  unfold parseSig
  rw [filter_id_of_all hns]
  have h1 : printSig s = printArgs s.ins ++ ('-' :: '>' :: (printArgs s.outs ++ [])) := by
    simp [printSig]
  rw [h1]
  simp only []
  rw [parseArgs_print s.ins hi hwi _ (by intro t h; cases h)]
  simp only [bind, Option.bind]
  rw [parseArgs_print s.outs ho hwo [] (by intro t h; cases h)]
  simp

/-- **print ∘ parse is a fixpoint**: re-printing what was parsed from a printed
    signature gives the same text. -/
theorem print_parse_fixpoint (s : Sig) (h : Sig.WF s) :
    (parseSig (printSig s)).map printSig = some (printSig s) := by
  rw [parse_print s h]; rfl

/-- spaces anywhere in the text are ignored -/
theorem spaces_ignored (text : List Char) :
    parseSig text = parseSig (text.filter (· != ' ')) := by
  simp [parseSig, List.filter_filter]

/-- **type hints denote the same signature as the equivalent string**: the
    annotation of each argument is the text of the argument without its
    parentheses. -/
theorem hints_eq_string (s : Sig) (h : Sig.WF s) :
    parseHints (s.ins.map (fun a => joinComma (a.map printPair)))
      (some (s.outs.map (fun a => joinComma (a.map printPair)))) = some s := by
  obtain ⟨hi, ho, hwi, hwo⟩ := h
  have e1 : (s.ins.map (fun a => joinComma (a.map printPair))).map
      (fun a => findPairs (a.length + 1) a) = s.ins := by
    rw [List.map_map]
    conv => rhs; rw [← List.map_id s.ins]
    apply List.map_congr_left
    intro a ha
    exact findPairs_print a (hwi a ha) _ (Nat.le_refl _)
  have e2 : (s.outs.map (fun a => joinComma (a.map printPair))).map
      (fun a => findPairs (a.length + 1) a) = s.outs := by
    rw [List.map_map]
    conv => rhs; rw [← List.map_id s.outs]
    apply List.map_congr_left
    intro a ha
    exact findPairs_print a (hwo a ha) _ (Nat.le_refl _)
  unfold parseHints
  simp only [e1, e2]
  have hne : s.ins.isEmpty = false := by cases hs : s.ins <;> simp_all
  have hpp := parse_print s ⟨hi, ho, hwi, hwo⟩
  simp [hne, hpp]

/-- **Rejection.**  Whatever is accepted has at least one argument on each side
    and every name in it is non-empty and consists of word characters: a missing
    side, an empty name and an unknown or empty position word (positions are typed)
    cannot come out of the parser. -/
theorem accepted_is_wellformed_core (text : List Char) (s : Sig) (h : parseSig text = some s) :
    s.ins ≠ [] ∧ s.outs ≠ [] := by
  unfold parseSig at h
  simp only [] at h
  cases h1 : parseArgs (text.filter (· != ' ')) with
  | none => simp [h1, bind, Option.bind] at h
  | some x =>
    obtain ⟨ins, r⟩ := x
    simp only [h1, bind, Option.bind] at h
    split at h
    · rename_i r'
      cases h2 : parseArgs r' with
      | none => simp [h2] at h
      | some y =>
        obtain ⟨outs, r''⟩ := y
        simp only [h2] at h
        split at h
        · simp only [pure, Option.some.injEq] at h
          subst h
          exact ⟨parseArgs_ne_nil _ _ _ h1, parseArgs_ne_nil _ _ _ h2⟩
        · cases h
    · cases h

/-- concrete rejections, one per class listed in the property (machine-checked
    on the model; the exhaustive corruption stream of the correspondence covers
    every single-character corruption on the implementation) -/
theorem rejection_classes :
    parseSig "(X:center)".toList = none ∧                 -- missing side
    parseSig "(X:center)->".toList = none ∧
    parseSig "->(X:center)".toList = none ∧
    parseSig "(X:center->(X:left)".toList = none ∧        -- unbalanced
    parseSig "((X:center))->(X:left)".toList = none ∧     -- nested
    parseSig "(X:center)(Y:left)->(X:left)".toList = none ∧  -- juxtaposed parentheses
    parseSig "(X:middle)->(X:left)".toList = none ∧       -- unknown position word
    parseSig "(:center)->(X:left)".toList = none ∧        -- empty name
    parseSig "(X:)->(X:left)".toList = none ∧             -- empty position
    parseSig "(X:center,,Y:left)->(X:left)".toList = none ∧  -- doubled comma
    parseSig "(X:center)->(X:left)\n".toList = none ∧     -- stray characters
    parseSig "(X:center)-->(X:left)".toList = none ∧
    parseSig "(X;center)->(X:left)".toList = none := by
  decide +kernel

/-- **Equivalence is renaming.**  Two signatures with the same shape are
    `equivalent` exactly when an injective renaming of the dummy names turns the
    one's names (inputs then outputs, in order) into the other's. -/
theorem equivalent_iff_renaming (a b : Sig) (hlen : a.names.length = b.names.length) :
    a.equivalent b = true ↔
      a.shape = b.shape ∧
      ∃ ρ : Name → Name, (∀ x ∈ a.names, ∀ y ∈ a.names, ρ x = ρ y → x = y) ∧
        a.names.map ρ = b.names := by
  unfold Sig.equivalent
  simp only [Bool.and_eq_true, beq_iff_eq]
  have : firstIdx a.names = firstIdx b.names ↔ pat a.names = pat b.names := Iff.rfl
  rw [this, pat_eq_iff_renaming a.names b.names hlen]

/-- the predefined one-axis ufuncs are found for an axis of ANY name: the
    signature built from the real axis name is equivalent to the predefined one
    exactly when the two positions agree -/
theorem predefined_found_for_any_axis_name (x n : Name) (f t f' t' : Pos) :
    Sig.equivalent ⟨[[(x, f)]], [[(x, t)]]⟩ ⟨[[(n, f')]], [[(n, t')]]⟩ = true ↔ (f = f' ∧ t = t') := by
  simp [Sig.equivalent, Sig.shape, Sig.names, firstIdx]

/-- non-vacuity: a concrete signature whose names contain a position word is
    well-formed and round-trips -/
example : parseSig (printSig ⟨[[("X".toList, .center), ("Yleft".toList, .left)], []],
    [[("X".toList, .outer)]]⟩) =
    some ⟨[[("X".toList, .center), ("Yleft".toList, .left)], []], [[("X".toList, .outer)]]⟩ := by
  decide +kernel

end Xgcm.C15

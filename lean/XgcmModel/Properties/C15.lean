import XgcmModel.Proofs.Signature
import XgcmModel.Proofs.SigEquiv
import XgcmModel.Proofs.SigShape
import XgcmModel.Gen.Regex
/-
  C15 — Grid-ufunc signatures: parse/print are inverse; equivalence is renaming.

  The model parser (Model/Signature.lean) is the deterministic reading of the
  regular expression pinned below; `Gen.reSignature` etc. are regenerated from
  grid_ufunc.py on every run, so any edit to a fragment breaks `regex_pinned`.
-/
namespace Xgcm.C15
open Xgcm

/-! the regular expression the model parser implements, assembled the way the
    grammar reads -/
def reName : List Char := "\\w+".toList
def rePos : List Char :=
  "(?:".toList ++ Pos.center.chars ++ ['|'] ++ Pos.left.chars ++ ['|'] ++ Pos.right.chars ++ ['|'] ++
    Pos.inner.chars ++ ['|'] ++ Pos.outer.chars ++ [')']
def rePair : List Char := reName ++ [':'] ++ rePos
def rePairList : List Char := "(?:".toList ++ rePair ++ "(?:,".toList ++ rePair ++ ")*,?)*".toList
def reArg : List Char := "\\(".toList ++ rePairList ++ "\\)".toList
def reArgList : List Char := reArg ++ "(?:,".toList ++ reArg ++ ")*".toList
def reSig : List Char := ['^'] ++ reArgList ++ "->".toList ++ reArgList ++ "\\Z".toList

/-- the seven regular-expression strings in the source are the pinned ones, and
    the string parser applies the anchored pattern with `re.match` -/
theorem regex_pinned :
    Gen.reAxisName = some reName ∧ Gen.reAxisPosition = some rePos ∧
    Gen.reAxisNamePositionPair = some rePair ∧ Gen.reAxisNamePositionPairList = some rePairList ∧
    Gen.reArgument = some reArg ∧ Gen.reArgumentList = some reArgList ∧
    Gen.reSignature = some reSig ∧ Gen.signatureMatcher = "match" := by
  decide +kernel

/-- **parse ∘ print = id** for every well-formed signature: any number of
    inputs ≥ 1 and outputs ≥ 1, any number of pairs per argument (also none),
    any names made of word characters. -/
theorem parse_print (s : Sig) (h : Sig.WF s) : parseSig (printSig s) = some s := by
  obtain ⟨hi, ho, hwi, hwo⟩ := h
  have hns : ∀ c ∈ printSig s, c ≠ ' ' := by
    intro c hc
    simp only [printSig, List.mem_append, List.mem_cons, List.not_mem_nil, or_false] at hc
    rcases hc with (hc | hc | hc) | hc
    · exact printArgs_nospace _ hwi c hc
    · subst hc; decide
    · subst hc; decide
    · exact printArgs_nospace _ hwo c hc
  unfold parseSig
  rw [filter_id_of_all hns]
  have h1 : printSig s = printArgs s.ins ++ ('-' :: '>' :: (printArgs s.outs ++ [])) := by
    simp [printSig]
  rw [h1]
  simp only []
  rw [parseArgs_print s.ins hi hwi _ (by intro t h; cases h)]
  simp only [bind, Option.bind]
  rw [parseArgs_print s.outs ho hwo [] (by intro t h; cases h)]
  simp

/-- **print ∘ parse is a fixpoint**: re-printing what was parsed from a printed
    signature gives the same text. -/
theorem print_parse_fixpoint (s : Sig) (h : Sig.WF s) :
    (parseSig (printSig s)).map printSig = some (printSig s) := by
  rw [parse_print s h]; rfl

/-- spaces anywhere in the text are ignored -/
theorem spaces_ignored (text : List Char) :
    parseSig text = parseSig (text.filter (· != ' ')) := by
  simp [parseSig, List.filter_filter]

/-- **type hints denote the same signature as the equivalent string**: the
    annotation of each argument is the text of the argument without its
    parentheses. -/
theorem hints_eq_string (s : Sig) (h : Sig.WF s) :
    parseHints (s.ins.map (fun a => joinComma (a.map printPair)))
      (some (s.outs.map (fun a => joinComma (a.map printPair)))) = some s := by
  obtain ⟨hi, ho, hwi, hwo⟩ := h
  have e1 : (s.ins.map (fun a => joinComma (a.map printPair))).map
      (fun a => findPairs (a.length + 1) a) = s.ins := by
    rw [List.map_map]
    conv => rhs; rw [← List.map_id s.ins]
    apply List.map_congr_left
    intro a ha
    exact findPairs_print a (hwi a ha) _ (Nat.le_refl _)
  have e2 : (s.outs.map (fun a => joinComma (a.map printPair))).map
      (fun a => findPairs (a.length + 1) a) = s.outs := by
    rw [List.map_map]
    conv => rhs; rw [← List.map_id s.outs]
    apply List.map_congr_left
    intro a ha
    exact findPairs_print a (hwo a ha) _ (Nat.le_refl _)
  unfold parseHints
  simp only [e1, e2]
  have hne : s.ins.isEmpty = false := by cases hs : s.ins <;> simp_all
  have hpp := parse_print s ⟨hi, ho, hwi, hwo⟩
  simp [hne, hpp]

/-- **Rejection.**  Whatever is accepted has at least one argument on each side
    and every name in it is non-empty and consists of word characters: a missing
    side, an empty name and an unknown or empty position word (positions are typed)
    cannot come out of the parser. -/
theorem accepted_is_wellformed_core (text : List Char) (s : Sig) (h : parseSig text = some s) :
    s.ins ≠ [] ∧ s.outs ≠ [] := by
  unfold parseSig at h
  simp only [] at h
  cases h1 : parseArgs (text.filter (· != ' ')) with
  | none => simp [h1, bind, Option.bind] at h
  | some x =>
    obtain ⟨ins, r⟩ := x
    simp only [h1, bind, Option.bind] at h
    split at h
    · rename_i r'
      cases h2 : parseArgs r' with
      | none => simp [h2] at h
      | some y =>
        obtain ⟨outs, r''⟩ := y
        simp only [h2] at h
        split at h
        · simp only [pure, Option.some.injEq] at h
          subst h
          exact ⟨parseArgs_ne_nil _ _ _ h1, parseArgs_ne_nil _ _ _ h2⟩
        · cases h
    · cases h

/-- **Nothing but renderings is accepted.**  Whatever text the parser accepts is, spaces aside,
    EXACTLY the rendering of a concrete syntax tree: on each side of one `->` a non-empty comma-separated
    list of parenthesised arguments, each a sequence of `name:position` pairs with a non-empty
    word-character name and one of the five position words, each pair optionally followed by a single
    comma (the regular expression allows a trailing or omitted comma between pairs; the printer never
    produces either) — and the parsed signature is that tree with the commas forgotten.  For texts
    of ANY length. -/
theorem accepted_is_a_rendering (text : List Char) (s : Sig) (h : parseSig text = some s) :
    ∃ ci co : List (List CPair), ci ≠ [] ∧ co ≠ [] ∧ ci.map eraseP = s.ins ∧ co.map eraseP = s.outs ∧
      text.filter (· != ' ') = renderArgsC ci ++ '-' :: '>' :: renderArgsC co ∧
      (∀ a ∈ ci, CArgWF a) ∧ (∀ a ∈ co, CArgWF a) :=
  parseSig_sound text s h

/-- **Rejection, for texts of any length.**  If the space-free text contains, anywhere, two adjacent
    characters whose classes may not follow each other (table `okPair`), it is rejected. -/
theorem forbidden_pair_rejected (text x y : List Char) (a b : Char)
    (hf : text.filter (· != ' ') = x ++ a :: b :: y) (h : okPair (cls a) (cls b) = false) :
    parseSig text = none := by
  apply rejected_of_not_shape
  unfold shapeOK
  rw [hf, bad_pair_dead _ x y a b h]
  rfl

/-- the listed classes as forbidden pairs: doubled commas; juxtaposed, nested or doubly closed
    parentheses; empty names (`(:` `,:`), empty positions (`:)` `:,` `::`); a second dash, an arrow
    not followed by `(`, an argument not preceded by `,` `->` or the start -/
theorem forbidden_pairs :
    okPair (cls ',') (cls ',') = false ∧ okPair (cls ')') (cls '(') = false ∧
    okPair (cls '(') (cls '(') = false ∧ okPair (cls ')') (cls ')') = false ∧
    okPair (cls '(') (cls ':') = false ∧ okPair (cls ',') (cls ':') = false ∧
    okPair (cls ':') (cls ')') = false ∧ okPair (cls ':') (cls ',') = false ∧
    okPair (cls ':') (cls ':') = false ∧ okPair (cls '-') (cls '-') = false ∧
    okPair (cls '>') (cls '>') = false ∧ okPair (cls '>') (cls ')') = false ∧
    okPair (cls ')') (cls '>') = false ∧ okPair (cls '(') (cls ',') = false ∧
    okPair (cls ')') (cls 'a') = false ∧ okPair (cls 'a') (cls '(') = false ∧
    okPair (cls 'a') (cls '-') = false ∧ okPair (cls '>') (cls 'a') = false := by
  decide

/-- stray characters: any character that is neither a word character nor one of `( ) , : - >`
    (and not a space, which is deleted) anywhere in the text -/
theorem stray_character_rejected (text x y : List Char) (c : Char)
    (hf : text.filter (· != ' ') = x ++ c :: y) (h : cls c = .other) : parseSig text = none := by
  apply rejected_of_not_shape
  unfold shapeOK
  rw [hf, other_dead _ x y c h]
  rfl

example : cls '\n' = .other ∧ cls ';' = .other ∧ cls '.' = .other ∧ cls '[' = .other ∧ cls '*' = .other ∧
    cls '=' = .other ∧ cls '\t' = .other := by decide

/-- a missing side: a text without `>` is rejected; so is one that does not end with `)` (nothing
    after the arrow) or does not start with `(` (nothing before it) -/
theorem missing_arrow_rejected (text : List Char) (h : '>' ∉ text) : parseSig text = none := by
  apply rejected_of_not_shape
  unfold shapeOK
  have h' : '>' ∉ text.filter (· != ' ') := fun e => h (List.mem_filter.mp e).1
  rcases runS_count .start 0 _ h' with h1 | ⟨q, h1⟩
  · rw [h1]; rfl
  · rw [h1]; cases q <;> rfl

theorem must_end_with_parenthesis (text x : List Char) (c : Char)
    (hf : text.filter (· != ' ') = x ++ [c]) (hc : c ≠ ')') : parseSig text = none := by
  apply rejected_of_not_shape
  unfold shapeOK
  rw [hf]
  rcases runS_snoc_class (some (.start, 0)) x c with h1 | ⟨k, h1⟩
  · rw [h1]; rfl
  · rw [h1]
    have : cls c ≠ .rpar := by
      intro e
      simp only [cls] at e
      repeat' split at e
      all_goals first | cases e | (rename_i h; exact hc h)
    simp [this]

theorem must_start_with_parenthesis (text y : List Char) (c : Char)
    (hf : text.filter (· != ' ') = c :: y) (hc : c ≠ '(') : parseSig text = none := by
  apply rejected_of_not_shape
  unfold shapeOK
  rw [hf, runS_cons]
  have : stepS (some (.start, 0)) c = none := by
    have hcl : cls c ≠ .lpar := by
      intro e
      simp only [cls] at e
      repeat' split at e
      all_goals first | cases e | (rename_i h; exact hc h)
    have : okPair .start (cls c) = false := by
      cases hcc : cls c <;> first | rfl | exact absurd hcc hcl
    simp [stepS, this]
  rw [this, runS_none]
  rfl

theorem empty_rejected (text : List Char) (hf : text.filter (· != ' ') = []) : parseSig text = none := by
  apply rejected_of_not_shape
  unfold shapeOK
  rw [hf]
  rfl

/-- concrete rejections, one per class listed in the property (machine-checked
    on the model; the exhaustive corruption stream of the correspondence covers
    every single-character corruption on the implementation) -/
theorem rejection_classes :
    parseSig "(X:center)".toList = none ∧                 -- missing side
    parseSig "(X:center)->".toList = none ∧
    parseSig "->(X:center)".toList = none ∧
    parseSig "(X:center->(X:left)".toList = none ∧        -- unbalanced
    parseSig "((X:center))->(X:left)".toList = none ∧     -- nested
    parseSig "(X:center)(Y:left)->(X:left)".toList = none ∧  -- juxtaposed parentheses
    parseSig "(X:middle)->(X:left)".toList = none ∧       -- unknown position word
    parseSig "(:center)->(X:left)".toList = none ∧        -- empty name
    parseSig "(X:)->(X:left)".toList = none ∧             -- empty position
    parseSig "(X:center,,Y:left)->(X:left)".toList = none ∧  -- doubled comma
    parseSig "(X:center)->(X:left)\n".toList = none ∧     -- stray characters
    parseSig "(X:center)-->(X:left)".toList = none ∧
    parseSig "(X;center)->(X:left)".toList = none := by
  decide +kernel

/-- **Equivalence is renaming.**  Two signatures with the same shape are
    `equivalent` exactly when an injective renaming of the dummy names turns the
    one's names (inputs then outputs, in order) into the other's. -/
theorem equivalent_iff_renaming (a b : Sig) (hlen : a.names.length = b.names.length) :
    a.equivalent b = true ↔
      a.shape = b.shape ∧
      ∃ ρ : Name → Name, (∀ x ∈ a.names, ∀ y ∈ a.names, ρ x = ρ y → x = y) ∧
        a.names.map ρ = b.names := by
  unfold Sig.equivalent
  simp only [Bool.and_eq_true, beq_iff_eq]
  have : firstIdx a.names = firstIdx b.names ↔ pat a.names = pat b.names := Iff.rfl
  rw [this, pat_eq_iff_renaming a.names b.names hlen]

/-- the predefined one-axis ufuncs are found for an axis of ANY name: the
    signature built from the real axis name is equivalent to the predefined one
    exactly when the two positions agree -/
theorem predefined_found_for_any_axis_name (x n : Name) (f t f' t' : Pos) :
    Sig.equivalent ⟨[[(x, f)]], [[(x, t)]]⟩ ⟨[[(n, f')]], [[(n, t')]]⟩ = true ↔ (f = f' ∧ t = t') := by
  simp [Sig.equivalent, Sig.shape, Sig.names, firstIdx]

/-- non-vacuity: a concrete signature whose names contain a position word is
    well-formed and round-trips -/
example : parseSig (printSig ⟨[[("X".toList, .center), ("Yleft".toList, .left)], []],
    [[("X".toList, .outer)]]⟩) =
    some ⟨[[("X".toList, .center), ("Yleft".toList, .left)], []], [[("X".toList, .outer)]]⟩ := by
  decide +kernel

end Xgcm.C15

import XgcmModel.Proofs.Conservative
/-
  C07 — Conservative transform neither creates nor destroys the transformed quantity.
  Theorems hold over every linearly ordered field (the "symbolic" data values of the
  property); the driver runs the same definitions on exact rationals.
-/
namespace Xgcm.C07
open Xgcm

variable {K : Type} [Field K] [LinearOrder K] [IsStrictOrderedRing K]

theorem rows_sum_eq (cells : List (K × Option K × Option K)) (edges : List K) (hinc : Inc edges)
    (hlen : 2 ≤ edges.length)
    (hc : ∀ c ∈ cells, ∃ a b, c.2 = (some a, some b) ∧
      (edges.headD 0 ≤ a ∧ a ≤ edges.getLastD 0) ∧ (edges.headD 0 ≤ b ∧ b ≤ edges.getLastD 0)) :
    (cells.map (fun c => (cellRow c.1 (cellInterval c.2.1 c.2.2) edges).sum)).sum =
      (cells.map (·.1)).sum := by
  induction cells with
  | nil => rfl
  | cons c cs ih =>
    obtain ⟨a, b, hab, ha, hb⟩ := hc c (by simp)
    simp only [List.map_cons, List.sum_cons]
    rw [ih (fun c' hc' => hc c' (by simp [hc'])), hab]
    simp only
    rw [finite_cell_row_sum c.1 a b edges hinc hlen ha hb]

/-- **Conservation.**  For every column length, every target_data profile on the
    cell bounds (monotonic or not, repeated values, values exactly on bin edges) that lies
    within the span of strictly increasing bins, and all data: the output bins sum to the
    input cells. -/
theorem conservation (phi : List K) (th : List K) (hth : th.length = phi.length + 1)
    (edges : List K) (hinc : Inc edges) (hlen : 2 ≤ edges.length)
    (hspan : ∀ t ∈ th, edges.headD 0 ≤ t ∧ t ≤ edges.getLastD 0) :
    (consKernel phi (th.dropLast.map some) (th.tail.map some) edges).sum = phi.sum := by
  unfold consKernel
  have hz : (List.replicate (edges.length - 1) (0 : K)).length = edges.length - 1 := by simp
  have h := (fold_rows_sum (List.zip phi (List.zip (th.dropLast.map some) (th.tail.map some))) edges
    (List.replicate (edges.length - 1) 0) hz).1
  rw [h]
  have hzero : (List.replicate (edges.length - 1) (0 : K)).sum = 0 := by simp
  rw [hzero, zero_add]
  rw [rows_sum_eq _ edges hinc hlen]
  · -- first components of the zip are phi
    have hl : phi.length ≤ (List.zip (th.dropLast.map some) (th.tail.map some)).length := by
      simp [hth]
    rw [List.map_fst_zip hl]
  · intro c hc
    obtain ⟨p, o1, o2⟩ := c
    have h2 := (List.of_mem_zip hc).2
    have h3 := List.of_mem_zip h2
    obtain ⟨a, ha, rfl⟩ := List.mem_map.mp h3.1
    obtain ⟨b, hb, rfl⟩ := List.mem_map.mp h3.2
    exact ⟨a, b, rfl, hspan a (List.dropLast_subset _ ha), hspan b (List.mem_of_mem_tail hb)⟩

/-- a cell takes part in the transform when at least one of its bounds is known -/
def hasBound (c : K × Option K × Option K) : Bool := c.2.1.isSome || c.2.2.isSome

theorem rows_sum_eq_missing (cells : List (K × Option K × Option K)) (edges : List K) (hinc : Inc edges)
    (hlen : 2 ≤ edges.length)
    (hc : ∀ c ∈ cells, ∀ t, (c.2.1 = some t ∨ c.2.2 = some t) →
      edges.headD 0 ≤ t ∧ t ≤ edges.getLastD 0) :
    (cells.map (fun c => (cellRow c.1 (cellInterval c.2.1 c.2.2) edges).sum)).sum =
      ((cells.filter hasBound).map (·.1)).sum := by
  induction cells with
  | nil => rfl
  | cons c cs ih =>
    have ih' := ih (fun c' hc' => hc c' (by simp [hc']))
    have hcc := hc c (by simp)
    obtain ⟨p, o1, o2⟩ := c
    simp only [List.map_cons, List.sum_cons, List.filter_cons, hasBound]
    rw [ih']
    cases o1 with
    | none =>
      cases o2 with
      | none => simp [cellInterval, cellRow_none_sum]
      | some b =>
        have := half_cell_row_sum p b none (some b) (Or.inr ⟨rfl, rfl⟩) edges hinc hlen (hcc b (Or.inr rfl))
        simp [this]
    | some a =>
      cases o2 with
      | none =>
        have := half_cell_row_sum p a (some a) none (Or.inl ⟨rfl, rfl⟩) edges hinc hlen (hcc a (Or.inl rfl))
        simp [this]
      | some b =>
        have := finite_cell_row_sum p a b edges hinc hlen (hcc a (Or.inl rfl)) (hcc b (Or.inr rfl))
        simp [this]

/-- **Conservation with missing target_data.**  Where target_data is NaN on some cell bounds
    (land below the sea floor, masked regions), exactly the cells with no known bound drop out;
    every other cell - a cell with one known bound counts as a point at that bound - passes all
    of its content to the bins, for every column length and every pattern of missing bounds. -/
theorem conservation_with_missing (phi : List K) (th : List (Option K)) (edges : List K)
    (hinc : Inc edges) (hlen : 2 ≤ edges.length)
    (hspan : ∀ t, some t ∈ th → edges.headD 0 ≤ t ∧ t ≤ edges.getLastD 0) :
    (consKernel phi th.dropLast th.tail edges).sum =
      (((List.zip phi (List.zip th.dropLast th.tail)).filter hasBound).map (·.1)).sum := by
  unfold consKernel
  have hz : (List.replicate (edges.length - 1) (0 : K)).length = edges.length - 1 := by simp
  have h := (fold_rows_sum (List.zip phi (List.zip th.dropLast th.tail)) edges
    (List.replicate (edges.length - 1) 0) hz).1
  rw [h]
  have hzero : (List.replicate (edges.length - 1) (0 : K)).sum = 0 := by simp
  rw [hzero, zero_add]
  apply rows_sum_eq_missing _ edges hinc hlen
  intro c hc t ht
  obtain ⟨p, o1, o2⟩ := c
  have h2 := (List.of_mem_zip hc).2
  have h3 := List.of_mem_zip h2
  rcases ht with ht | ht
  · simp only at ht; subst ht
    exact hspan t (List.dropLast_subset _ h3.1)
  · simp only at ht; subst ht
    exact hspan t (List.mem_of_mem_tail h3.2)

/-- **Merging adjacent bins sums their contents** (per cell; the kernel is the sum over cells). -/
theorem merge_adjacent_bins (phi lo hi a b c : K) (last : Bool) (hlh : lo ≤ hi)
    (hab : a < b) (hbc : b < c) :
    cellToBin phi lo hi a c last = cellToBin phi lo hi a b false + cellToBin phi lo hi b c last := by
  rcases lt_or_eq_of_le hlh with hlt | heq
  · rw [cellToBin_clamp phi lo hi a c last hlt (le_of_lt (lt_trans hab hbc)),
      cellToBin_clamp phi lo hi a b false hlt (le_of_lt hab),
      cellToBin_clamp phi lo hi b c last hlt (le_of_lt hbc)]
    have : hi - lo ≠ 0 := ne_of_gt (sub_pos.mpr hlt)
    field_simp
    ring
  · subst heq
    unfold cellToBin
    simp only [gt_iff_lt, if_true, Bool.false_eq_true, or_false]
    by_cases h1 : lo < a
    · have : lo < b := lt_trans h1 hab
      simp [h1, this]
    · by_cases h2 : c < lo
      · have : b < lo := lt_trans hbc h2
        simp [h2, this]
      · by_cases h3 : lo < b
        · have hb' : ¬ (b < lo) := not_lt.mpr (le_of_lt h3)
          have hc' : lo < c := lt_trans h3 hbc
          simp [h1, h2, h3, hb', hc']
        · by_cases h4 : b < lo
          · have h5 : ¬ (lo < b) := h3
            simp [h1, h2, h4, h5]
          · have hbl : b = lo := le_antisymm (not_lt.mp h3) (not_lt.mp h4)
            subst hbl
            simp [h1, hbc]

/-- **Non-negative inputs give non-negative outputs** (per cell and bin). -/
theorem nonneg (phi lo hi a b : K) (last : Bool) (hphi : 0 ≤ phi) (hlh : lo ≤ hi) (hab : a ≤ b) :
    0 ≤ cellToBin phi lo hi a b last := by
  rcases lt_or_eq_of_le hlh with hlt | heq
  · rw [cellToBin_clamp phi lo hi a b last hlt hab]
    apply mul_nonneg _ hphi
    apply div_nonneg _ (le_of_lt (sub_pos.mpr hlt))
    unfold clamp
    have : max lo a ≤ max lo b := max_le_max (le_refl _) hab
    have : min hi (max lo a) ≤ min hi (max lo b) := min_le_min (le_refl _) this
    linarith
  · subst heq
    unfold cellToBin
    simp only [if_true]
    split_ifs <;> first | exact le_refl _ | exact hphi

theorem allAdj_append (p : K → K → Bool) (l : List K) (x : K) :
    allAdj p (l ++ [x]) = (allAdj p l && (match l.getLast? with | some y => p y x | none => true)) := by
  induction l with
  | nil => rfl
  | cons a r ih =>
    cases r with
    | nil => simp [allAdj]
    | cons b r' =>
      simp only [List.cons_append, allAdj] at ih ⊢
      rw [ih]
      simp [Bool.and_assoc]

theorem allAdj_reverse (p : K → K → Bool) (l : List K) :
    allAdj p l.reverse = allAdj (fun a b => p b a) l := by
  induction l with
  | nil => rfl
  | cons a r ih =>
    rw [List.reverse_cons, allAdj_append, ih]
    cases r with
    | nil => simp [allAdj]
    | cons b r' =>
      simp only [allAdj, List.reverse_cons, List.getLast?_append, List.getLast?_singleton]
      simp [Bool.and_comm]

theorem allAdj_lt_of_inc (l : List K) (h : Inc l) : allAdj (fun a b => decide (a < b)) l = true := by
  induction l with
  | nil => rfl
  | cons a r ih =>
    cases r with
    | nil => rfl
    | cons b r' => simp [allAdj, h.1, ih h.2]

theorem not_allAdj_gt_of_inc (l : List K) (h : Inc l) (hlen : 2 ≤ l.length) :
    allAdj (fun a b => decide (b < a)) l = false := by
  cases l with
  | nil => simp at hlen
  | cons a r =>
    cases r with
    | nil => simp at hlen
    | cons b r' => simp [allAdj, not_lt.mpr (le_of_lt h.1)]

/-- **Listing the bins in decreasing order only reverses the output.** -/
theorem reverse_bins (phi : List K) (theta : List (Option K)) (bins : List K) (hinc : Inc bins)
    (hlen : 2 ≤ bins.length) (hth : phi.length + 1 = theta.length) :
    interp1dConservative phi theta bins.reverse =
      (interp1dConservative phi theta bins).map List.reverse := by
  have h1 : allAdj (fun a b => decide (b < a)) bins.reverse = true := by
    rw [allAdj_reverse]; exact allAdj_lt_of_inc bins hinc
  have h2 : allAdj (fun a b => decide (b < a)) bins = false := not_allAdj_gt_of_inc bins hinc hlen
  have h3 : allAdj (fun a b => decide (a < b)) bins = true := allAdj_lt_of_inc bins hinc
  simp only [interp1dConservative, hth, ne_eq, not_true_eq_false, if_false, h1, if_true, h2,
    Bool.false_eq_true, h3, List.reverse_reverse]
  rfl

/-- non-vacuity: a non-monotonic profile with a repeated value on an interior edge -/
example : Inc ([0, 1, 2] : List Rat) ∧ (2 : Nat) ≤ ([0, 1, 2] : List Rat).length ∧
    (∀ t ∈ ([1, 1, 0, 2] : List Rat), ([0, 1, 2] : List Rat).headD 0 ≤ t ∧ t ≤ ([0, 1, 2] : List Rat).getLastD 0) := by
  refine ⟨⟨by norm_num, by norm_num, trivial⟩, by decide, ?_⟩
  intro t ht
  simp at ht
  rcases ht with rfl | rfl | rfl <;> norm_num

end Xgcm.C07

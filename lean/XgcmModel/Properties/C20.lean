import XgcmModel.Properties.C01
import XgcmModel.Properties.C11
import XgcmModel.Model.Cumsum
import XgcmModel.Model.Conservative
import XgcmModel.Model.TransformGuards
/-
  C20 — Ill-posed requests raise instead of returning an array.
  One theorem per class of the property, on the models of the entry points (the class
  "non-numeric fill value" has no counterpart in a typed model and is covered by the
  correspondence run only).
-/
namespace Xgcm.C20
open Xgcm

variable {α : Type}

def refused {β : Type} (r : Res β) : Prop := ∃ e, r = .error e

/-- (1) an axis the grid lacks -/
theorem unknown_axis_refused (o : Ops α) (g : GridM α) (fname : String) (arr : NDArr α)
    (ax : String) (rest : List String) (tgt b : KW String) (f : KW α) (h : g.axis? ax = none) :
    refused (dispatch o Gen.gridops g fname arr (ax :: rest) tgt b f) := by
  unfold dispatch
  simp only [List.mapM_cons, signatureFor, h, bind, Except.bind, throw, throwThe, MonadExceptOf.throw]
  exact ⟨_, rfl⟩

/-- (2) data lacking, or having two, dimensions of the axis -/
theorem bad_dims_refused (o : Ops α) (g : GridM α) (fname : String) (arr : NDArr α)
    (ax : String) (rest : List String) (tgt b : KW String) (f : KW α) (a : AxisM α)
    (ha : g.axis? ax = some a) (e : Err) (hp : a.positionName arr.dims = .error e) :
    refused (dispatch o Gen.gridops g fname arr (ax :: rest) tgt b f) := by
  unfold dispatch
  simp only [List.mapM_cons, signatureFor, ha, hp, bind, Except.bind, pure, Except.pure]
  exact ⟨_, rfl⟩

theorem positionName_none (a : AxisM α) (dims : List String)
    (h : dims.filter (fun d => (a.coords.map (·.2)).contains d) = []) :
    a.positionName dims = .error .key := by
  unfold AxisM.positionName
  simp only [h]
  rfl

/-- what a successful pass along one axis implies (inversion of `stepAxis`) -/
theorem stepAxis_ok_inv (o : Ops α) (g : GridM α) (fname ax : String) (f t : Pos) (b : KW String)
    (fl : KW α) (arr res : NDArr α)
    (h : stepAxis o Gen.gridops g fname ax f t b fl arr = .ok res) :
    ∃ e a, selectUfunc Gen.gridops fname f t = .ok e ∧ g.axis? ax = some a ∧
      (alookup t a.coords).isSome = true ∧ boundaryWordsOk g b = true ∧
      ∃ r fv xs, (op1d o e r fv xs).isSome = true := by
  unfold stepAxis at h
  cases hsel : selectUfunc Gen.gridops fname f t with
  | error e => simp [hsel] at h
  | ok e =>
    simp only [hsel] at h
    cases ha : g.axis? ax with
    | none => simp [ha] at h
    | some a =>
      simp only [ha] at h
      cases hin : alookup f a.coords with
      | none => simp [hin] at h
      | some dimIn =>
        simp only [hin] at h
        cases hk : arr.dimIdx dimIn with
        | none => simp [hk] at h
        | some k =>
          simp only [hk] at h
          cases hout : alookup t a.coords with
          | none => simp [hout] at h
          | some dimOut =>
            simp only [hout] at h
            by_cases hb : boundaryWordsOk g b = false
            · rw [if_pos hb] at h; cases h
            · rw [if_neg hb] at h
              have hb' : boundaryWordsOk g b = true := by
                cases hx : boundaryWordsOk g b
                · exact absurd hx hb
                · rfl
              refine ⟨e, a, rfl, rfl, by rw [hout]; rfl, hb', ?_⟩
              split at h
              · cases h
              · rename_i rule _
                split at h
                · cases h
                · rename_i pl hp
                  exact ⟨_, _, _, by rw [hp]; rfl⟩

theorem refused_of_not_ok {β : Type} (r : Res β) (h : ∀ x, r ≠ .ok x) : refused r := by
  cases r with
  | error e => exact ⟨e, rfl⟩
  | ok x => exact absurd rfl (h x)

/-- (3a) a shift from a position to itself or between two face positions: no predefined ufunc
    (or only a stub that raises) -/
theorem invalid_shift_step_refused (o : Ops α) (g : GridM α) (fn : Func) (ax : String) (f t : Pos)
    (hv : validShift f t = false) (b : KW String) (fl : KW α) (arr : NDArr α) :
    refused (stepAxis o Gen.gridops g fn.toString ax f t b fl arr) := by
  apply refused_of_not_ok
  intro res hres
  obtain ⟨e, a, hsel, _, _, _, r, fv, xs, hop⟩ := stepAxis_ok_inv o g fn.toString ax f t b fl arr res hres
  rcases C01.invalid_shift_refused o fn f t hv r fv xs with ⟨err, he⟩ | ⟨e', he, hnone⟩
  · rw [he] at hsel; cases hsel
  · rw [he] at hsel
    cases hsel
    rw [hnone] at hop
    cases hop

/-- (3b) a target position the axis lacks -/
theorem missing_position_refused (o : Ops α) (g : GridM α) (fname : String) (ax : String) (f t : Pos)
    (b : KW String) (fl : KW α) (arr : NDArr α) (a : AxisM α) (ha : g.axis? ax = some a)
    (ht : alookup t a.coords = none) :
    refused (stepAxis o Gen.gridops g fname ax f t b fl arr) := by
  apply refused_of_not_ok
  intro res hres
  obtain ⟨e, a', _, ha', hsome, _⟩ := stepAxis_ok_inv o g fname ax f t b fl arr res hres
  rw [ha] at ha'
  cases ha'
  rw [ht] at hsome
  cases hsome

/-- (4a) an unknown position word -/
theorem unknown_position_word_refused (g : GridM α) (dims : List String) (ax w : String) (a : AxisM α)
    (ha : g.axis? ax = some a) (hw : Pos.ofString? w = none) :
    refused (signatureFor g dims (.scalar w) ax) := by
  unfold signatureFor
  simp only [ha, bind, Except.bind, pure, Except.pure]
  split
  · exact ⟨_, rfl⟩
  · simp only [hw]
    exact ⟨_, rfl⟩

/-- (4b) an unknown boundary word — also when the shift needs no padding -/
theorem unknown_boundary_word_refused (o : Ops α) (g : GridM α) (fname : String) (ax : String) (f t : Pos)
    (b : KW String) (fl : KW α) (arr : NDArr α) (hb : boundaryWordsOk g b = false) :
    refused (stepAxis o Gen.gridops g fname ax f t b fl arr) := by
  apply refused_of_not_ok
  intro res hres
  obtain ⟨_, _, _, _, _, hok, _⟩ := stepAxis_ok_inv o g fname ax f t b fl arr res hres
  rw [hb] at hok
  cases hok

/-- (6) a transform along a periodic axis;  (8) a conservative transform without outer positions -/
theorem transform_guards (ax : AxisM α) (m : TMethod) :
    (ax.boundary = .periodic → refused (transformGuards ax m)) ∧
    (alookup Pos.outer ax.coords = none → refused (transformGuards ax .conservative)) := by
  constructor
  · intro h; simp [transformGuards, h, refused]
  · intro h
    unfold transformGuards
    split
    · exact ⟨_, rfl⟩
    · simp [h, refused]

/-- (7) conservative target bins that are neither strictly increasing nor strictly decreasing -/
theorem nonmonotonic_bins_refused {K : Type} [Add K] [Sub K] [Mul K] [Div K] [LT K] [DecidableLT K]
    [DecidableEq K] [OfNat K 0] (phi : List K) (theta : List (Option K)) (bins : List K)
    (hlen : phi.length + 1 = theta.length)
    (hdec : allAdj (fun a b => decide (b < a)) bins = false)
    (hinc : allAdj (fun a b => decide (a < b)) bins = false) :
    interp1dConservative phi theta bins = .error .value := by
  simp [interp1dConservative, hlen, hdec, hinc]

/-- (9) grid-ufunc inputs on the wrong positions or in the wrong number: C11's theorems -/
theorem ufunc_inputs_refused (g : GridM α) (sig : USig) (args : List (NDArr α))
    (axis : List (List String)) (bw : Option (List (String × Nat × Nat))) (b : KW String) (f : KW α)
    (pb : Bool)
    (h : args.length ≠ axis.length ∨
      positionsOk g axis (sig.ins.map (fun a => a.map (·.2))) (args.map (·.dims)) = false) :
    refused (applyGridUfunc g sig args axis bw b f pb) := by
  rcases h with h | h
  · exact ⟨_, C11.arity_refused g sig args axis bw b f pb h⟩
  · exact C11.off_position_refused g sig args axis bw b f pb h

end Xgcm.C20

import XgcmModel.Model.FacePad
import XgcmModel.Model.Metrics
import XgcmModel.Model.Signature
import XgcmModel.Gen.Sites
/-
  C12 — Results do not depend on the hash seed or on table ordering.
  The model has no seed: wherever the code used to iterate a set, the (repaired) code and the model
  take a canonical order (the order of the grid's axes).  The theorems are order-independence
  statements about the model; hash seeds themselves are a run-time phenomenon, monitored by the
  harness in fresh interpreters.
-/
namespace Xgcm.C12
open Xgcm

variable {α : Type}

/-- looking a key up in an association list with distinct keys does not depend on the order of
    the entries (= a dict does not depend on insertion order) -/
theorem alookup_perm {κ ν : Type} [DecidableEq κ] (l l' : List (κ × ν)) (hp : l.Perm l')
    (hd : (l.map (·.1)).Nodup) (k : κ) : alookup k l = alookup k l' := by
  induction hp with
  | nil => rfl
  | cons x _ ih =>
    simp only [alookup]
    split
    · rfl
    · exact ih (by simpa using (List.nodup_cons.mp (by simpa using hd)).2)
  | swap x y l =>
    simp only [List.map_cons, List.nodup_cons, List.mem_cons, not_or] at hd
    simp only [alookup]
    by_cases h1 : k = y.1 <;> by_cases h2 : k = x.1
    · exfalso; exact hd.1.1 (by rw [← h1, ← h2])
    · simp [h1, h2]
      intro h; exact absurd h hd.1.1
    · simp [h1, h2]
      intro h; exact absurd h.symm hd.1.1
    · simp [h1, h2]
  | trans _ h2 ih1 ih2 =>
    rw [ih1 hd]
    apply ih2
    rename_i l1 l2 l3 h1
    exact (List.Perm.map (·.1) h1).nodup_iff.mp hd

/-- **The padded result depends on the link table only through its content**: a table that gives
    the same links for every face and axis — in particular any re-ordering of the same entries —
    gives the same padded face, corner cells included. -/
theorem pad_table_order_free (c : FPCfg α) (conn' : FaceTable) (data partner : Nat → Arr2 α) (f : Nat)
    (hsame : ∀ g ax, ((alookup g c.conn).bind (fun fl => alookup ax fl)).getD (none, none) =
      ((alookup g conn').bind (fun fl => alookup ax fl)).getD (none, none)) :
    padFaceConnections { c with conn := conn' } data partner f = padFaceConnections c data partner f := by
  have key : ∀ (pd pp : Nat → Arr2 α) (face : Nat) (ax : String) (t : Arr2 α),
      padAxisOfFace { c with conn := conn' } pd pp face ax t = padAxisOfFace c pd pp face ax t := by
    intro pd pp face ax t
    unfold padAxisOfFace
    rw [← hsame face ax]
    rfl
  have hpf : ∀ pd pp, padFace { c with conn := conn' } pd pp f = padFace c pd pp f := by
    intro pd pp
    simp only [padFace, key]
  simp only [padFaceConnections, hpf]
  rfl

/-- re-ordering the faces of the table, or the axes inside a face's entry, keeps every lookup -/
theorem links_perm (conn conn' : FaceTable) (hp : conn.Perm conn') (hd : (conn.map (·.1)).Nodup)
    (g : Nat) (ax : String) :
    ((alookup g conn).bind (fun fl => alookup ax fl)).getD (none, none) =
      ((alookup g conn').bind (fun fl => alookup ax fl)).getD (none, none) := by
  rw [alookup_perm conn conn' hp hd g]

/-- the axes are processed in the order of the grid's axes: permuting the collection of axes that
    need padding (what used to be a set) changes nothing -/
theorem canonical_axis_order (gridAxes needed needed' : List String) (hp : needed.Perm needed') :
    gridAxes.filter (needed.contains ·) = gridAxes.filter (needed'.contains ·) := by
  apply List.filter_congr
  intro a _
  have : a ∈ needed ↔ a ∈ needed' := hp.mem_iff
  by_cases h : a ∈ needed
  · simp [h, this.mp h]
  · have h' : a ∉ needed' := fun hh => h (this.mpr hh)
    simp [h, h']

/-- **The choice among alternative metric products does not depend on the order in which the axes
    are asked for** (they are enumerated in the grid's axis order) -/
theorem metric_choice_order_free (gridAxes q q' : List String) (hp : q.Perm q') :
    gridAxes.filter (q.contains ·) = gridAxes.filter (q'.contains ·) :=
  canonical_axis_order gridAxes q q' hp

/-- **Signature equivalence is symmetric and has no order input**: it compares positions and the
    pattern of first appearances, both functions of the two signatures alone. -/
theorem equivalent_symmetric (a b : Sig) : a.equivalent b = b.equivalent a := by
  unfold Sig.equivalent
  rw [Bool.beq_comm (a := a.shape), Bool.beq_comm (a := firstIdx a.names)]

/-- the places where the sources iterate over, materialise or unpack a SET, reviewed one by one: the
    order cannot reach a result in any of them (the text of an error message; a set that holds exactly
    one tuple; a name that is re-bound to a list before the loop; a list used for membership only) -/
def reviewedSetIterations : List (String × String) :=
  [("grid.py", "metric_axes"),                                   -- axes_not_found: message of the KeyError
   -- every element is checked and the list of dimensions is discarded: the order decides only WHICH
   -- of two refusals is raised for a request that is ill-posed twice (unknown axis AND missing dimension)
   ("grid.py", "self._get_dims_from_axis(array, frozenset(axes))"),
   ("grid.py", "overlap_metrics"),                               -- frozenset(*s): s holds one tuple per registry key
   ("grid.py", "possible_metric_vars"),                          -- re-bound to a list (flow-insensitive analysis)
   ("grid_ufunc.py", "list(kwargs.keys() - _allowedkwargs)"),    -- message of the TypeError
   ("padding.py", "list(set(all_axes))")]                        -- membership tests only (`needed_axes`)

/-- **No other iteration over a set exists in the sources** (`Gen.setIterations` is recomputed from
    xgcm/*.py on every run: loops, comprehensions, list()/tuple()/zip()/enumerate()/dict.fromkeys()/
    join() of set-typed expressions and of local names bound to them, star-unpacking, pop()). -/
theorem set_iterations_are_the_reviewed_ones :
    Gen.setIterations.all (fun s => reviewedSetIterations.contains (s.1, s.2.2)) = true := by
  decide +kernel

/-- non-vacuity: the same two-face table listed in two orders -/
example : alookup 1 [(0, "a"), (1, "b")] = alookup 1 [(1, "b"), (0, "a")] := by decide

end Xgcm.C12

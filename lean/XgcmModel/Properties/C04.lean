import XgcmModel.Properties.C03
import XgcmModel.Spec.C04
import Mathlib.Tactic.Abel
/-
  C04 — Vector components cross rotated face links with the right partner and sign.
-/
set_option linter.unusedSimpArgs false
set_option maxRecDepth 4000
namespace Xgcm.C04
open Xgcm

variable {α : Type}

/-- **Vector link geometry.**  Faces f, g are rotated copies (no mirror) of pieces of a
    global C-grid field (U, V); g sits in the square adjacent to f's upper side of
    axis `a`, its LOWER side of axis `b` faces f (a non-reversed link), the junction is
    expressible.  Then the value the documentation names for f's halo at the upper end
    — the neighbour's SAME component when b = a, its PARTNER component when b ≠ a, taken
    at the first cell inward from the linked edge, at the same or mirrored along-edge
    index, with NO sign change — is exactly f's own component formula continued to
    array index N: the normal flux is continuous across the junction. -/
theorem vector_link_geometry (U V : Int → Int → α) (neg : α → α) (of og : D4)
    (hrf : of.isRot = true) (hrg : og.isRot = true) (a b : Bool)
    (hface : og.lin (sideNormal b false).1 (sideNormal b false).2 =
      (-(of.lin (sideNormal a true).1 (sideNormal a true).2).1, -(of.lin (sideNormal a true).1 (sideNormal a true).2).2))
    (hexpr : expressible of og a true b false = true) (pf : Int × Int) (N t : Int) :
    let d := of.lin (sideNormal a true).1 (sideNormal a true).2
    let pg : Int × Int := (pf.1 + N * d.1, pf.2 + N * d.2)
    let q := docCoord N b true false (a != b) 1 t
    localComp U V neg og pg N b q.1 q.2 =
      localComp U V neg of pf N a (upperHalo N a t).1 (upperHalo N a t).2 := by
  obtain ⟨sw1, fx1, fy1⟩ := of
  obtain ⟨sw2, fx2, fy2⟩ := og
  cases sw1 <;> cases fx1 <;> cases fy1 <;> simp [D4.isRot] at hrf <;>
    cases sw2 <;> cases fx2 <;> cases fy2 <;> simp [D4.isRot] at hrg <;>
    cases a <;> cases b <;>
    simp [D4.lin, sideNormal, sideTangent, expressible] at hface hexpr <;>
    simp [localComp, fluxAt, D4.app, D4.lin, sideNormal, docCoord, upperHalo] <;>
    (first | (congr 1 <;> omega) | (congr 2 <;> omega) | omega)


/-- the face components are the pull-back of the global C-grid field -/
structure IsVectorPullback (U V : Int → Int → α) (neg : α → α) (n : Nat) (place : Nat → Int × Int)
    (orient : Nat → D4) (u v : Nat → Arr2 α) : Prop where
  rot : ∀ g, (orient g).isRot = true
  hu : ∀ g x y, x < n → y < n →
    (u g).get x y = localComp U V neg (orient g) (place g) n false x y
  hv : ∀ g x y, x < n → y < n →
    (v g).get x y = localComp U V neg (orient g) (place g) n true x y

/-- **Normal-flux continuity, X component.**  `pad({X: u}, boundary_width {X: (0, 1)},
    other_component={Y: v})`: the value placed beyond the upper X edge of face f (the one
    `diff`/`interp` of u to cell centres needs) is u's own pull-back formula continued to
    array index n — the neighbour's u across a same-axis link, its v across an
    axis-swapping link, never negated. -/
theorem normal_flux_continuity_X (c : FPCfg α) (u v : Nat → Arr2 α) (n f : Nat)
    (h : C05.Setup c u v n) (hvec : c.vectorAxis = some c.xAxis)
    (hreqX : c.reqX = (0, 1)) (hreqY : c.reqY = (0, 0))
    (U V : Int → Int → α) (place : Nat → Int × Int) (orient : Nat → D4)
    (hpb : IsVectorPullback U V c.neg n place orient u v)
    (g : Nat) (bn : String) (hbn : bn = c.xAxis ∨ bn = c.yAxis)
    (hlink : linkAt (faceLinks c f c.xAxis) 1 = some (g, bn, false))
    (hface : (orient g).lin (sideNormal (bn == c.yAxis) false).1 (sideNormal (bn == c.yAxis) false).2 =
      (-((orient f).lin (sideNormal false true).1 (sideNormal false true).2).1,
       -((orient f).lin (sideNormal false true).1 (sideNormal false true).2).2))
    (hplace : place g = ((place f).1 + n * ((orient f).lin (sideNormal false true).1 (sideNormal false true).2).1,
                         (place f).2 + n * ((orient f).lin (sideNormal false true).1 (sideNormal false true).2).2))
    (hexpr : expressible (orient f) (orient g) false true (bn == c.yAxis) false = true)
    (t : Nat) (ht : t < n) :
    (padFaceConnections c u v f).get n t =
      localComp U V c.neg (orient f) (place f) n false n t := by
  have hne := h.both.1
  have hn1 : 1 ≤ n := by have := h.wpos; have := h.wle; omega
  have hswap : (bn != c.xAxis) = (bn == c.yAxis) := by
    rcases hbn with e | e
    · subst e; simp [hne]
    · subst e
      have : ¬ (c.yAxis = c.xAxis) := fun hh => hne hh.symm
      simp [this]
  have hc := C05.halo_cell_X c u v n f h n t (by rw [hreqX]; omega) (Or.inr (by rw [hreqX]; omega))
    (by rw [hreqY]; omega) (by rw [hreqY]; omega)
  rw [hc]
  have e0 : ((n : Nat) : Int) - ((c.reqX.1 : Nat) : Int) = (n : Int) := by rw [hreqX]; simp
  have e1 : t - c.reqY.1 = t := by rw [hreqY]; simp
  rw [e0, e1]
  have hneg : ¬ ((n : Int) < 0) := by omega
  have hk : ((n : Int) - (n : Int) + 1).toNat = 1 := by omega
  have lg := vector_link_geometry U V c.neg (orient f) (orient g) (hpb.rot f) (hpb.rot g) false
    (bn == c.yAxis) hface hexpr (place f) n t
  simp only at lg
  rw [← hplace] at lg
  simp only [specHaloX, hneg, if_false, hlink, hvec, Option.isSome_some, Bool.true_and, hk, hswap,
    Bool.false_eq_true, Bool.false_and, Bool.not_false, Bool.and_true, Nat.sub_self, if_true,
    Nat.one_ne_zero, bne_self_eq_false, Bool.and_false, Bool.or_false]
  have hup : localComp U V c.neg (orient f) (place f) (↑n) false (upperHalo (↑n) false ↑t).1
      (upperHalo (↑n) false ↑t).2 = localComp U V c.neg (orient f) (place f) (↑n) false ↑n ↑t := by
    simp [upperHalo]
  rw [hup] at lg
  rw [← lg]
  cases hb : (bn == c.yAxis)
  · simp only [Bool.false_eq_true, if_false]
    rw [hpb.hu g 0 t (by omega) ht]
    simp [docCoord]
  · simp only [if_true]
    rw [hpb.hv g (n - 1 - t) 0 (by omega) (by omega)]
    simp only [docCoord, Bool.false_eq_true, if_false, if_true, Bool.not_false, Bool.and_true, bne,
      Bool.not_true, Bool.true_and, beq_self_eq_true, Bool.false_beq, Bool.not_eq_true', reduceCtorEq, ↓reduceIte,
      BEq.beq, decide_true, decide_false]
    have c3 : ((n - 1 - t : Nat) : Int) = (n : Int) - 1 - t := by omega
    simp [c3]


/-- **Normal-flux continuity, Y component** — `pad({Y: v}, {Y: (0, 1)}, other_component={X: u})`. -/
theorem normal_flux_continuity_Y (c : FPCfg α) (u v : Nat → Arr2 α) (n f : Nat)
    (h : C05.Setup c v u n) (hvec : c.vectorAxis = some c.yAxis)
    (hreqX : c.reqX = (0, 0)) (hreqY : c.reqY = (0, 1))
    (U V : Int → Int → α) (place : Nat → Int × Int) (orient : Nat → D4)
    (hpb : IsVectorPullback U V c.neg n place orient u v)
    (g : Nat) (bn : String) (hbn : bn = c.xAxis ∨ bn = c.yAxis)
    (hlink : linkAt (faceLinks c f c.yAxis) 1 = some (g, bn, false))
    (hface : (orient g).lin (sideNormal (bn == c.yAxis) false).1 (sideNormal (bn == c.yAxis) false).2 =
      (-((orient f).lin (sideNormal true true).1 (sideNormal true true).2).1,
       -((orient f).lin (sideNormal true true).1 (sideNormal true true).2).2))
    (hplace : place g = ((place f).1 + n * ((orient f).lin (sideNormal true true).1 (sideNormal true true).2).1,
                         (place f).2 + n * ((orient f).lin (sideNormal true true).1 (sideNormal true true).2).2))
    (hexpr : expressible (orient f) (orient g) true true (bn == c.yAxis) false = true)
    (t : Nat) (ht : t < n) :
    (padFaceConnections c v u f).get t n =
      localComp U V c.neg (orient f) (place f) n true t n := by
  have hne := h.both.1
  have hn1 : 1 ≤ n := by have := h.wpos; have := h.wle; omega
  have hswap : (bn != c.yAxis) = !(bn == c.yAxis) := by simp [bne]
  have hc := C05.halo_cell_Y c v u n f h t n (by rw [hreqY]; omega) (Or.inr (by rw [hreqY]; omega))
    (by rw [hreqX]; omega) (by rw [hreqX]; omega)
  rw [hc]
  have e0 : ((n : Nat) : Int) - ((c.reqY.1 : Nat) : Int) = (n : Int) := by rw [hreqY]; simp
  have e1 : t - c.reqX.1 = t := by rw [hreqX]; simp
  rw [e0, e1]
  have hneg : ¬ ((n : Int) < 0) := by omega
  have hk : ((n : Int) - (n : Int) + 1).toNat = 1 := by omega
  have lg := vector_link_geometry U V c.neg (orient f) (orient g) (hpb.rot f) (hpb.rot g) true
    (bn == c.yAxis) hface hexpr (place f) n t
  simp only at lg
  rw [← hplace] at lg
  have hup : localComp U V c.neg (orient f) (place f) (↑n) true (upperHalo (↑n) true ↑t).1
      (upperHalo (↑n) true ↑t).2 = localComp U V c.neg (orient f) (place f) (↑n) true ↑t ↑n := by
    simp [upperHalo]
  rw [hup] at lg
  simp only [specHaloY, hneg, if_false, hlink, hvec, Option.isSome_some, Bool.true_and, hk, hswap,
    Bool.false_eq_true, Bool.false_and, Bool.not_false, Bool.and_true, Nat.sub_self, if_true,
    Nat.one_ne_zero, bne_self_eq_false, Bool.and_false, Bool.or_false]
  rw [← lg]
  cases hb : (bn == c.yAxis)
  · simp only [Bool.not_false, if_true]
    rw [hpb.hu g 0 (n - 1 - t) (by omega) (by omega)]
    simp only [docCoord, Bool.false_eq_true, if_false, if_true, Bool.not_false, Bool.and_true, bne,
      Bool.not_true, Bool.true_and, beq_self_eq_true, Bool.false_beq, Bool.not_eq_true', reduceCtorEq, ↓reduceIte,
      BEq.beq, decide_true, decide_false]
    have c3 : ((n - 1 - t : Nat) : Int) = (n : Int) - 1 - t := by omega
    simp [c3]
  · simp only [Bool.not_true, Bool.false_eq_true, if_false]
    rw [hpb.hv g t 0 ht (by omega)]
    simp [docCoord]


/-- **The divergence is that of the undivided field.**  For every rotation of the face,
    the local discrete divergence of the pulled-back components at local cell (x, y) — with
    the component formulas continued one index beyond the face, which by
    `normal_flux_continuity_X/Y` is what the padded arrays contain — equals the divergence
    of (U, V) at the corresponding global cell. -/
theorem divergence_cut_invariant {β : Type} [AddCommGroup β] (U V : Int → Int → β) (o : D4)
    (hr : o.isRot = true) (p : Int × Int) (N x y : Int) :
    (localComp U V Neg.neg o p N false (x + 1) y - localComp U V Neg.neg o p N false x y) +
    (localComp U V Neg.neg o p N true x (y + 1) - localComp U V Neg.neg o p N true x y) =
    (U (p.1 + (o.app N x y).1 + 1) (p.2 + (o.app N x y).2) - U (p.1 + (o.app N x y).1) (p.2 + (o.app N x y).2)) +
    (V (p.1 + (o.app N x y).1) (p.2 + (o.app N x y).2 + 1) - V (p.1 + (o.app N x y).1) (p.2 + (o.app N x y).2)) := by
  obtain ⟨sw, fx, fy⟩ := o
  cases sw <;> cases fx <;> cases fy <;> simp [D4.isRot] at hr <;>
    simp [localComp, fluxAt, D4.app, D4.lin]
  · -- identity
    abel
  · -- rotation by 180°
    have e1 : p.1 + (N - 1 - (x + 1)) + 1 = p.1 + (N - 1 - x) := by omega
    have e2 : p.2 + (N - 1 - (y + 1)) + 1 = p.2 + (N - 1 - y) := by omega
    rw [e1, e2]; abel
  · -- rotation by -90°
    have e1 : p.2 + (N - 1 - (x + 1)) + 1 = p.2 + (N - 1 - x) := by omega
    have e2 : p.1 + (y + 1) = p.1 + y + 1 := by omega
    rw [e1, e2]; abel
  · -- rotation by +90°
    have e1 : p.1 + (N - 1 - (y + 1)) + 1 = p.1 + (N - 1 - y) := by omega
    have e2 : p.2 + (x + 1) = p.2 + x + 1 := by omega
    rw [e1, e2]; abel

end Xgcm.C04

import XgcmModel.Model.Coords
/-
  C19 — Outputs are labelled with the grid's coordinates for the new position.
-/
namespace Xgcm.C19
open Xgcm

/-- **The coordinate of the new dimension is the grid dataset's coordinate** for the target
    position whenever the dataset has one (a dimension coordinate is named like its dimension). -/
theorem new_dim_coord_is_dataset_coord (dsCoords : List CoordM) (dims : List String) (old new : String)
    (keep : Bool) (hold : old ∈ dims) (c : CoordM) (hc : c ∈ dsCoords) (hname : c.name = new)
    (hdims : c.dims = [new]) :
    c ∈ reattach dsCoords (shiftDims dims old new) keep := by
  have hin : new ∈ shiftDims dims old new := by
    simp only [shiftDims, List.mem_map]
    exact ⟨old, hold, by simp⟩
  simp only [reattach, List.mem_filter]
  refine ⟨⟨hc, ?_⟩, ?_⟩
  · simp [hdims, hin]
  · simp [hname, hin]

/-- **Dimension coordinates of untouched dimensions are kept.** -/
theorem untouched_dim_coords_kept (dsCoords : List CoordM) (dims : List String) (old new d : String)
    (keep : Bool) (hd : d ∈ dims) (hne : d ≠ old) (c : CoordM) (hc : c ∈ dsCoords) (hname : c.name = d)
    (hdims : c.dims = [d]) :
    c ∈ reattach dsCoords (shiftDims dims old new) keep := by
  have hin : d ∈ shiftDims dims old new := by
    simp only [shiftDims, List.mem_map]
    exact ⟨d, hd, by simp [hne]⟩
  simp only [reattach, List.mem_filter]
  refine ⟨⟨hc, ?_⟩, ?_⟩
  · simp [hdims, hin]
  · simp [hname, hin]

/-- **No stale coordinate**: nothing defined on the abandoned dimension is on the result. -/
theorem no_stale_coord (dsCoords : List CoordM) (dims : List String) (old new : String) (keep : Bool)
    (hnew : new ≠ old) (hnodup : ∀ d ∈ dims, d = old ∨ d ≠ old) (c : CoordM)
    (hc : c ∈ reattach dsCoords (shiftDims dims old new) keep) : old ∉ c.dims := by
  simp only [reattach, List.mem_filter, List.all_eq_true] at hc
  intro hmem
  have := hc.1.2 old hmem
  simp only [shiftDims, List.contains_iff_mem, List.mem_map] at this
  obtain ⟨d, _, hd⟩ := this
  by_cases hdo : d = old
  · simp [hdo] at hd; exact hnew hd
  · simp [hdo] at hd

/-- **Other coordinates of the grid dataset are attached exactly when they fit the result's
    dimensions and keep_coords is true.** -/
theorem other_coords_iff_fit_and_keep (dsCoords : List CoordM) (resDims : List String) (keep : Bool)
    (c : CoordM) (hc : c ∈ dsCoords) (hnd : resDims.contains c.name = false) :
    c ∈ reattach dsCoords resDims keep ↔ (c.dims.all (resDims.contains ·) = true ∧ keep = true) := by
  have hnd' : c.name ∉ resDims := by simpa using hnd
  simp [reattach, List.mem_filter, hc, hnd']
  constructor
  · rintro ⟨h1, h2⟩; exact ⟨h2, h1⟩
  · rintro ⟨h1, h2⟩; exact ⟨h2, h1⟩

/-- nothing is invented: every coordinate on the result is one of the grid dataset's, and all its
    dimensions are dimensions of the result -/
theorem attached_are_dataset_coords_that_fit (dsCoords : List CoordM) (resDims : List String) (keep : Bool)
    (c : CoordM) (hc : c ∈ reattach dsCoords resDims keep) :
    c ∈ dsCoords ∧ ∀ d ∈ c.dims, d ∈ resDims := by
  simp only [reattach, List.mem_filter, List.all_eq_true] at hc
  exact ⟨hc.1.1, fun d hd => by simpa using hc.1.2 d hd⟩

/-- with keep_coords = False only dimension coordinates remain -/
theorem without_keep_only_dimension_coords (dsCoords : List CoordM) (resDims : List String) (c : CoordM)
    (hc : c ∈ reattach dsCoords resDims false) : c.name ∈ resDims := by
  simp only [reattach, List.mem_filter, Bool.false_or] at hc
  simpa using hc.2

/-- the labelling depends on the SET of result dimensions only, not on their order (the order in
    which several axes were operated on, transposed inputs) -/
theorem labelling_dim_order_free (dsCoords : List CoordM) (d1 d2 : List String) (keep : Bool)
    (h : ∀ x, x ∈ d1 ↔ x ∈ d2) : reattach dsCoords d1 keep = reattach dsCoords d2 keep := by
  have hc : ∀ x, d1.contains x = d2.contains x := by
    intro x
    by_cases hx : x ∈ d1
    · have := (h x).1 hx; simp [hx, this]
    · have : x ∉ d2 := fun h2 => hx ((h x).2 h2)
      simp [hx, this]
  simp only [reattach, hc]

/-- shifting two different axes in either order leaves the same dimensions -/
theorem shifts_commute (dims : List String) (a a' b b' : String) (hab : a ≠ b) (h1 : a' ≠ b) (h2 : b' ≠ a) :
    shiftDims (shiftDims dims a a') b b' = shiftDims (shiftDims dims b b') a a' := by
  simp only [shiftDims, List.map_map]
  apply List.map_congr_left
  intro d _
  simp only [Function.comp]
  by_cases hda : d = a
  · subst hda; simp [hab, h1]
  · by_cases hdb : d = b
    · subst hdb; simp [hda, h2]
    · simp [hda, hdb]

/-- non-vacuity -/
example : reattach [⟨"xc", ["xc"]⟩, ⟨"xg", ["xg"]⟩, ⟨"lon_g", ["xg", "yc"]⟩, ⟨"yc", ["yc"]⟩, ⟨"mask_c", ["xc", "yc"]⟩]
    (shiftDims ["yc", "xc"] "xc" "xg") true = [⟨"xg", ["xg"]⟩, ⟨"lon_g", ["xg", "yc"]⟩, ⟨"yc", ["yc"]⟩] := by
  decide +kernel

end Xgcm.C19

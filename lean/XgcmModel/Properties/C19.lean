import XgcmModel.Model.Coords
/-
  C19 — Outputs are labelled with the grid's coordinates for the new position.
-/
namespace Xgcm.C19
open Xgcm

/-- **The coordinate of the new dimension is the grid dataset's coordinate** for the target
    position whenever the dataset has one (a dimension coordinate is named like its dimension). -/
theorem new_dim_coord_is_dataset_coord (dsCoords : List CoordM) (dims : List String) (old new : String)
    (keep : Bool) (hold : old ∈ dims) (c : CoordM) (hc : c ∈ dsCoords) (hname : c.name = new)
    (hdims : c.dims = [new]) :
    c ∈ reattach dsCoords (shiftDims dims old new) keep := by
  have hin : new ∈ shiftDims dims old new := by
    simp only [shiftDims, List.mem_map]
    exact ⟨old, hold, by simp⟩
  simp only [reattach, List.mem_filter]
  refine ⟨⟨hc, ?_⟩, ?_⟩
  · simp [hdims, hin]
  · simp [hname, hin]

/-- **Dimension coordinates of untouched dimensions are kept.** -/
theorem untouched_dim_coords_kept (dsCoords : List CoordM) (dims : List String) (old new d : String)
    (keep : Bool) (hd : d ∈ dims) (hne : d ≠ old) (c : CoordM) (hc : c ∈ dsCoords) (hname : c.name = d)
    (hdims : c.dims = [d]) :
    c ∈ reattach dsCoords (shiftDims dims old new) keep := by
  have hin : d ∈ shiftDims dims old new := by
    simp only [shiftDims, List.mem_map]
    exact ⟨d, hd, by simp [hne]⟩
  simp only [reattach, List.mem_filter]
  refine ⟨⟨hc, ?_⟩, ?_⟩
  · simp [hdims, hin]
  · simp [hname, hin]

/-- **No stale coordinate**: nothing defined on the abandoned dimension is on the result. -/
theorem no_stale_coord (dsCoords : List CoordM) (dims : List String) (old new : String) (keep : Bool)
    (hnew : new ≠ old) (hnodup : ∀ d ∈ dims, d = old ∨ d ≠ old) (c : CoordM)
    (hc : c ∈ reattach dsCoords (shiftDims dims old new) keep) : old ∉ c.dims := by
  simp only [reattach, List.mem_filter, List.all_eq_true] at hc
  intro hmem
  have := hc.1.2 old hmem
  simp only [shiftDims, List.contains_iff_mem, List.mem_map] at this
  obtain ⟨d, _, hd⟩ := this
  by_cases hdo : d = old
  · simp [hdo] at hd; exact hnew hd
  · simp [hdo] at hd

/-- **Other coordinates of the grid dataset are attached exactly when they fit the result's
    dimensions and keep_coords is true.** -/
theorem other_coords_iff_fit_and_keep (dsCoords : List CoordM) (resDims : List String) (keep : Bool)
    (c : CoordM) (hc : c ∈ dsCoords) (hnd : resDims.contains c.name = false) :
    c ∈ reattach dsCoords resDims keep ↔ (c.dims.all (resDims.contains ·) = true ∧ keep = true) := by
  have hnd' : c.name ∉ resDims := by simpa using hnd
  simp [reattach, List.mem_filter, hc, hnd']
  constructor
  · rintro ⟨h1, h2⟩; exact ⟨h2, h1⟩
  · rintro ⟨h1, h2⟩; exact ⟨h2, h1⟩

/-- non-vacuity -/
example : reattach [⟨"xc", ["xc"]⟩, ⟨"xg", ["xg"]⟩, ⟨"lon_g", ["xg", "yc"]⟩, ⟨"yc", ["yc"]⟩, ⟨"mask_c", ["xc", "yc"]⟩]
    (shiftDims ["yc", "xc"] "xc" "xg") true = [⟨"xg", ["xg"]⟩, ⟨"lon_g", ["xg", "yc"]⟩, ⟨"yc", ["yc"]⟩] := by
  decide +kernel

end Xgcm.C19

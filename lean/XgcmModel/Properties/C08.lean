import XgcmModel.Model.TransformGuards
import XgcmModel.Model.Linear
import XgcmModel.Proofs.Conservative
/-
  C08 — Linear and log transforms are exact piecewise-linear interpolation per column.
  Over every linearly ordered field.
-/
namespace Xgcm.C08
open Xgcm

variable {K : Type} [Field K] [LinearOrder K] [IsStrictOrderedRing K]

/-- the value at `x` of the line through (a, fa) and (b, fb) -/
def seg (a b fa fb x : K) : K := ((fb - fa) / (b - a)) * (x - a) + fa

/-- scanning the segments finds the one that contains x and evaluates its line -/
theorem npInterpAux_pwl (xp fp : List K) (x : K) (hinc : Inc xp) (hlen : xp.length = fp.length)
    (h2 : 2 ≤ xp.length) (h0 : xp.headD 0 ≤ x) (h1 : x < xp.getLastD 0) :
    ∃ j, ∃ (hj : j + 1 < xp.length), xp[j] ≤ x ∧ x < xp[j + 1] ∧
      npInterpAux x xp fp = some (seg xp[j] xp[j + 1] (fp[j]'(by omega)) (fp[j + 1]'(by omega)) x) := by
  induction xp generalizing fp with
  | nil => simp at h2
  | cons a rest ih =>
    cases rest with
    | nil => simp at h2
    | cons b r =>
      cases fp with
      | nil => simp at hlen
      | cons fa frest =>
        cases frest with
        | nil => simp at hlen
        | cons fb fr =>
          by_cases hxb : x < b
          · refine ⟨0, by simp, ?_, ?_, ?_⟩
            · simpa using h0
            · simpa using hxb
            · simp [npInterpAux, hxb, seg]
          · have hbx : b ≤ x := not_lt.mp hxb
            cases r with
            | nil =>
              -- x < last = b contradicts b ≤ x
              simp only [List.getLastD_cons] at h1
              exact absurd h1 (by simpa using hxb)
            | cons c r' =>
              have := ih (fb :: fr) hinc.2 (by simpa using hlen) (by simp) (by simpa using hbx)
                (by simpa [List.getLastD_cons] using h1)
              obtain ⟨j, hj, hj1, hj2, hj3⟩ := this
              refine ⟨j + 1, by simp at hj ⊢; omega, ?_, ?_, ?_⟩
              · simpa using hj1
              · simpa using hj2
              · simp only [npInterpAux, hxb, if_false]
                rw [hj3]
                rfl

/-- **Inside the range: the piecewise-linear interpolant.**  For strictly increasing
    target_data (any length ≥ 2) and a level within its range (the last node is covered by
    `npInterp_at_last`), `np.interp` returns the value at that level of the line through the
    two bracketing points. -/
theorem npInterp_is_pwl (xp fp : List K) (x : K) (hinc : Inc xp) (hlen : xp.length = fp.length)
    (h2 : 2 ≤ xp.length) (h0 : xp.headD 0 ≤ x) (hlt : x < xp.getLastD 0) :
    ∃ j, ∃ (hj : j + 1 < xp.length), xp[j] ≤ x ∧ x < xp[j + 1] ∧
      npInterp xp fp x = some (seg xp[j] xp[j + 1] (fp[j]'(by omega)) (fp[j + 1]'(by omega)) x) := by
  obtain ⟨j, hj, a1, a2, a3⟩ := npInterpAux_pwl xp fp x hinc hlen h2 h0 hlt
  refine ⟨j, hj, a1, a2, ?_⟩
  cases xp with
  | nil => simp at h2
  | cons a r =>
    cases fp with
    | nil => simp at hlen
    | cons fa fr =>
      have hxa : ¬ (x < a) := not_lt.mpr (by simpa using h0)
      have hz : (a :: r).getLast? = some ((a :: r).getLastD 0) := by
        simp [List.getLast?_eq_getLast, List.getLastD]
      have hfz : ∃ fz, (fa :: fr).getLast? = some fz := ⟨_, List.getLast?_eq_getLast (by simp)⟩
      obtain ⟨fz, hfz⟩ := hfz
      simp only [npInterp, hxa, if_false, hz, hfz]
      have hn1 : ¬ ((a :: r).getLastD 0 < x) := not_lt.mpr (le_of_lt hlt)
      have hn2 : ¬ (x = (a :: r).getLastD 0) := ne_of_lt hlt
      simp only [hn1, hn2, if_false]
      exact a3

/-- at the last node: the last value -/
theorem npInterp_at_last (xp fp : List K) (hinc : Inc xp) (hlen : xp.length = fp.length)
    (h1 : 1 ≤ xp.length) :
    npInterp xp fp (xp.getLastD 0) = some (fp.getLastD 0) := by
  cases xp with
  | nil => simp at h1
  | cons a r =>
    cases fp with
    | nil => simp at hlen
    | cons fa fr =>
      have hz : (a :: r).getLast? = some ((a :: r).getLastD 0) := by
        simp [List.getLast?_eq_getLast, List.getLastD]
      have hfz : (fa :: fr).getLast? = some ((fa :: fr).getLastD 0) := by
        simp [List.getLast?_eq_getLast, List.getLastD]
      have hle := Inc.head_le_last a r hinc
      by_cases hxa : (a :: r).getLastD 0 < a
      · exact absurd hxa (not_lt.mpr hle)
      · simp only [npInterp, hxa, if_false, hz, hfz, lt_irrefl, if_true]

/-- **Outside the range (mask_edges off): the nearest end value.** -/
theorem npInterp_outside (xp fp : List K) (x : K) (hinc : Inc xp) (hlen : xp.length = fp.length)
    (h1 : 1 ≤ xp.length) :
    (x < xp.headD 0 → npInterp xp fp x = some (fp.headD 0)) ∧
    (xp.getLastD 0 < x → npInterp xp fp x = some (fp.getLastD 0)) := by
  cases xp with
  | nil => simp at h1
  | cons a r =>
    cases fp with
    | nil => simp at hlen
    | cons fa fr =>
      have hz : (a :: r).getLast? = some ((a :: r).getLastD 0) := by
        simp [List.getLast?_eq_getLast, List.getLastD]
      have hfz : (fa :: fr).getLast? = some ((fa :: fr).getLastD 0) := by
        simp [List.getLast?_eq_getLast, List.getLastD]
      have hle := Inc.head_le_last a r hinc
      constructor
      · intro hx
        have hx' : x < a := by simpa using hx
        simp [npInterp, hx']
      · intro hx
        have hxa : ¬ (x < a) := not_lt.mpr (le_trans hle (le_of_lt hx))
        simp only [npInterp, hxa, if_false, hz, hfz, hx, if_true]

theorem listMin_inc (a : K) (r : List K) (h : Inc (a :: r)) : listMin (a :: r) = some a := by
  simp only [listMin]
  congr 1
  induction r generalizing a with
  | nil => rfl
  | cons b r' ih =>
    simp only [List.foldl_cons]
    have hab := h.1
    rw [if_neg (not_lt.mpr (le_of_lt hab))]
    -- fold over the rest never goes below a since every later element exceeds b > a
    have : ∀ (m : K) (l : List K), (∀ y ∈ l, m < y) → l.foldl (fun m x => if x < m then x else m) m = m := by
      intro m l
      induction l generalizing m with
      | nil => intro _; rfl
      | cons y l' ih' =>
        intro hy
        simp only [List.foldl_cons]
        rw [if_neg (not_lt.mpr (le_of_lt (hy y (by simp))))]
        exact ih' m (fun z hz => hy z (by simp [hz]))
    apply this
    intro y hy
    have hby : b ≤ y := by
      have key : ∀ (b : K) (l : List K), Inc (b :: l) → ∀ y ∈ l, b < y := by
        intro b l
        induction l generalizing b with
        | nil => intro _ y hy; simp at hy
        | cons c l' ihl =>
          intro hinc y hy
          rcases List.mem_cons.mp hy with rfl | hy'
          · exact hinc.1
          · exact lt_trans hinc.1 (ihl c hinc.2 y hy')
      exact le_of_lt (key b r' h.2 y hy)
    exact lt_of_lt_of_le hab hby

/-- **Edge masking is exact at the ends**: with mask_edges on, a level below the first
    (smallest) target_data value is masked, the first value itself is not. -/
theorem mask_below (phi theta : List K) (lev : K) (a : K) (r : List K) (hth : theta = a :: r)
    (hinc : Inc theta) (hlen : theta.length = phi.length) :
    (lev < a → interp1dLinear phi theta [lev] true true = [none]) ∧
    (interp1dLinear phi theta [a] true true ≠ [none]) := by
  subst hth
  have hmin := listMin_inc a r hinc
  constructor
  · intro hlt
    simp only [interp1dLinear, Bool.not_true, Bool.false_and, Bool.false_eq_true, if_false, List.map_cons,
      List.map_nil, if_true, hmin]
    cases hmax : listMax (a :: r) with
    | none => simp [listMax] at hmax
    | some tmax => simp [hlt]
  · simp only [interp1dLinear, Bool.not_true, Bool.false_and, Bool.false_eq_true, if_false, List.map_cons,
      List.map_nil, if_true, hmin]
    cases hmax : listMax (a :: r) with
    | none => simp [listMax] at hmax
    | some tmax =>
      have hle : a ≤ tmax := by
        -- the maximum is at least the first element
        simp only [listMax, Option.some.injEq] at hmax
        subst hmax
        have : ∀ (m : K) (l : List K), m ≤ l.foldl (fun m x => if m < x then x else m) m := by
          intro m l
          induction l generalizing m with
          | nil => exact le_refl _
          | cons y l' ih =>
            simp only [List.foldl_cons]
            split_ifs with hmy
            · exact le_trans (le_of_lt hmy) (ih y)
            · exact ih m
        exact this a r
      cases phi with
      | nil => simp at hlen
      | cons fa fr =>
        simp only [lt_irrefl, not_lt.mpr hle, or_self, if_false, npInterp]
        intro hcon
        simp only [List.cons.injEq, and_true] at hcon
        cases hr : (a :: r).getLast? with
        | none => simp at hr
        | some z =>
          cases hfr : (fa :: fr).getLast? with
          | none => simp at hfr
          | some fz =>
            simp only [hr, hfr] at hcon
            split_ifs at hcon
            -- all branches return `some …` except the scan, which starts with x = a
            all_goals (first | cases hcon | skip)
            cases r with
            | nil => simp at hr; subst hr; simp_all
            | cons b r' =>
              cases fr with
              | nil => simp at hlen
              | cons fb fr' =>
                simp [npInterpAux, hinc.1] at hcon

/-- **Either direction.**  Reversing target_data and data together (a strictly decreasing
    profile) changes nothing: the kernel flips both back. -/
theorem direction_invariant (phi theta levels : List K) (mask : Bool) (hinc : Inc theta)
    (h2 : 2 ≤ theta.length) :
    interp1dLinear phi.reverse theta.reverse levels mask false =
      interp1dLinear phi theta levels mask false := by
  cases theta with
  | nil => simp at h2
  | cons a r =>
    have hlast : ∃ z, (a :: r).getLast? = some z ∧ a < z := by
      cases r with
      | nil => simp at h2
      | cons b r' =>
        refine ⟨(a :: b :: r').getLastD 0, by simp [List.getLast?_eq_some_getLast, List.getLastD], ?_⟩
        have := Inc.head_le_last b r' hinc.2
        simp only [List.getLastD_cons] at this ⊢
        exact lt_of_lt_of_le hinc.1 this
    obtain ⟨z, hz, haz⟩ := hlast
    have h1 : (a :: r).reverse.head? = some z := by rw [List.head?_reverse, hz]
    have h2' : (a :: r).reverse.getLast? = some a := by simp
    simp only [interp1dLinear, Bool.not_false, Bool.true_and, h1, h2', haz, decide_true, if_true,
      List.reverse_reverse, List.head?_cons, hz, not_lt.mpr (le_of_lt haz), decide_false,
      Bool.false_eq_true, if_false]

/-- **Levels are handled independently and in the given order.** -/
theorem levels_map (phi theta : List K) (l1 l2 : List K) (mask bypass : Bool) :
    interp1dLinear phi theta (l1 ++ l2) mask bypass =
      interp1dLinear phi theta l1 mask bypass ++ interp1dLinear phi theta l2 mask bypass := by
  simp [interp1dLinear]

/-- a strictly increasing transformation (the logarithm on positive values) keeps a profile
    strictly increasing … -/
theorem map_inc (L : K → K) (hL : ∀ a b, a < b → L a < L b) (l : List K) (h : Inc l) : Inc (l.map L) := by
  induction l with
  | nil => trivial
  | cons a r ih =>
    cases r with
    | nil => trivial
    | cons b q => exact ⟨hL a b h.1, ih h.2⟩

/-- … so **method 'log' is the same interpolation in the logarithms**: at a level inside the range
    it returns the value at `L lev` of the line through the two points that bracket `lev`, drawn
    against the transformed target_data - for every strictly increasing `L`, every column length. -/
theorem log_is_pwl_in_logs (L : K → K) (hL : ∀ a b, a < b → L a < L b) (phi theta : List K) (lev : K)
    (hinc : Inc theta) (hlen : theta.length = phi.length) (h2 : 2 ≤ theta.length)
    (h0 : theta.headD 0 ≤ lev) (hlt : lev < theta.getLastD 0) :
    ∃ j, ∃ (hj : j + 1 < theta.length), theta[j] ≤ lev ∧ lev < theta[j + 1] ∧
      interp1dLog L phi theta [lev] false true =
        [some (seg (L theta[j]) (L theta[j + 1]) (phi[j]'(by omega)) (phi[j + 1]'(by omega)) (L lev))] := by
  have hmono : ∀ a b, a ≤ b → L a ≤ L b := by
    intro a b hab
    rcases lt_or_eq_of_le hab with h | h
    · exact le_of_lt (hL a b h)
    · rw [h]
  have hinj : ∀ a b, L a ≤ L b → a ≤ b := by
    intro a b hab
    by_contra hc
    exact absurd (hL b a (lt_of_not_ge hc)) (not_lt_of_ge hab)
  have hlt' : ∀ a b, L a < L b → a < b := by
    intro a b hab
    by_contra hc
    exact absurd (hmono b a (le_of_not_gt hc)) (not_le_of_gt hab)
  have hlenm : (theta.map L).length = phi.length := by simpa using hlen
  have h2m : 2 ≤ (theta.map L).length := by simpa using h2
  have hhead : (theta.map L).headD 0 ≤ L lev := by
    cases theta with
    | nil => simp at h2
    | cons a r => simpa using hmono _ _ (by simpa using h0)
  have hlast : L lev < (theta.map L).getLastD 0 := by
    rw [List.getLastD_eq_getLast?, List.getLast?_map]
    rw [List.getLastD_eq_getLast?] at hlt
    cases hth : theta.getLast? with
    | none => simp [List.getLast?_eq_none_iff] at hth; subst hth; simp at h2
    | some z => rw [hth] at hlt; simpa using hL _ _ hlt
  obtain ⟨j, hj, hj1, hj2, hval⟩ :=
    npInterp_is_pwl (theta.map L) phi (L lev) (map_inc L hL theta hinc) hlenm h2m hhead hlast
  have hj' : j + 1 < theta.length := by simpa using hj
  refine ⟨j, hj', hinj _ _ (by simpa using hj1), hlt' _ _ (by simpa using hj2), ?_⟩
  simp only [interp1dLog, interp1dLinear, Bool.not_true, Bool.false_and, Bool.false_eq_true, if_false,
    List.map_cons, List.map_nil]
  rw [hval]
  simp

/-- edge masking is decided in the logarithms exactly as in the original values -/
theorem log_mask_below (L : K → K) (hL : ∀ a b, a < b → L a < L b) (phi theta : List K) (lev a : K)
    (r : List K) (hth : theta = a :: r) (hinc : Inc theta) (hlen : theta.length = phi.length) :
    (lev < a → interp1dLog L phi theta [lev] true true = [none]) ∧
    (interp1dLog L phi theta [a] true true ≠ [none]) := by
  have h := mask_below phi (theta.map L) (L lev) (L a) (r.map L) (by simp [hth])
    (map_inc L hL theta hinc) (by simpa using hlen)
  exact ⟨fun hl => h.1 (hL _ _ hl), h.2⟩

/-- **The new dimension is named after the target, or after target_data for a bare array.** -/
theorem new_dimension_name (d : String) (tdata : Option (Option String)) (axisDim : String) :
    transformDimName (.oneDim d) none tdata axisDim = some d ∧
    (∀ k td, transformDimName k (some td) tdata axisDim = some td) ∧
    (∀ n, transformDimName .bare none (some (some n)) axisDim = some n) ∧
    transformDimName .bare none none axisDim = some axisDim ∧
    transformDimName .bare none (some none) axisDim = some "TRANSFORMED_DIMENSION" := by
  refine ⟨rfl, fun k td => rfl, fun n => rfl, rfl, rfl⟩

/-- **The result is named after the input plus the suffix.** -/
theorem result_name (n sfx : String) (hn : n ≠ "") :
    transformResultName (some n) (some sfx) = some (n ++ sfx) ∧
    transformResultName (some n) none = some (n ++ "_transformed") := by
  simp [transformResultName, hn]

/-- non-vacuity -/
example : Inc ([0, 1, 3] : List Rat) ∧ 2 ≤ ([0, 1, 3] : List Rat).length := by
  refine ⟨⟨by norm_num, by norm_num, trivial⟩, by decide⟩

end Xgcm.C08

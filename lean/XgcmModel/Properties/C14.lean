import XgcmModel.Model.Parsers
import XgcmModel.Gen.Tables
/-
  C14 — Metadata autoparsing recovers exactly the topology the conventions prescribe.
-/
namespace Xgcm.C14
open Xgcm

/-- the COMODO table: how a coordinate at position `p` of an axis with `n` cells is laid out
    (`sgn` picks the sign of the — irrelevant — shift attribute of inner / outer coordinates) -/
def mkCoord (n : Nat) (p : Pos) (name : String) (sgn : Bool) : CCoord :=
  match p with
  | .center => ⟨name, n, none⟩
  | .left => ⟨name, n, some (-1)⟩
  | .right => ⟨name, n, some 1⟩
  | .outer => ⟨name, n + 1, some (if sgn then 1 else -1)⟩
  | .inner => ⟨name, n - 1, some (if sgn then 1 else -1)⟩

/-- one non-centre coordinate laid out per the table is decoded to its position (n ≥ 2) -/
theorem comodo_step (n : Nat) (hn : 2 ≤ n) (p : Pos) (hp : p ≠ .center) (name : String) (sgn : Bool)
    (acc : List (Pos × String)) :
    (let c := mkCoord n p name sgn
     if c.len = n + 1 then Except.ok (odSet acc .outer c.name)
      else if c.len + 1 = n then .ok (odSet acc .inner c.name)
      else if c.shift2 = some (-1) then
        (if c.len = n then .ok (odSet acc .left c.name) else .error Err.value)
      else if c.shift2 = some 1 then
        (if c.len = n then .ok (odSet acc .right c.name) else .error .value)
      else .error .value) = .ok (odSet acc p name) := by
  have h1 : ¬ (n - 1 = n + 1) := by omega
  have h2 : n - 1 + 1 = n := by omega
  have h3 : ¬ (n = n + 1) := by omega
  have h4 : ¬ (n + 1 = n) := by omega
  cases p <;> simp [mkCoord, h1, h2, h3, h4] at hp ⊢

theorem odSet_fresh (d : List (Pos × String)) (k : Pos) (v : String)
    (h : ∀ e ∈ d, e.1 ≠ k) : odSet d k v = d ++ [(k, v)] := by
  unfold odSet
  have : d.any (fun e => e.1 == k) = false := by
    rw [List.any_eq_false]
    intro e he
    simpa using h e he
  simp [this]

/-- the non-centre coordinates, decoded one after the other -/
theorem comodo_fold (n : Nat) (hn : 2 ≤ n) (others : List (Pos × String × Bool))
    (hpos : ∀ o ∈ others, o.1 ≠ .center)
    (hdist : others.Pairwise (fun a b => a.1 ≠ b.1))
    (acc : List (Pos × String)) (hacc : ∀ e ∈ acc, ∀ o ∈ others, e.1 ≠ o.1) :
    (others.map (fun o => mkCoord n o.1 o.2.1 o.2.2)).foldlM (fun (acc : List (Pos × String)) c =>
      if c.len = n + 1 then Except.ok (odSet acc .outer c.name)
      else if c.len + 1 = n then .ok (odSet acc .inner c.name)
      else if c.shift2 = some (-1) then
        (if c.len = n then .ok (odSet acc .left c.name) else .error Err.value)
      else if c.shift2 = some 1 then
        (if c.len = n then .ok (odSet acc .right c.name) else .error .value)
      else .error .value) acc = .ok (acc ++ others.map (fun o => (o.1, o.2.1))) := by
  induction others generalizing acc with
  | nil => simp [List.foldlM, pure, Except.pure]
  | cons o rest ih =>
    have hp := hpos o (by simp)
    have hd := List.pairwise_cons.mp hdist
    simp only [List.map_cons, List.foldlM_cons, bind, Except.bind]
    have hstep := comodo_step n hn o.1 hp o.2.1 o.2.2 acc
    simp only at hstep
    rw [hstep, odSet_fresh acc o.1 o.2.1 (fun e he => hacc e he o (by simp))]
    simp only
    rw [ih (fun o' ho' => hpos o' (by simp [ho'])) hd.2]
    · simp
    · intro e he o' ho'
      simp only [List.mem_append, List.mem_singleton] at he
      rcases he with he | he
      · exact hacc e he o' (by simp [ho'])
      · subst he; exact hd.1 o' ho'

/-- **COMODO round trip.**  Any axis laid out per the table — centre coordinate anywhere among
    the others, any set of distinct non-centre positions, any distinct names, any n ≥ 2, either
    sign of the shift on inner/outer coordinates — is decoded to exactly that layout (centre
    first, the others in dataset order). -/
theorem comodo_roundtrip (n : Nat) (hn : 2 ≤ n) (cname : String)
    (before after : List (Pos × String × Bool))
    (hpos : ∀ o ∈ before ++ after, o.1 ≠ .center)
    (hdist : (before ++ after).Pairwise (fun a b => a.1 ≠ b.1))
    (hnames : ∀ o ∈ before ++ after, o.2.1 ≠ cname) :
    comodoAxis (before.map (fun o => mkCoord n o.1 o.2.1 o.2.2) ++ [mkCoord n .center cname false] ++
        after.map (fun o => mkCoord n o.1 o.2.1 o.2.2)) =
      .ok ((.center, cname) :: (before ++ after).map (fun o => (o.1, o.2.1))) := by
  have hshift : ∀ o ∈ before ++ after,
      ((mkCoord n o.1 o.2.1 o.2.2).shift2 == none || (mkCoord n o.1 o.2.1 o.2.2).shift2 == some 0) = false := by
    intro o ho
    have := hpos o ho
    cases hp : o.1 <;> simp_all [mkCoord] <;> (split <;> simp)
  have hfilt1 : ∀ l : List (Pos × String × Bool), (∀ o ∈ l, o ∈ before ++ after) →
      (l.map (fun o => mkCoord n o.1 o.2.1 o.2.2)).filter
        (fun c => c.shift2 == none || c.shift2 == some 0) = [] := by
    intro l hl
    rw [List.filter_eq_nil_iff]
    intro c hc
    simp only [List.mem_map] at hc
    obtain ⟨o, ho, rfl⟩ := hc
    rw [hshift o (hl o ho)]
    decide
  have hfilt2 : ∀ l : List (Pos × String × Bool), (∀ o ∈ l, o ∈ before ++ after) →
      (l.map (fun o => mkCoord n o.1 o.2.1 o.2.2)).filter (fun c => c.name != cname) =
        l.map (fun o => mkCoord n o.1 o.2.1 o.2.2) := by
    intro l hl
    rw [List.filter_eq_self]
    intro c hc
    simp only [List.mem_map] at hc
    obtain ⟨o, ho, rfl⟩ := hc
    have := hnames o (hl o ho)
    cases hp : o.1 <;> simp [mkCoord, hp, this]
  have hcenter : (before.map (fun o => mkCoord n o.1 o.2.1 o.2.2) ++ [mkCoord n .center cname false] ++
        after.map (fun o => mkCoord n o.1 o.2.1 o.2.2)).filter
        (fun c => c.shift2 == none || c.shift2 == some 0) = [mkCoord n .center cname false] := by
    simp only [List.filter_append, hfilt1 before (fun o ho => by simp [ho]),
      hfilt1 after (fun o ho => by simp [ho])]
    simp [mkCoord]
  have hrest : (before.map (fun o => mkCoord n o.1 o.2.1 o.2.2) ++ [mkCoord n .center cname false] ++
        after.map (fun o => mkCoord n o.1 o.2.1 o.2.2)).filter (fun c => c.name != cname) =
        (before ++ after).map (fun o => mkCoord n o.1 o.2.1 o.2.2) := by
    simp only [List.filter_append, hfilt2 before (fun o ho => by simp [ho]),
      hfilt2 after (fun o ho => by simp [ho]), List.map_append]
    simp [mkCoord]
  unfold comodoAxis
  have hne : (before.map (fun o => mkCoord n o.1 o.2.1 o.2.2) ++ [mkCoord n .center cname false] ++
        after.map (fun o => mkCoord n o.1 o.2.1 o.2.2)).isEmpty = false := by simp
  rw [hcenter]
  simp only [hne, Bool.false_eq_true, if_false]
  have hcn : (mkCoord n .center cname false).name = cname := rfl
  have hcl : (mkCoord n .center cname false).len = n := rfl
  rw [hcn, hcl, hrest]
  have := comodo_fold n hn (before ++ after) hpos hdist [(.center, cname)]
    (by intro e he o ho; simp at he; subst he; exact (hpos o ho).symm)
  simpa using this

/-- the COMODO table refuses a same-length coordinate whose shift is neither -0.5 nor +0.5,
    and an axis without (or with two) unshifted coordinates -/
theorem comodo_refusals (n : Nat) (a b : String) (hab : a ≠ b) :
    comodoAxis [⟨a, n, some (-1)⟩] = .error .value ∧
    comodoAxis [⟨a, n, none⟩, ⟨b, n, none⟩] = .error .value ∧
    comodoAxis [⟨a, n, none⟩, ⟨b, n, some 3⟩] = .error .value := by
  refine ⟨by simp [comodoAxis], by simp [comodoAxis], ?_⟩
  have hba : (b != a) = true := by simpa using (Ne.symm hab)
  simp [comodoAxis, hba, bind, Except.bind]

/-- the SGRID padding table -/
theorem sgrid_padding_table :
    padToPos "high" = some .left ∧ padToPos "low" = some .right ∧
    padToPos "both" = some .inner ∧ padToPos "none" = some .outer ∧ padToPos "full" = none := by
  decide

/-- **SGRID node/cell matching, two horizontal axes**: for distinct dimension names the cell
    dimension and padding word that belong to each node dimension are found — also when one
    name is a substring of another. -/
theorem sgrid_match_2 (c1 n1 p1 c2 n2 p2 : String)
    (hd : [c1, n1, c2, n2, "(padding", p1, p2].Nodup) :
    sgridMatch [c1, n1, "(padding", p1, c2, n2, "(padding", p2] n1 = .ok (c1, p1.replace ")" "") ∧
    sgridMatch [c1, n1, "(padding", p1, c2, n2, "(padding", p2] n2 = .ok (c2, p2.replace ")" "") := by
  simp only [List.nodup_cons, List.mem_cons, List.mem_singleton, not_or, List.not_mem_nil,
    not_false_eq_true, List.nodup_nil, and_true] at hd
  obtain ⟨⟨h1, h2, h3, h4, h5, h6⟩, ⟨g1, g2, g3, g4, g5⟩, ⟨k1, k2, k3, k4⟩, ⟨l1, l2, l3⟩, ⟨m1, m2⟩, q1⟩ := hd
  constructor
  · have e : (List.range 8).filter (fun i =>
        [c1, n1, "(padding", p1, c2, n2, "(padding", p2][i]?.getD "" == n1) = [1] := by
      simp [List.range, List.range.loop, List.getD, h1, g1, g2, g3, g4, g5, Ne.symm g1, Ne.symm g2, Ne.symm g3,
        Ne.symm g4, Ne.symm g5, Ne.symm h1]
    simp [sgridMatch, e]
  · have e : (List.range 8).filter (fun i =>
        [c1, n1, "(padding", p1, c2, n2, "(padding", p2][i]?.getD "" == n2) = [5] := by
      simp [List.range, List.range.loop, List.getD, Ne.symm h3, Ne.symm g2, Ne.symm k1, l1, l2, l3, Ne.symm l1,
        Ne.symm l2, Ne.symm l3, g2, h3, k1]
    simp [sgridMatch, e]

/-- the hierarchy and the conflict rule -/
theorem hierarchy_and_conflict {β : Type} (u p : β) :
    chooseConvention true = .sgrid ∧ chooseConvention false = .comodo ∧
    mergeCoords (some u) (some p) = .error .value ∧
    mergeCoords (none : Option β) (some p) = .ok (some p) ∧
    mergeCoords (some u) (none : Option β) = .ok (some u) := by
  refine ⟨rfl, rfl, rfl, rfl, rfl⟩

/-- which axes SGRID announces for 1-D / 2-D / 2-D + vertical / 3-D topologies -/
theorem sgrid_axes_table :
    sgridAxes 1 false = .ok ["X"] ∧ sgridAxes 2 false = .ok ["X", "Y"] ∧
    sgridAxes 2 true = .ok ["X", "Y", "Z"] ∧ sgridAxes 3 false = .ok ["X", "Y", "Z"] := by
  refine ⟨rfl, rfl, rfl, rfl⟩

/-- non-vacuity -/
example : (comodoAxis [mkCoord 4 .outer "xo" true, mkCoord 4 .center "xc" false, mkCoord 4 .left "xg" false]).toOption =
    some [(.center, "xc"), (.outer, "xo"), (.left, "xg")] := by
  decide +kernel

/-- **The tables of the model are the tables of the source** (re-extracted on every run): SGRID's `pad2pos`
    maps exactly the four padding words, each to the position the model assigns; COMODO's shift constants are
    -1/2 (left), +1/2 (right) and 0 (centre). -/
theorem tables_are_the_sources :
    Gen.sgridPad2Pos.map (·.1) = ["high", "low", "both", "none"] ∧
    Gen.sgridPad2Pos.all (fun e => (padToPos e.1).map Pos.toString == some e.2) = true ∧
    Gen.comodoShiftsTwice = [-1, 1, 0] := by
  decide +kernel

end Xgcm.C14

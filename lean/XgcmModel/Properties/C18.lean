import XgcmModel.Model.Effects
import XgcmModel.Gen.Sites
/-
  C18 — Operations never modify their arguments; results are history-independent.

  The logic: `Gen.argumentWrites` is the list — RE-COMPUTED from the sources on every run by a
  flow-sensitive taint analysis over all public entry points and everything they call — of
  statements that write, in place, into an object reachable from an argument (or into the Grid's
  own state outside the constructor / set_metrics).  If that list is empty no call can change a
  caller-owned object, for every history.  Object mutation itself is a Python run-time fact: the
  harness monitors it with deep snapshots (see DESIGN.md).
-/
namespace Xgcm.C18
open Xgcm

/-- the analysis ran to completion and found no write to a caller-owned object -/
theorem no_argument_writes : Gen.argumentWrites = [] ∧ Gen.sitesRecognised = true := by
  decide

/-- **Purity for every history**: with no write sites, any number of calls leaves every
    caller-owned object at the version it had. -/
theorem purity (n : Nat) (s : Store) : runCalls Gen.argumentWrites n s = s := by
  have h : Gen.argumentWrites = [] := no_argument_writes.1
  unfold runCalls
  rw [h]
  induction n with
  | zero => rfl
  | succ k ih =>
    rw [List.range_succ, List.foldl_append, ih]
    rfl

/-- … and the converse that makes the obligation meaningful: ONE write site on an object of
    the store changes that object (a non-empty extracted list is not harmless). -/
theorem one_write_is_visible (w : WriteSite) (v : Nat) :
    callEffect [w] [(w.2.2.2.2, v)] = [(w.2.2.2.2, v + 1)] := by
  simp [callEffect, bump]

end Xgcm.C18

import XgcmModel.Properties.C05
import XgcmModel.Spec.C03
/-
  C03 — Scalar operations are invariant to how the domain is cut into faces.

  `link_geometry` is the geometric heart: for every pair of orientations of two
  adjacent faces and every side, the cell the documentation names (C05) IS the
  geometrically adjacent cell of the undivided field, provided the junction is
  expressible.  `cut_invariance_X/Y` combine it with C05's `halo_cell_X/Y`.
-/
set_option linter.unusedSimpArgs false
set_option maxRecDepth 4000
namespace Xgcm.C03
open Xgcm

/-- **Link geometry.**  Faces f and g of N × N cells with orientations `of`, `og`;
    g's square is the one adjacent to f's side (a, s) (displacement N·d, d the
    global direction of that side); g's side (b, s2) faces f.  If the junction
    is expressible, the documented cell of g (link kind: same/swapped axis,
    rev = (s = s2)) placed by `og` is exactly the global position of f's halo
    cell — for every N, depth k and along-edge index t. -/
theorem link_geometry (of og : D4) (a s b s2 : Bool)
    (hface : og.lin (sideNormal b s2).1 (sideNormal b s2).2 =
      (-(of.lin (sideNormal a s).1 (sideNormal a s).2).1, -(of.lin (sideNormal a s).1 (sideNormal a s).2).2))
    (hexpr : expressible of og a s b s2 = true) (N k t : Int) :
    let d := of.lin (sideNormal a s).1 (sideNormal a s).2
    let h := haloCoord N a s k t
    let q := docCoord N b s (s == s2) (a != b) k t
    og.app N q.1 q.2 = ((of.app N h.1 h.2).1 - N * d.1, (of.app N h.1 h.2).2 - N * d.2) := by
  obtain ⟨sw1, fx1, fy1⟩ := of
  obtain ⟨sw2, fx2, fy2⟩ := og
  cases sw1 <;> cases fx1 <;> cases fy1 <;> cases sw2 <;> cases fx2 <;> cases fy2 <;>
    cases a <;> cases s <;> cases b <;> cases s2 <;>
    simp [D4.lin, sideNormal, sideTangent, expressible] at hface hexpr <;>
    simp [D4.app, D4.lin, sideNormal, haloCoord, docCoord] <;>
    omega


/-- non-vacuity of `link_geometry`: plain neighbours (identity orientations, f's right
    side meets g's left side) and a 90°-rotated neighbour (axis-swapping link) both
    satisfy the hypotheses -/
example :
    (⟨false, false, false⟩ : D4).lin (sideNormal false false).1 (sideNormal false false).2 =
      (-((⟨false, false, false⟩ : D4).lin (sideNormal false true).1 (sideNormal false true).2).1,
       -((⟨false, false, false⟩ : D4).lin (sideNormal false true).1 (sideNormal false true).2).2) ∧
    expressible ⟨false, false, false⟩ ⟨false, false, false⟩ false true false false = true ∧
    expressible ⟨false, false, false⟩ ⟨true, false, true⟩ false true true false = true := by
  decide

/-- pull-back of a global scalar field through the placement and orientation of the faces -/
def IsPullback {α : Type} (G : Int → Int → α) (n : Nat) (place : Nat → Int × Int) (orient : Nat → D4)
    (data : Nat → Arr2 α) : Prop :=
  ∀ g x y, x < n → y < n →
    (data g).get x y =
      G ((place g).1 + ((orient g).app n x y).1) ((place g).2 + ((orient g).app n x y).2)

variable {α : Type}

/-- **Cut invariance (X sides).**  Scalar data that is the pull-back of a global
    field G; face f's X side `s` carries the link (g, b, rev) that the geometry
    demands (g sits in the adjacent square, its side (b, s2) faces f, the junction is
    expressible).  Then every halo cell of f beyond that side (depth k up to the
    requested width, along-edge index inside the face) holds the value of G at the
    geometrically adjacent position — the padded face is the pull-back of the
    undivided field, so any stencil on it equals the stencil on the undivided field. -/
theorem cut_invariance_X (c : FPCfg α) (data partner : Nat → Arr2 α) (n f : Nat)
    (h : C05.Setup c data partner n) (hsc : c.vectorAxis = none)
    (G : Int → Int → α) (place : Nat → Int × Int) (orient : Nat → D4)
    (hpb : IsPullback G n place orient data)
    (s : Bool) (g : Nat) (bn : String) (rev : Bool)
    (hlink : linkAt (faceLinks c f c.xAxis) (if s then 1 else 0) = some (g, bn, rev))
    (hbn : bn = c.xAxis ∨ bn = c.yAxis)
    (hface : (orient g).lin (sideNormal (bn == c.yAxis) (if rev then s else !s)).1
                 (sideNormal (bn == c.yAxis) (if rev then s else !s)).2 =
      (-((orient f).lin (sideNormal false s).1 (sideNormal false s).2).1,
       -((orient f).lin (sideNormal false s).1 (sideNormal false s).2).2))
    (hplace : place g = ((place f).1 + n * ((orient f).lin (sideNormal false s).1 (sideNormal false s).2).1,
                         (place f).2 + n * ((orient f).lin (sideNormal false s).1 (sideNormal false s).2).2))
    (hexpr : expressible (orient f) (orient g) false s (bn == c.yAxis) (if rev then s else !s) = true)
    (k t : Nat) (hk1 : 1 ≤ k) (hk : k ≤ (if s then c.reqX.2 else c.reqX.1)) (ht : t < n) :
    (padFaceConnections c data partner f).get
        (if s then c.reqX.1 + n - 1 + k else c.reqX.1 - k) (c.reqY.1 + t) =
      G ((place f).1 + ((orient f).app n (haloCoord n false s k t).1 (haloCoord n false s k t).2).1)
        ((place f).2 + ((orient f).app n (haloCoord n false s k t).1 (haloCoord n false s k t).2).2) := by
  obtain ⟨b1, b2, b3, b4⟩ := width_bounds c
  have hne := h.both.1
  have hwn := h.wle
  -- the spec of C05 at this halo cell
  have key : ∀ (i' : Nat) (x : Int), i' < c.reqX.1 + n + c.reqX.2 → (i' < c.reqX.1 ∨ c.reqX.1 + n ≤ i') →
      (i' : Int) - c.reqX.1 = x →
      (padFaceConnections c data partner f).get i' (c.reqY.1 + t) = specHaloX c data partner n f x t := by
    intro i' x h1 h2 h3
    have := C05.halo_cell_X c data partner n f h i' (c.reqY.1 + t) h1 h2 (by omega) (by omega)
    rw [this, h3]
    congr 1; omega
  have hswap : (bn != c.xAxis) = (bn == c.yAxis) := by
    rcases hbn with e | e
    · subst e; simp [hne]
    · subst e
      have : ¬ (c.yAxis = c.xAxis) := fun hh => hne hh.symm
      simp [this]
  have lg := link_geometry (orient f) (orient g) false s (bn == c.yAxis) (if rev then s else !s)
    hface hexpr n k t
  simp only at lg
  cases s
  · -- lower side
    simp only [Bool.false_eq_true, if_false] at hk hlink hplace lg ⊢
    rw [key (c.reqX.1 - k) (-(k : Int)) (by omega) (Or.inl (by omega)) (by omega)]
    have hneg : (-(k : Int)) < 0 := by omega
    have hkk : (-(-(k : Int))).toNat = k := by omega
    simp only [specHaloX, hneg, if_true, hlink, hsc, Option.isSome_none, Bool.false_and, Bool.false_eq_true,
      if_false, hkk, hswap]
    cases rev <;> cases hb : (bn == c.yAxis) <;>
      simp only [hb, Bool.false_eq_true, if_false, if_true, Bool.true_and, Bool.false_and, Bool.not_false,
        Bool.not_true, Bool.and_true, Bool.and_false, Nat.sub_zero, Nat.sub_self, Nat.one_ne_zero,
        Nat.zero_ne_one, reduceCtorEq, ↓reduceIte] at lg ⊢ <;>
      (rw [hpb g _ _ (by omega) (by omega), hplace]
       simp only [docCoord, haloCoord, hb, Bool.false_eq_true, if_false, if_true, Bool.not_false, Bool.not_true,
         Bool.true_and, Bool.false_and, Bool.and_true, Bool.and_false, bne, beq_self_eq_true, Bool.false_beq,
         Bool.not_eq_true', reduceCtorEq, ↓reduceIte, BEq.beq, decide_true, decide_false] at lg ⊢
       have e1 := congrArg Prod.fst lg
       have e2 := congrArg Prod.snd lg
       simp only at e1 e2
       have c1 : ((n - k : Nat) : Int) = (n : Int) - k := by omega
       have c2 : ((k - 1 : Nat) : Int) = (k : Int) - 1 := by omega
       have c3 : ((n - 1 - t : Nat) : Int) = (n : Int) - 1 - t := by omega
       simp only [c1, c2, c3] at e1 e2 ⊢
       congr 1 <;> omega)
  · -- upper side
    simp only [if_true] at hk hlink hplace lg ⊢
    rw [key (c.reqX.1 + n - 1 + k) ((n : Int) - 1 + k) (by omega) (Or.inr (by omega)) (by omega)]
    have hneg : ¬ (((n : Int) - 1 + k) < 0) := by omega
    have hkk : ((n : Int) - 1 + k - n + 1).toNat = k := by omega
    simp only [specHaloX, hneg, if_false, hlink, hsc, Option.isSome_none, Bool.false_and, Bool.false_eq_true,
      hkk, hswap]
    cases rev <;> cases hb : (bn == c.yAxis) <;>
      simp only [hb, Bool.false_eq_true, if_false, if_true, Bool.true_and, Bool.false_and, Bool.not_false,
        Bool.not_true, Bool.and_true, Bool.and_false, Nat.sub_zero, Nat.sub_self, Nat.one_ne_zero,
        Nat.zero_ne_one, reduceCtorEq, ↓reduceIte] at lg ⊢ <;>
      (rw [hpb g _ _ (by omega) (by omega), hplace]
       simp only [docCoord, haloCoord, hb, Bool.false_eq_true, if_false, if_true, Bool.not_false, Bool.not_true,
         Bool.true_and, Bool.false_and, Bool.and_true, Bool.and_false, bne, beq_self_eq_true, Bool.false_beq,
         Bool.not_eq_true', reduceCtorEq, ↓reduceIte, BEq.beq, decide_true, decide_false] at lg ⊢
       have e1 := congrArg Prod.fst lg
       have e2 := congrArg Prod.snd lg
       simp only at e1 e2
       have c1 : ((n - k : Nat) : Int) = (n : Int) - k := by omega
       have c2 : ((k - 1 : Nat) : Int) = (k : Int) - 1 := by omega
       have c3 : ((n - 1 - t : Nat) : Int) = (n : Int) - 1 - t := by omega
       simp only [c1, c2, c3] at e1 e2 ⊢
       congr 1 <;> omega)


/-- **Cut invariance (Y sides)** — the mirror image of `cut_invariance_X`. -/
theorem cut_invariance_Y (c : FPCfg α) (data partner : Nat → Arr2 α) (n f : Nat)
    (h : C05.Setup c data partner n) (hsc : c.vectorAxis = none)
    (G : Int → Int → α) (place : Nat → Int × Int) (orient : Nat → D4)
    (hpb : IsPullback G n place orient data)
    (s : Bool) (g : Nat) (bn : String) (rev : Bool)
    (hlink : linkAt (faceLinks c f c.yAxis) (if s then 1 else 0) = some (g, bn, rev))
    (hbn : bn = c.xAxis ∨ bn = c.yAxis)
    (hface : (orient g).lin (sideNormal (bn == c.yAxis) (if rev then s else !s)).1
                 (sideNormal (bn == c.yAxis) (if rev then s else !s)).2 =
      (-((orient f).lin (sideNormal true s).1 (sideNormal true s).2).1,
       -((orient f).lin (sideNormal true s).1 (sideNormal true s).2).2))
    (hplace : place g = ((place f).1 + n * ((orient f).lin (sideNormal true s).1 (sideNormal true s).2).1,
                         (place f).2 + n * ((orient f).lin (sideNormal true s).1 (sideNormal true s).2).2))
    (hexpr : expressible (orient f) (orient g) true s (bn == c.yAxis) (if rev then s else !s) = true)
    (k t : Nat) (hk1 : 1 ≤ k) (hk : k ≤ (if s then c.reqY.2 else c.reqY.1)) (ht : t < n) :
    (padFaceConnections c data partner f).get (c.reqX.1 + t)
        (if s then c.reqY.1 + n - 1 + k else c.reqY.1 - k) =
      G ((place f).1 + ((orient f).app n (haloCoord n true s k t).1 (haloCoord n true s k t).2).1)
        ((place f).2 + ((orient f).app n (haloCoord n true s k t).1 (haloCoord n true s k t).2).2) := by
  obtain ⟨b1, b2, b3, b4⟩ := width_bounds c
  have hne := h.both.1
  have hwn := h.wle
  have key : ∀ (j' : Nat) (y : Int), j' < c.reqY.1 + n + c.reqY.2 → (j' < c.reqY.1 ∨ c.reqY.1 + n ≤ j') →
      (j' : Int) - c.reqY.1 = y →
      (padFaceConnections c data partner f).get (c.reqX.1 + t) j' = specHaloY c data partner n f t y := by
    intro j' y h1 h2 h3
    have := C05.halo_cell_Y c data partner n f h (c.reqX.1 + t) j' h1 h2 (by omega) (by omega)
    rw [this, h3]
    congr 1; omega
  have hswap : (bn != c.yAxis) = !(bn == c.yAxis) := by simp [bne]
  have lg := link_geometry (orient f) (orient g) true s (bn == c.yAxis) (if rev then s else !s)
    hface hexpr n k t
  simp only at lg
  cases s
  · simp only [Bool.false_eq_true, if_false] at hk hlink hplace lg ⊢
    rw [key (c.reqY.1 - k) (-(k : Int)) (by omega) (Or.inl (by omega)) (by omega)]
    have hneg : (-(k : Int)) < 0 := by omega
    have hkk : (-(-(k : Int))).toNat = k := by omega
    simp only [specHaloY, hneg, if_true, hlink, hsc, Option.isSome_none, Bool.false_and, Bool.false_eq_true,
      if_false, hkk, hswap]
    cases rev <;> cases hb : (bn == c.yAxis) <;>
      simp only [hb, Bool.false_eq_true, if_false, if_true, Bool.true_and, Bool.false_and, Bool.not_false,
        Bool.not_true, Bool.and_true, Bool.and_false, Nat.sub_zero, Nat.sub_self, Nat.one_ne_zero,
        Nat.zero_ne_one, reduceCtorEq, ↓reduceIte] at lg ⊢ <;>
      (rw [hpb g _ _ (by omega) (by omega), hplace]
       simp only [docCoord, haloCoord, hb, Bool.false_eq_true, if_false, if_true, Bool.not_false, Bool.not_true,
         Bool.true_and, Bool.false_and, Bool.and_true, Bool.and_false, bne, beq_self_eq_true, Bool.false_beq,
         Bool.not_eq_true', reduceCtorEq, ↓reduceIte, BEq.beq, decide_true, decide_false] at lg ⊢
       have e1 := congrArg Prod.fst lg
       have e2 := congrArg Prod.snd lg
       simp only at e1 e2
       have c1 : ((n - k : Nat) : Int) = (n : Int) - k := by omega
       have c2 : ((k - 1 : Nat) : Int) = (k : Int) - 1 := by omega
       have c3 : ((n - 1 - t : Nat) : Int) = (n : Int) - 1 - t := by omega
       simp only [c1, c2, c3] at e1 e2 ⊢
       congr 1 <;> omega)
  · simp only [if_true] at hk hlink hplace lg ⊢
    rw [key (c.reqY.1 + n - 1 + k) ((n : Int) - 1 + k) (by omega) (Or.inr (by omega)) (by omega)]
    have hneg : ¬ (((n : Int) - 1 + k) < 0) := by omega
    have hkk : ((n : Int) - 1 + k - n + 1).toNat = k := by omega
    simp only [specHaloY, hneg, if_false, hlink, hsc, Option.isSome_none, Bool.false_and, Bool.false_eq_true,
      hkk, hswap]
    cases rev <;> cases hb : (bn == c.yAxis) <;>
      simp only [hb, Bool.false_eq_true, if_false, if_true, Bool.true_and, Bool.false_and, Bool.not_false,
        Bool.not_true, Bool.and_true, Bool.and_false, Nat.sub_zero, Nat.sub_self, Nat.one_ne_zero,
        Nat.zero_ne_one, reduceCtorEq, ↓reduceIte] at lg ⊢ <;>
      (rw [hpb g _ _ (by omega) (by omega), hplace]
       simp only [docCoord, haloCoord, hb, Bool.false_eq_true, if_false, if_true, Bool.not_false, Bool.not_true,
         Bool.true_and, Bool.false_and, Bool.and_true, Bool.and_false, bne, beq_self_eq_true, Bool.false_beq,
         Bool.not_eq_true', reduceCtorEq, ↓reduceIte, BEq.beq, decide_true, decide_false] at lg ⊢
       have e1 := congrArg Prod.fst lg
       have e2 := congrArg Prod.snd lg
       simp only at e1 e2
       have c1 : ((n - k : Nat) : Int) = (n : Int) - k := by omega
       have c2 : ((k - 1 : Nat) : Int) = (k : Int) - 1 := by omega
       have c3 : ((n - 1 - t : Nat) : Int) = (n : Int) - 1 - t := by omega
       simp only [c1, c2, c3] at e1 e2 ⊢
       congr 1 <;> omega)

/-- **Edges without a link obey the ordinary boundary rule of that axis** (restating
    C05 for the unlinked case, X side) -/
theorem open_edge_rule_X (c : FPCfg α) (data partner : Nat → Arr2 α) (n f : Nat)
    (h : C05.Setup c data partner n) (i' j' : Nat)
    (hi : i' < c.reqX.1 + n + c.reqX.2) (hout : i' < c.reqX.1 ∨ c.reqX.1 + n ≤ i')
    (hj1 : c.reqY.1 ≤ j') (hj2 : j' < c.reqY.1 + n)
    (hnone : linkAt (faceLinks c f c.xAxis) (if (i' : Int) - c.reqX.1 < 0 then 0 else 1) = none) :
    (padFaceConnections c data partner f).get i' j' =
      extF c.ruleX c.fillX n (fun x' => (data f).get x' (j' - c.reqY.1)) ((i' : Int) - c.reqX.1) := by
  rw [C05.halo_cell_X c data partner n f h i' j' hi hout hj1 hj2]
  unfold specHaloX
  simp only [hnone]

/-- the same on the Y sides -/
theorem open_edge_rule_Y (c : FPCfg α) (data partner : Nat → Arr2 α) (n f : Nat)
    (h : C05.Setup c data partner n) (i' j' : Nat)
    (hj : j' < c.reqY.1 + n + c.reqY.2) (hout : j' < c.reqY.1 ∨ c.reqY.1 + n ≤ j')
    (hi1 : c.reqX.1 ≤ i') (hi2 : i' < c.reqX.1 + n)
    (hnone : linkAt (faceLinks c f c.yAxis) (if (j' : Int) - c.reqY.1 < 0 then 0 else 1) = none) :
    (padFaceConnections c data partner f).get i' j' =
      extF c.ruleY c.fillY n (fun y' => (data f).get (i' - c.reqX.1) y') ((j' : Int) - c.reqY.1) := by
  rw [C05.halo_cell_Y c data partner n f h i' j' hj hout hi1 hi2]
  unfold specHaloY
  simp only [hnone]

end Xgcm.C03

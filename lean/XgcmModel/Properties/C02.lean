import XgcmModel.Proofs.Pad
import XgcmModel.Gen.Axis
import XgcmModel.Gen.GridDefaults
import XgcmModel.Gen.Tables
/-
  C02 — Boundary rule resolution and padding widths are exactly as specified.
  `Gen.periodicTrueBoundary`, `Gen.periodicFalseBoundary`, `Gen.axisDefaultBoundary`,
  `Gen.axisDefaultFill`, `Gen.padModeMap` are regenerated from grid.py / axis.py /
  padding.py on every run.
-/
namespace Xgcm.C02
open Xgcm

variable {α : Type}

theorem alookup_map_self {β : Type} (axes : List String) (f : String → β) (ax : String)
    (h : ax ∈ axes) : alookup ax (axes.map (fun a => (a, f a))) = some (f ax) := by
  induction axes with
  | nil => cases h
  | cons a r ih =>
    simp only [List.map_cons, alookup]
    by_cases hax : ax = a
    · subst hax; simp
    · simp only [hax, if_false]
      exact ih (by simpa [hax] using h)

theorem derived_word (ob : Option Bool) :
    axisBoundary Gen.axisDefaultBoundary
      (derivedWord Gen.periodicTrueBoundary Gen.periodicFalseBoundary ob) = .ok (if ob.getD true then Rule.periodic else Rule.fill) := by
  cases ob with
  | none => rfl
  | some b => cases b <;> rfl

theorem given_word (w : String) :
    axisBoundary Gen.axisDefaultBoundary (some w) =
      match Rule.ofString? w with | some r => .ok r | none => .error .value := rfl

/-- the full-strength statement of constructor resolution -/
def CtorResolutionStatement : Prop :=
  ∀ (axes : List String) (per : PerArg) (boundary : KW String) (fill : KW Rat) (ax : String),
    ax ∈ axes →
    ctorResolve Gen.periodicTrueBoundary Gen.periodicFalseBoundary Gen.axisDefaultBoundary (0 : Rat)
        axes per boundary fill ax =
      match specGridRule per boundary ax with
      | some r => .ok (r, specGridFill 0 fill ax)
      | none => .error .value

/-- KNOWN FINDING C02-periodic-list: the full statement is FALSE of the current
    code — `Grid(periodic=['X'])` on axes X, Y leaves Y periodic.  Machine-checked
    witness (replayed on the implementation by corpus/C02/periodic-list.json). -/
theorem ctor_resolution_full_is_false : ¬ CtorResolutionStatement := by
  intro h
  have h1 := h ["X", "Y"] (.list ["X"]) .none .none "Y" (by simp)
  have h2 := congrArg (fun x => match x with
    | Except.ok (r, _) => decide (r = Rule.periodic)
    | Except.error _ => false) h1
  exact absurd h2 (by decide +kernel)

/-- **Constructor resolution (partial: every spelling except a `periodic` list
    that does not name the axis).**  For every axis of the grid and every
    spelling of periodic (bool / mapping / list naming the axis), boundary and
    fill_value (None / scalar / total or partial mapping): the per-axis setting
    the constructor stores — computed with the literals the code contains now —
    is the documented one; an unknown boundary word is refused. -/
theorem ctor_resolution_partial (zero : α) (axes : List String) (per : PerArg) (boundary : KW String)
    (fill : KW α) (ax : String) (hax : ax ∈ axes)
    (hlist : ∀ l, per = .list l → l.contains ax = true) :
    ctorResolve Gen.periodicTrueBoundary Gen.periodicFalseBoundary Gen.axisDefaultBoundary zero
        axes per boundary fill ax =
      match specGridRule per boundary ax with
      | some r => .ok (r, specGridFill zero fill ax)
      | none => .error .value := by
  have hf : ctorFill zero fill ax = specGridFill zero fill ax := by
    cases fill <;> rfl
  have hper : (alookup ax (per.toDict axes)).getD true = specPeriodic per ax := by
    cases per with
    | bool b => simp [PerArg.toDict, alookup_map_self axes (fun _ => b) ax hax, specPeriodic]
    | list l =>
      have hc := hlist l rfl
      show (alookup ax (l.map (fun a => (a, true)))).getD true = l.contains ax
      rw [alookup_map_self l (fun _ => true) ax (by simpa using hc), hc]; rfl
    | dict m => rfl
  have hnone : ctorResolve Gen.periodicTrueBoundary Gen.periodicFalseBoundary
      Gen.axisDefaultBoundary zero axes per .none fill ax =
      .ok (if specPeriodic per ax then Rule.periodic else Rule.fill, specGridFill zero fill ax) := by
    simp only [ctorResolve, ctorBoundaryWord, hf]
    rw [derived_word, hper]
    rfl
  cases boundary with
  | none => rw [hnone]; rfl
  | scalar w =>
    simp only [ctorResolve, ctorBoundaryWord, given_word, specGridRule, hf]
    cases Rule.ofString? w <;> rfl
  | dict m =>
    cases hm : alookup ax m with
    | some w =>
      simp only [ctorResolve, ctorBoundaryWord, hm, given_word, specGridRule, hf]
      cases Rule.ofString? w <;> rfl
    | none =>
      have : ctorResolve Gen.periodicTrueBoundary Gen.periodicFalseBoundary
          Gen.axisDefaultBoundary zero axes per (.dict m) fill ax =
          ctorResolve Gen.periodicTrueBoundary Gen.periodicFalseBoundary
          Gen.axisDefaultBoundary zero axes per .none fill ax := by
        simp only [ctorResolve, ctorBoundaryWord, hm]
      rw [this, hnone]
      simp only [specGridRule, hm]

/-- a grid-level boundary given for the axis makes `periodic` irrelevant, also
    for the list spelling -/
theorem ctor_resolution_boundary_given (zero : α) (axes : List String) (per : PerArg)
    (fill : KW α) (ax : String) (w : String) (r : Rule) (hw : Rule.ofString? w = some r) :
    ctorResolve Gen.periodicTrueBoundary Gen.periodicFalseBoundary Gen.axisDefaultBoundary zero
        axes per (.scalar w) fill ax = .ok (r, specGridFill zero fill ax) := by
  have hf : ctorFill zero fill ax = specGridFill zero fill ax := by cases fill <;> rfl
  simp only [ctorResolve, ctorBoundaryWord, given_word, hw, hf]
  rfl

/-- the default fill literal in `Axis.__init__` is 0, and the three boundary
    words map to numpy's wrap / constant / edge (what `ext` models) -/
theorem literals_documented :
    Gen.axisDefaultFill = some 0 ∧
    alookup (some "periodic") Gen.padModeMap = some "wrap" ∧
    alookup (some "fill") Gen.padModeMap = some "constant" ∧
    alookup (some "extend") Gen.padModeMap = some "edge" := by
  decide +kernel

/-- **Per-call resolution**: call argument (scalar, or mapping naming the axis),
    else the grid-level setting of the axis. -/
theorem call_resolution (ax : AxisM α) (boundary : KW String) (fill : KW α) :
    ruleInForceCall ax boundary = specCallRule ax.boundary boundary ax.name ∧
    fillInForceCall ax fill = specCallFill ax.fill fill ax.name := by
  constructor
  · cases boundary with
    | none => cases h : ax.boundary <;> simp [ruleInForceCall, KW.resolve, specCallRule, h, Rule.toString, Rule.ofString?]
    | scalar w => rfl
    | dict m =>
      simp only [ruleInForceCall, KW.resolve, specCallRule]
      cases alookup ax.name m with
      | some w => rfl
      | none => cases h : ax.boundary <;> simp [Rule.toString, Rule.ofString?]
  · cases fill <;> rfl

/-- **Scalar and per-axis spellings are interchangeable**, and a partial mapping
    falls back to the grid-level setting for the axes it does not name. -/
theorem scalar_eq_mapping (ax : AxisM α) (w : String) (v : α) (mb : List (String × String))
    (mf : List (String × α)) (hb : alookup ax.name mb = some w) (hf : alookup ax.name mf = some v) :
    ruleInForceCall ax (.dict mb) = ruleInForceCall ax (.scalar w) ∧
    fillInForceCall ax (.dict mf) = fillInForceCall ax (.scalar v) := by
  simp [ruleInForceCall, fillInForceCall, KW.resolve, hb, hf]

theorem partial_mapping_falls_back (ax : AxisM α) (mb : List (String × String))
    (mf : List (String × α)) (hb : alookup ax.name mb = none) (hf : alookup ax.name mf = none) :
    ruleInForceCall ax (.dict mb) = ruleInForceCall ax .none ∧
    fillInForceCall ax (.dict mf) = fillInForceCall ax .none := by
  simp [ruleInForceCall, fillInForceCall, KW.resolve, hb, hf]

/-- **One axis, every cell**: padding extends the axis by exactly (lo, hi), keeps
    every original value in place and gives every new cell the wrapped /
    constant / nearest-edge value — for all widths (also beyond the length). -/
theorem pad_one_axis (a : NDArr α) (k : Nat) (r : Rule) (fill : α) (lo hi : Nat)
    (hk : k < a.shape.length) (hn : 1 ≤ a.shape.getD k 0) :
    (a.padAlong k r fill lo hi).dims = a.dims ∧
    (a.padAlong k r fill lo hi).shape.getD k 0 = lo + a.shape.getD k 0 + hi ∧
    (∀ j, j ≠ k → (a.padAlong k r fill lo hi).shape.getD j 0 = a.shape.getD j 0) ∧
    ∀ idx, (a.padAlong k r fill lo hi).get idx = specPadCell a k r fill lo idx := by
  refine ⟨rfl, ?_, ?_, fun idx => padAlong_get a k r fill lo hi idx hn⟩
  · simp [padAlong_shape, List.getD_eq_getElem?_getD, hk]
  · intro j hj
    rw [padAlong_shape]
    exact shape_getD_set_ne _ _ _ _ (Ne.symm hj)

/-- **Several axes**: shape grows by exactly the requested widths on each
    requested axis and by nothing elsewhere … -/
theorem pad_shape (ws : List (PadStep α)) (a : NDArr α) (k : Nat)
    (hd : ws.Pairwise (fun w w' => w.k ≠ w'.k)) (hk : k < a.shape.length) :
    (padSeq ws a).dims = a.dims ∧
    (padSeq ws a).shape.getD k 0 =
      match ws.find? (fun w => w.k == k) with
      | some w => w.lo + a.shape.getD k 0 + w.hi
      | none => a.shape.getD k 0 :=
  ⟨padSeq_dims ws a, padSeq_shape_getD ws a k hd hk⟩

/-- … and every original value stays in place. -/
theorem pad_interior (ws : List (PadStep α)) (a : NDArr α) (idx : List Nat)
    (hd : ws.Pairwise (fun w w' => w.k ≠ w'.k))
    (hn : ∀ w ∈ ws, 1 ≤ a.shape.getD w.k 0)
    (hin : ∀ w ∈ ws, w.lo ≤ idx.getD w.k 0 ∧ idx.getD w.k 0 < w.lo + a.shape.getD w.k 0) :
    (padSeq ws a).get idx = a.get (unshift ws idx) :=
  padSeq_interior ws a idx hd hn hin

/-- all-zero widths: `pad` returns its argument (before looking at the rule) -/
theorem pad_zero_is_id (g : GridM α) (a : NDArr α) (widths : List (String × Nat × Nat))
    (b : KW String) (f : KW α) (h : ∀ w ∈ widths, w.2.1 = 0 ∧ w.2.2 = 0)
    (hwords : boundaryWordsOk g b = true) :
    padGrid g a widths b f = .ok a := by
  have : widths.all (fun w => w.2.1 == 0 && w.2.2 == 0) = true := by
    rw [List.all_eq_true]
    intro w hw
    simp [h w hw]
  simp [padGrid, this, hwords, pure, Except.pure]

/-- non-vacuity: a partial mapping on a two-axis grid resolves Y through the
    `periodic` list and X through the mapping -/
example :
    specGridRule (.list ["X"]) (.dict [("X", "extend")]) "X" = some .extend ∧
    specGridRule (.list ["X"]) (.dict [("X", "extend")]) "Y" = some .fill ∧
    specGridRule (.list ["X"]) .none "X" = some .periodic := by
  decide +kernel

/-- **The boundary words mean what the model's `ext` does** — the mapping from xgcm's rule words to
    numpy/xarray pad modes, re-extracted from padding.py on every run: periodic = wrap (index modulo the length),
    fill = constant, extend = edge (clamp); an absent rule falls back to wrap. -/
theorem pad_modes_pinned :
    Gen.padModes = [("periodic", "wrap"), ("fill", "constant"), ("extend", "edge"), ("None", "wrap")] := by
  decide +kernel

end Xgcm.C02

import XgcmModel.Proofs.SigEquiv
import XgcmModel.Proofs.Signature
import XgcmModel.Model.Grid
import XgcmModel.Model.Metrics
import XgcmModel.Proofs.Rename
/-
  C13 — Axis, dimension and variable names are opaque labels.

  The models use user-supplied names only through equality tests (`alookup`, `contains`, `idxOf`,
  `==`).  The lemmas below show that every such building block commutes with an injective
  renaming, and derive the invariance of the two places where the ORIGINAL code did look inside
  names (signature equivalence by textual replacement; name extraction by deleting position
  words — both repaired).  The end-to-end statement (every entry point of the real xgcm commutes
  with renaming) is checked by the correspondence run under random renamings.
-/
namespace Xgcm.C13
open Xgcm

variable {κ ν : Type} [DecidableEq κ]

/-- `ρ` is injective on the names that occur -/
def InjOn (ρ : κ → κ) (l : List κ) : Prop := ∀ x ∈ l, ∀ y ∈ l, ρ x = ρ y → x = y

/-- dictionary lookup commutes with renaming the keys -/
theorem alookup_rename (ρ : κ → κ) (l : List (κ × ν)) (k : κ)
    (hinj : InjOn ρ (k :: l.map (·.1))) :
    alookup (ρ k) (l.map (fun e => (ρ e.1, e.2))) = alookup k l := by
  induction l with
  | nil => rfl
  | cons e rest ih =>
    simp only [List.map_cons, alookup]
    by_cases hk : k = e.1
    · simp [hk]
    · have hne : ρ k ≠ ρ e.1 := by
        intro h
        exact hk (hinj k (by simp) e.1 (by simp) h)
      simp only [hk, hne, if_false]
      apply ih
      intro x hx y hy hxy
      apply hinj x _ y _ hxy
      · simp only [List.mem_cons, List.map_cons] at hx ⊢
        rcases hx with h | h
        · exact Or.inl h
        · exact Or.inr (Or.inr h)
      · simp only [List.mem_cons, List.map_cons] at hy ⊢
        rcases hy with h | h
        · exact Or.inl h
        · exact Or.inr (Or.inr h)

/-- membership tests commute with renaming -/
theorem contains_rename (ρ : κ → κ) (l : List κ) (k : κ) (hinj : InjOn ρ (k :: l)) :
    (l.map ρ).contains (ρ k) = l.contains k := by
  induction l with
  | nil => rfl
  | cons a rest ih =>
    have ih' := ih (by
      intro x hx y hy hxy
      apply hinj x _ y _ hxy
      · simp only [List.mem_cons] at hx ⊢; rcases hx with h | h; exact Or.inl h; exact Or.inr (Or.inr h)
      · simp only [List.mem_cons] at hy ⊢; rcases hy with h | h; exact Or.inl h; exact Or.inr (Or.inr h))
    simp only [List.map_cons, List.contains_cons, ih']
    by_cases hka : k = a
    · simp [hka]
    · have : ρ k ≠ ρ a := fun h => hka (hinj k (by simp) a (by simp) h)
      have e1 : (k == a) = false := by simpa using hka
      have e2 : (ρ k == ρ a) = false := by simpa using this
      rw [e1, e2]

/-- position of first appearance commutes with renaming -/
theorem idxOf_rename (ρ : κ → κ) (l : List κ) (k : κ) (hinj : InjOn ρ (k :: l)) :
    (l.map ρ).idxOf (ρ k) = l.idxOf k := by
  induction l with
  | nil => rfl
  | cons a rest ih =>
    have ih' := ih (by
      intro x hx y hy hxy
      apply hinj x _ y _ hxy
      · simp only [List.mem_cons] at hx ⊢; rcases hx with h | h; exact Or.inl h; exact Or.inr (Or.inr h)
      · simp only [List.mem_cons] at hy ⊢; rcases hy with h | h; exact Or.inl h; exact Or.inr (Or.inr h))
    simp only [List.map_cons, List.idxOf_cons]
    by_cases hka : a = k
    · simp [hka]
    · have : ρ a ≠ ρ k := fun h => hka (hinj a (by simp) k (by simp) h)
      have e1 : (a == k) = false := by simpa using hka
      have e2 : (ρ a == ρ k) = false := by simpa using this
      simp [e1, e2, ih']

/-- **the pattern of first appearances does not see the names** -/
theorem firstIdx_rename (ρ : κ → κ) (l : List κ) (hinj : InjOn ρ l) :
    firstIdx (l.map ρ) = firstIdx l := by
  unfold firstIdx
  rw [List.map_map]
  apply List.map_congr_left
  intro x hx
  simp only [Function.comp]
  apply idxOf_rename
  intro a ha b hb hab
  apply hinj a _ b _ hab
  · simp only [List.mem_cons] at ha; rcases ha with h | h; exact h ▸ hx; exact h
  · simp only [List.mem_cons] at hb; rcases hb with h | h; exact h ▸ hx; exact h

/-- renaming of the dummy names of a signature -/
def renameSig (ρ : Name → Name) (s : Sig) : Sig :=
  { ins := s.ins.map (fun a => a.map (fun p => (ρ p.1, p.2)))
    outs := s.outs.map (fun a => a.map (fun p => (ρ p.1, p.2))) }

theorem names_renameSig (ρ : Name → Name) (s : Sig) : (renameSig ρ s).names = s.names.map ρ := by
  simp [renameSig, Sig.names, List.map_flatMap, List.flatMap_map, List.map_append]
  rfl

theorem shape_renameSig (ρ : Name → Name) (s : Sig) : (renameSig ρ s).shape = s.shape := by
  simp [renameSig, Sig.shape, Function.comp]

/-- **A consistently renamed signature is interchangeable with the original**: the predefined
    operations are found whatever the axis is called — single letters like `t`, names containing a
    position word, anything. -/
theorem equivalent_rename (ρ : Name → Name) (s t : Sig) (hinj : InjOn ρ s.names) :
    (renameSig ρ s).equivalent t = s.equivalent t := by
  unfold Sig.equivalent
  rw [shape_renameSig, names_renameSig, firstIdx_rename ρ s.names hinj]

/-- **Printing and re-parsing a renamed signature gives the renamed signature**, for every renaming
    into word-character names — nothing depends on the names' content (C15's round trip). -/
theorem parse_print_rename (ρ : Name → Name) (s : Sig) (h : Sig.WF (renameSig ρ s)) :
    parseSig (printSig (renameSig ρ s)) = some (renameSig ρ s) := by
  obtain ⟨hi, ho, hwi, hwo⟩ := h
  have hns : ∀ c ∈ printSig (renameSig ρ s), c ≠ ' ' := by
    intro c hc
    simp only [printSig, List.mem_append, List.mem_cons, List.not_mem_nil, or_false] at hc
    rcases hc with (hc | hc | hc) | hc
    · exact printArgs_nospace _ hwi c hc
    · subst hc; decide
    · subst hc; decide
    · exact printArgs_nospace _ hwo c hc
  unfold parseSig
  rw [filter_id_of_all hns]
  have h1 : printSig (renameSig ρ s) = printArgs (renameSig ρ s).ins ++
      ('-' :: '>' :: (printArgs (renameSig ρ s).outs ++ [])) := by
    simp [printSig]
  rw [h1]
  simp only []
  rw [parseArgs_print _ hi hwi _ (by intro t h; cases h)]
  simp only [bind, Option.bind]
  rw [parseArgs_print _ ho hwo [] (by intro t h; cases h)]
  simp

/-- set comparisons of dimension / axis names (metric registry) do not see the names -/
theorem sameSet_rename (ρ : String → String) (a b : List String) (hinj : InjOn ρ (a ++ b)) :
    sameSet (a.map ρ) (b.map ρ) = sameSet a b := by
  have h1 : ∀ (l m : List String), (∀ x ∈ l, x ∈ a ++ b) → (∀ x ∈ m, x ∈ a ++ b) →
      (l.map ρ).all ((m.map ρ).contains ·) = l.all (m.contains ·) := by
    intro l m hl hm
    rw [List.all_map]
    have hc : ∀ x ∈ l, ((fun x => (m.map ρ).contains x) ∘ ρ) x = (fun x => m.contains x) x := by
      intro x hx
      simp only [Function.comp]
      apply contains_rename
      intro p hp q hq hpq
      apply hinj p _ q _ hpq
      · simp only [List.mem_cons] at hp; rcases hp with h | h; exact h ▸ hl x hx; exact hm p h
      · simp only [List.mem_cons] at hq; rcases hq with h | h; exact h ▸ hl x hx; exact hm q h
    clear hl
    induction l with
    | nil => rfl
    | cons y r ih =>
      simp only [List.all_cons]
      rw [hc y (by simp), ih (fun x hx => hc x (by simp [hx]))]
  unfold sameSet
  rw [h1 a b (fun x hx => by simp [hx]) (fun x hx => by simp [hx]),
      h1 b a (fun x hx => by simp [hx]) (fun x hx => by simp [hx])]

/-- non-vacuity: an axis called `t` (a letter of every position word) -/
example : Sig.equivalent ⟨[[("t".toList, .center)]], [[("t".toList, .left)]]⟩
    ⟨[[("X".toList, .center)]], [[("X".toList, .left)]]⟩ = true := by decide

/-! ### The dispatcher model as a whole -/

open Xgcm.Rename in
/-- **Grid.diff / interp / min / max (model) commute with renaming.**  For every grid, array, operation,
    list of axes, `to` / `boundary` / `fill_value` spelling (absent, scalar or per-axis mapping) and
    every injective renaming `ρa` of axis names and `ρd` of dimension names: running the dispatcher
    model on the renamed grid, renamed array and renamed keyword mappings is accepted exactly when the
    original is, and then returns the original result with its dimensions renamed — same shape, same
    values at every index.  The model is the one C01/C02/C20 tie to the code (ufunc table regenerated
    from /repo); names are arbitrary strings: one-letter names, position words, prefixes of each
    other are not special. -/
theorem dispatch_rename {α : Type} {ρa ρd : String → String} (ha : Inj ρa) (hd : Inj ρd)
    (o : Ops α) (table : List UfuncEntry) (g : GridM α) (fn : String) (arr : NDArr α)
    (axes : List String) (to boundary : KW String) (fill : KW α) :
    dispatch o table (renGrid ρa ρd g) fn (renArr ρd arr) (axes.map ρa) (renKW ρa to)
        (renKW ρa boundary) (renKW ρa fill)
      = (dispatch o table g fn arr axes to boundary fill).map (renArr ρd) :=
  dispatch_ren ha hd o table g fn arr axes to boundary fill

open Xgcm.Rename in
/-- one step (one axis) of the same, also used by cumsum-free paths of C02/C20 -/
theorem stepAxis_rename {α : Type} {ρa ρd : String → String} (ha : Inj ρa) (hd : Inj ρd)
    (o : Ops α) (table : List UfuncEntry) (g : GridM α) (fn : String) (axname : String) (f t : Pos)
    (boundary : KW String) (fill : KW α) (arr : NDArr α) :
    stepAxis o table (renGrid ρa ρd g) fn (ρa axname) f t (renKW ρa boundary) (renKW ρa fill) (renArr ρd arr)
      = (stepAxis o table g fn axname f t boundary fill arr).map (renArr ρd) :=
  stepAxis_ren ha hd o table g fn axname f t boundary fill arr

/-- a renaming that exchanges the axis name `X` with the position word `center` and the dimension
    `x_c` with the single letter `t` -/
def swapNames (a b : String) (s : String) : String := if s = a then b else if s = b then a else s

/-- non-vacuity of the hypothesis: swaps are injective -/
theorem swap_inj (a b : String) : Xgcm.Rename.Inj (swapNames a b) := by
  intro x y h
  unfold swapNames at h
  by_cases hxa : x = a <;> by_cases hxb : x = b <;> by_cases hya : y = a <;> by_cases hyb : y = b <;>
    simp_all

example : Xgcm.Rename.Inj (swapNames "X" "center") ∧ Xgcm.Rename.Inj (swapNames "x_c" "t") :=
  ⟨swap_inj _ _, swap_inj _ _⟩

end Xgcm.C13

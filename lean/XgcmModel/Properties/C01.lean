import XgcmModel.Proofs.C01
/-
  C01 — Staggered stencil operators are exact on simple grids.

  Only property theorems live here (helper lemmas: Proofs/Stencil.lean,
  Proofs/C01.lean).  `Gen.gridops`, `Gen.fallbackShifts` are regenerated from
  /repo/xgcm/gridops.py and /repo/xgcm/axis.py on every run, so these theorems
  are re-checked against what the code says now.
-/
namespace Xgcm.C01
open Xgcm

variable {α : Type}

/-- **Line theorem.**  For every operator, every one of the 8 centre<->face
    shifts, every boundary rule and fill value, every cell count n ≥ 2 and all
    data: the ufunc that the dispatcher selects from the *generated* table,
    run on the line padded by that ufunc's own widths, yields at every target
    point `op` of the two adjacent input values read through the rule. -/
theorem line_exact (o : Ops α) (fn : Func) (f t : Pos) (hv : validShift f t = true)
    (n : Nat) (hn : 2 ≤ n) (r : Rule) (fill : α) (xs : List α) (hx : xs.length = f.len n) :
    ∃ e, selectUfunc Gen.gridops fn.toString f t = .ok e ∧
      op1d o e r fill xs = some (specLine (fn.op o) r fill f t n xs) := by
  obtain ⟨e, hsel, hw, hb⟩ := select_valid fn f t hv
  refine ⟨e, hsel, ?_⟩
  have hlo : e.lo = (widthOf f t).1 := by rw [← hw]
  have hhi : e.hi = (widthOf f t).2 := by rw [← hw]
  simp only [op1d, hb, eval_canonicalBody, hlo, hhi]
  rw [fwd_pad_eq_spec _ r fill f t n xs hv hn hx]

/-- the widths in the table are the ones the coordinates demand -/
theorem widths_from_coordinates (fn : Func) (f t : Pos) (hv : validShift f t = true)
    (n : Nat) (hn : 2 ≤ n) :
    ∃ e, selectUfunc Gen.gridops fn.toString f t = .ok e ∧ (e.lo, e.hi) = specWidth f t n := by
  obtain ⟨e, hsel, hw, _⟩ := select_valid fn f t hv
  exact ⟨e, hsel, by rw [hw, specWidth_eq f t n hv hn]⟩

/-- the other 17 position pairs are refused for every operator
    (feeds C20: "a shift the axis cannot make") -/
theorem invalid_shift_refused (o : Ops α) (fn : Func) (f t : Pos) (hv : validShift f t = false)
    (r : Rule) (fill : α) (xs : List α) :
    (∃ err, selectUfunc Gen.gridops fn.toString f t = .error err) ∨
    (∃ e, selectUfunc Gen.gridops fn.toString f t = .ok e ∧ op1d o e r fill xs = none) := by
  have h := refusedOK_gen fn f t hv
  unfold refusedOK at h
  split at h
  · rename_i e he
    right
    refine ⟨e, he, ?_⟩
    simp at h
    simp [op1d, h, Expr.eval]
  · rename_i err he
    exact Or.inl ⟨err, he⟩

/-- **Default shift.**  The shift used when `to` is omitted, computed the way
    `Axis.__init__` does from the generated `FALLBACK_SHIFTS`, is the
    documented one for every set of positions and every position in it. -/
theorem default_shift_documented (present : List Pos) (p : Pos) (hp : p ∈ present) :
    alookup p (defaultShiftsOf Gen.fallbackShifts present) = specDefaultShift present p := by
  unfold defaultShiftsOf
  rw [alookup_filterMap_self]
  simp only [hp, if_true]
  cases p <;> simp [Gen.fallbackShifts, alookup, specDefaultShift, List.find?] <;>
    (by_cases hc : Pos.center ∈ present <;> simp [hc])

/-- **N-D theorem (one axis).**  A successful pass along one axis replaces the
    axis dimension by the target dimension (moved last by apply_ufunc) and
    every line of the result is the spec of the corresponding input line. -/
theorem step_exact (o : Ops α) (g : GridM α) (fn : Func) (axname : String) (f t : Pos)
    (hv : validShift f t = true) (boundary : KW String) (fillkw : KW α) (arr res : NDArr α)
    (ax : AxisM α) (hax : g.axis? axname = some ax)
    (dimIn dimOut : String) (hin : alookup f ax.coords = some dimIn)
    (hout : alookup t ax.coords = some dimOut)
    (k : Nat) (hk : arr.dimIdx dimIn = some k)
    (n : Nat) (hn : 2 ≤ n) (hshape : arr.shape.getD k 0 = f.len n)
    (r : Rule) (hr : ruleInForceCall ax boundary = some r)
    (hwords : boundaryWordsOk g boundary = true)
    (hres : stepAxis o Gen.gridops g fn.toString axname f t boundary fillkw arr = .ok res) :
    res.dims = arr.dims.eraseIdx k ++ [dimOut] ∧
    res.shape = arr.shape.eraseIdx k ++ [t.len n] ∧
    ∀ idx : List Nat,
      res.get idx =
        (specLine (fn.op o) r (fillInForceCall ax fillkw) f t n
          (arr.line k (idx.dropLast.take k ++ [0] ++ idx.dropLast.drop k))).getD
          (idx.getLastD 0) (fillInForceCall ax fillkw) := by
  obtain ⟨e, hsel, hw, hb⟩ := select_valid fn f t hv
  have hlo : e.lo = (widthOf f t).1 := by rw [← hw]
  have hhi : e.hi = (widthOf f t).2 := by rw [← hw]
  -- all lines have length f.len n
  have hline : ∀ idx, (arr.line k idx).length = f.len n := by
    intro idx; simp only [NDArr.line, List.length_map, List.length_range]; exact hshape
  have hop : ∀ (rr : Rule) (xs : List α), xs.length = f.len n →
      op1d o e rr (fillInForceCall ax fillkw) xs =
        some (specLine (fn.op o) rr (fillInForceCall ax fillkw) f t n xs) := by
    intro rr xs hx
    simp only [op1d, hb, eval_canonicalBody, hlo, hhi]
    rw [fwd_pad_eq_spec _ rr _ f t n xs hv hn hx]
  have hspeclen : ∀ (rr : Rule) (xs : List α),
      (specLine (fn.op o) rr (fillInForceCall ax fillkw) f t n xs).length = t.len n := by
    intro rr xs; simp [specLine]
  have hwf : boundaryWordsOk g boundary = false ↔ False := by simp [hwords]
  simp only [stepAxis, hsel, hax, hin, hk, hout, hshape, hwf, if_false] at hres
  have hzero : e.lo = 0 ∧ e.hi = 0 → ∀ xs : List α,
      op1d o e Rule.periodic (fillInForceCall ax fillkw) xs =
      op1d o e r (fillInForceCall ax fillkw) xs := by
    intro hz xs
    simp only [op1d, hz.1, hz.2, pad1d_zero]
  by_cases hz : e.lo = 0 ∧ e.hi = 0
  · simp only [hz, and_self, if_true] at hres
    rw [hzero hz, hop r _ (by simp)] at hres
    simp only [Except.ok.injEq] at hres
    subst hres
    refine ⟨rfl, by simp [NDArr.applyAlong, hspeclen], ?_⟩
    intro idx
    simp only [NDArr.applyAlong]
    rw [hzero hz, hop r _ (hline _)]
    simp
  · simp only [hz, if_false, hr] at hres
    rw [hop r _ (by simp)] at hres
    simp only [Except.ok.injEq] at hres
    subst hres
    refine ⟨rfl, by simp [NDArr.applyAlong, hspeclen], ?_⟩
    intro idx
    simp only [NDArr.applyAlong]
    rw [hop r _ (hline _)]
    simp

/-- **Several axes = one after another, in the given order** (definitional in
    the model; tied to the implementation by the correspondence run) -/
theorem multi_axis_sequential (o : Ops α) (g : GridM α) (fname : String) (b : KW String)
    (fl : KW α) (s : String × Pos × Pos) (rest : List (String × Pos × Pos)) (arr : NDArr α) :
    foldAxes o Gen.gridops g fname b fl (s :: rest) arr =
      (stepAxis o Gen.gridops g fname s.1 s.2.1 s.2.2 b fl arr >>=
        foldAxes o Gen.gridops g fname b fl rest) := by
  obtain ⟨a, f, t⟩ := s
  simp only [foldAxes]

/-- **Dimension order is restored**: the result carries the input's dimensions
    in the input's order with each operated axis dimension replaced. -/
theorem order_restored (g : GridM α) (orig axes : List String) (res out : NDArr α)
    (h : restoreOrder g orig axes res = .ok out) :
    out.dims.length = orig.length ∧
    ∀ i (hi : i < orig.length), (hi' : i < out.dims.length) →
      (out.dims[i] = orig[i] ∨ out.dims[i] ∈ res.dims) := by
  unfold restoreOrder at h
  simp only [bind, Except.bind] at h
  split at h
  · cases h
  · rename_i pairs hp
    simp only [pure, Except.pure] at h
    split at h
    · simp only [Except.ok.injEq] at h
      subst h
      rename_i hc
      refine ⟨by simp [NDArr.transposeTo], ?_⟩
      intro i hi hi'
      right
      simp only [NDArr.transposeTo, List.getElem_map]
      have := hc.2
      rw [List.all_eq_true] at this
      have hm := this ((List.map (fun d => (alookup d pairs.reverse).getD d) orig)[i]'(by simpa using hi))
        (List.getElem_mem _)
      simpa using hm
    · cases h

/-- non-vacuity: a concrete 2-axis layout meets the hypotheses of `line_exact`
    and the selected ufunc really computes on it -/
example : validShift .center .outer = true ∧ (2 : Nat) ≤ 3 ∧
    ([1, 2, 3] : List Int).length = Pos.center.len 3 := by decide

/-- **The predefined stencil operators bind no option of their own**: the only `@as_grid_ufunc` functions of
    gridops.py that bind `fill_value`, `boundary` or `pad_before_func` at definition time are the four cumsum
    helpers — so for diff / interp / min / max the boundary rule and fill value in force are exactly those of the
    call and of the grid (C02), as `step_exact` assumes.  (Regenerated from the decorators on every run: a
    `fill_value=0` slipped into one decorator would silently shadow the grid's fill value.) -/
theorem operators_bind_no_options :
    Gen.gridopsOptions.all (fun e => "cumsum_".toList.isPrefixOf e.1.toList) = true ∧
    (Gen.gridops.filter (fun e => !"cumsum_".toList.isPrefixOf e.name.toList)).all
      (fun e => !(Gen.gridopsOptions.map (·.1)).contains e.name) = true := by
  decide +kernel

end Xgcm.C01

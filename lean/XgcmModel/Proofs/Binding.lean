import XgcmModel.Model.UFunc
/-
  `_identify_dummy_axes_with_real_axes`: when the `axis` argument is a consistent image of the
  signature's dummy names under an injective assignment σ, the mapping built by pairing first
  appearances IS σ.
-/
namespace Xgcm.Binding
open Xgcm

def InjOn (σ : String → String) (l : List String) : Prop := ∀ x ∈ l, ∀ y ∈ l, σ x = σ y → x = y

theorem InjOn.mono {σ : String → String} {l m : List String} (h : InjOn σ m) (hs : ∀ x ∈ l, x ∈ m) :
    InjOn σ l := fun x hx y hy e => h x (hs x hx) y (hs y hy) e

theorem contains_map_on (σ : String → String) (l : List String) (k : String) (h : InjOn σ (k :: l)) :
    (l.map σ).contains (σ k) = l.contains k := by
  induction l with
  | nil => rfl
  | cons a r ih =>
    have ih' := ih (h.mono (by intro x hx; simp only [List.mem_cons] at hx ⊢; rcases hx with h | h <;> simp [h]))
    simp only [List.map_cons, List.contains_cons, ih']
    congr 1
    by_cases hk : k = a
    · subst hk; rw [beq_self_eq_true, beq_self_eq_true]
    · have : σ k ≠ σ a := fun e => hk (h k (by simp) a (by simp) e)
      rw [beq_eq_false_iff_ne.mpr hk, beq_eq_false_iff_ne.mpr this]

theorem dedupAux_map (σ : String → String) (seen l : List String) (h : InjOn σ (seen ++ l)) :
    dedupAux (seen.map σ) (l.map σ) = (dedupAux seen l).map σ := by
  induction l generalizing seen with
  | nil => rfl
  | cons x xs ih =>
    have hc : (seen.map σ).contains (σ x) = seen.contains x :=
      contains_map_on σ seen x (h.mono (by
        intro y hy; simp only [List.mem_cons, List.mem_append] at hy ⊢
        rcases hy with h | h
        · exact Or.inr (Or.inl h)
        · exact Or.inl h))
    simp only [List.map_cons, dedupAux, hc]
    split
    · exact ih seen (h.mono (by
        intro y hy; simp only [List.mem_cons, List.mem_append] at hy ⊢
        rcases hy with h | h
        · exact Or.inl h
        · exact Or.inr (Or.inr h)))
    · have := ih (x :: seen) (h.mono (by
        intro y hy; simp only [List.mem_cons, List.mem_append] at hy ⊢
        rcases hy with (h | h) | h
        · exact Or.inr (Or.inl h)
        · exact Or.inl h
        · exact Or.inr (Or.inr h)))
      simp only [List.map_cons] at this ⊢
      rw [this]

theorem dedup_map (σ : String → String) (l : List String) (h : InjOn σ l) :
    dedup (l.map σ) = (dedup l).map σ := by
  have := dedupAux_map σ [] l (by simpa using h)
  simpa [dedup] using this

theorem zip_map_self {β γ : Type} (f : β → γ) (l : List β) :
    l.zip (l.map f) = l.map (fun d => (d, f d)) := by
  induction l with
  | nil => rfl
  | cons a r ih => simp only [List.map_cons, List.zip_cons_cons, ih]

theorem flatten_map_map {β γ : Type} (f : β → γ) (ll : List (List β)) :
    (ll.map (List.map f)).flatten = ll.flatten.map f := by
  induction ll with
  | nil => rfl
  | cons a r ih => simp only [List.map_cons, List.flatten_cons, List.map_append, ih]

theorem zip_any_len (σ : String → String) (ll : List (List String)) :
    (List.zip (ll.map (List.map σ)) ll).any (fun p => p.1.length != p.2.length) = false := by
  induction ll with
  | nil => rfl
  | cons a r ih => simp only [List.map_cons, List.zip_cons_cons, List.any_cons, ih, List.length_map, bne_self_eq_false,
      Bool.or_false]

theorem mem_dedupAux (seen l : List String) (x : String) (hx : x ∈ l) (hs : x ∉ seen) :
    x ∈ dedupAux seen l := by
  induction l generalizing seen with
  | nil => cases hx
  | cons y ys ih =>
    simp only [dedupAux]
    by_cases hxy : x = y
    · subst hxy
      simp [hs]
    · have hx' : x ∈ ys := by
        simp only [List.mem_cons] at hx; rcases hx with h | h
        · exact absurd h hxy
        · exact h
      split
      · exact ih seen hx' hs
      · simp only [List.mem_cons]
        right
        apply ih (y :: seen) hx'
        simp only [List.mem_cons, not_or]
        exact ⟨hxy, hs⟩

theorem alookup_graph (σ : String → String) (l : List String) (d : String) (h : d ∈ l) :
    alookup d (l.map (fun d => (d, σ d))) = some (σ d) := by
  induction l with
  | nil => cases h
  | cons a r ih =>
    simp only [List.map_cons, alookup]
    by_cases hd : d = a
    · simp [hd]
    · simp only [hd, if_false]
      apply ih
      simp only [List.mem_cons] at h
      rcases h with h | h
      · exact absurd h hd
      · exact h

end Xgcm.Binding

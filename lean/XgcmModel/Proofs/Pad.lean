import XgcmModel.Proofs.Stencil
import XgcmModel.Spec.C02
/-
  Helper lemmas for C02: N-D padding along one axis and in sequence.
-/
namespace Xgcm

variable {α : Type}

theorem line_length (a : NDArr α) (k : Nat) (idx : List Nat) :
    (a.line k idx).length = a.shape.getD k 0 := by
  simp [NDArr.line]

theorem line_getD (a : NDArr α) (k : Nat) (idx : List Nat) (j : Nat) (d : α)
    (h : j < a.shape.getD k 0) : (a.line k idx).getD j d = a.get (idx.set k j) := by
  have hl : j < (a.line k idx).length := by rw [line_length]; exact h
  rw [getD_eq_getElem' _ _ _ hl]
  simp [NDArr.line]

theorem ext_fill_out (fill : α) (xs : List α) (i : Int) (h : ¬ (0 ≤ i ∧ i < xs.length)) :
    ext .fill fill xs i = fill := by
  simp [ext, h]

/-- one-axis padding, cell by cell -/
theorem padAlong_get (a : NDArr α) (k : Nat) (r : Rule) (fill : α) (lo hi : Nat) (idx : List Nat)
    (hn : 1 ≤ a.shape.getD k 0) :
    (a.padAlong k r fill lo hi).get idx = specPadCell a k r fill lo idx := by
  simp only [NDArr.padAlong, specPadCell]
  generalize hi' : ((idx.getD k 0 : Int) - (lo : Int)) = i
  have hlen := line_length a k idx
  by_cases hin : 0 ≤ i ∧ i < (a.shape.getD k 0 : Int)
  · rw [if_pos hin]
    obtain ⟨h0, h1⟩ := hin
    have hi2 : i = (i.toNat : Int) := by omega
    rw [hi2, ext_inrange r fill _ i.toNat (by rw [hlen]; omega)]
    have := line_getD a k idx i.toNat fill (by omega)
    rw [getD_eq_getElem' _ _ _ (by rw [hlen]; omega)] at this
    rw [this]
    have hm : (max i 0).toNat = i.toNat := by omega
    simp [hm]
  · rw [if_neg hin]
    cases r
    · -- periodic
      simp only [ext, hlen]
      have hm0 : 0 ≤ i % (a.shape.getD k 0 : Int) := Int.emod_nonneg _ (by omega)
      have hm1 : i % (a.shape.getD k 0 : Int) < (a.shape.getD k 0 : Int) :=
        Int.emod_lt_of_pos _ (by omega)
      exact line_getD a k idx _ fill (by omega)
    · -- fill
      apply ext_fill_out; rw [hlen]; exact hin
    · -- extend
      simp only [ext, hlen]
      by_cases hneg : i < 0
      · simp only [hneg, if_true]
        exact line_getD a k idx 0 fill (by omega)
      · have hge : i ≥ (a.shape.getD k 0 : Int) := by omega
        simp only [hneg, if_false, hge, if_true]
        have : ((a.shape.getD k 0 : Int) - 1).toNat = a.shape.getD k 0 - 1 := by omega
        rw [this]
        exact line_getD a k idx _ fill (by omega)

theorem padAlong_shape (a : NDArr α) (k : Nat) (r : Rule) (fill : α) (lo hi : Nat) :
    (a.padAlong k r fill lo hi).shape = a.shape.set k (lo + a.shape.getD k 0 + hi) := rfl

theorem padAlong_dims (a : NDArr α) (k : Nat) (r : Rule) (fill : α) (lo hi : Nat) :
    (a.padAlong k r fill lo hi).dims = a.dims := rfl

theorem padSeq_dims (ws : List (PadStep α)) (a : NDArr α) : (padSeq ws a).dims = a.dims := by
  induction ws generalizing a with
  | nil => rfl
  | cons w ws ih => simp only [padSeq, List.foldl_cons] at *; rw [ih]; rfl

/-- index shift undoing the lower pads -/
def unshift (ws : List (PadStep α)) (idx : List Nat) : List Nat :=
  ws.foldr (fun w i => i.set w.k (i.getD w.k 0 - w.lo)) idx

theorem getD_set_ne (l : List Nat) (i j v : Nat) (h : i ≠ j) : (l.set i v).getD j 0 = l.getD j 0 := by
  simp [List.getD_eq_getElem?_getD, List.getElem?_set_ne h]

theorem unshift_getD_other (ws : List (PadStep α)) (idx : List Nat) (k : Nat)
    (h : ∀ w ∈ ws, w.k ≠ k) : (unshift ws idx).getD k 0 = idx.getD k 0 := by
  induction ws with
  | nil => rfl
  | cons w ws ih =>
    simp only [unshift, List.foldr_cons]
    rw [getD_set_ne _ _ _ _ (h w (by simp))]
    exact ih (fun w' hw' => h w' (by simp [hw']))

end Xgcm

namespace Xgcm
variable {α : Type}

theorem shape_getD_set_ne (l : List Nat) (i j v : Nat) (h : i ≠ j) :
    (l.set i v).getD j 0 = l.getD j 0 := getD_set_ne l i j v h

/-- cells that are interior along every padded axis keep their original value -/
theorem padSeq_interior (ws : List (PadStep α)) (a : NDArr α) (idx : List Nat)
    (hd : ws.Pairwise (fun w w' => w.k ≠ w'.k))
    (hn : ∀ w ∈ ws, 1 ≤ a.shape.getD w.k 0)
    (hin : ∀ w ∈ ws, w.lo ≤ idx.getD w.k 0 ∧ idx.getD w.k 0 < w.lo + a.shape.getD w.k 0) :
    (padSeq ws a).get idx = a.get (unshift ws idx) := by
  induction ws generalizing a with
  | nil => rfl
  | cons w ws ih =>
    have hd' := List.pairwise_cons.mp hd
    have hshape : ∀ w' ∈ ws, (a.padAlong w.k w.rule w.fill w.lo w.hi).shape.getD w'.k 0
        = a.shape.getD w'.k 0 := by
      intro w' hw'
      rw [padAlong_shape]
      exact shape_getD_set_ne _ _ _ _ (hd'.1 w' hw')
    have step : (padSeq (w :: ws) a).get idx =
        (padSeq ws (a.padAlong w.k w.rule w.fill w.lo w.hi)).get idx := by
      simp [padSeq]
    rw [step, ih _ hd'.2
      (fun w' hw' => by rw [hshape w' hw']; exact hn w' (by simp [hw']))
      (fun w' hw' => by rw [hshape w' hw']; exact hin w' (by simp [hw']))]
    rw [padAlong_get _ _ _ _ _ _ _ (hn w (by simp))]
    have hk : (unshift ws idx).getD w.k 0 = idx.getD w.k 0 :=
      unshift_getD_other ws idx w.k (fun w' hw' => (hd'.1 w' hw').symm)
    have hw := hin w (by simp)
    simp only [specPadCell, hk]
    rw [if_pos (by omega)]
    simp only [unshift, List.foldr_cons]
    congr 2
    have : (unshift ws idx).getD w.k 0 = idx.getD w.k 0 := hk
    simp only [unshift] at this
    rw [this]
    omega

theorem padSeq_shape_getD (ws : List (PadStep α)) (a : NDArr α) (k : Nat)
    (hd : ws.Pairwise (fun w w' => w.k ≠ w'.k)) (hk : k < a.shape.length) :
    (padSeq ws a).shape.getD k 0 =
      match ws.find? (fun w => w.k == k) with
      | some w => w.lo + a.shape.getD k 0 + w.hi
      | none => a.shape.getD k 0 := by
  induction ws generalizing a with
  | nil => rfl
  | cons w ws ih =>
    have hd' := List.pairwise_cons.mp hd
    have step : padSeq (w :: ws) a = padSeq ws (a.padAlong w.k w.rule w.fill w.lo w.hi) := by
      simp [padSeq]
    rw [step, ih _ hd'.2 (by rw [padAlong_shape]; simpa using hk)]
    by_cases hwk : w.k = k
    · subst hwk
      have hnone : ws.find? (fun w' => w'.k == w.k) = none := by
        rw [List.find?_eq_none]
        intro w' hw'
        simpa using (hd'.1 w' hw').symm
      simp [hnone, padAlong_shape, List.getD_eq_getElem?_getD, hk]
    · have : (w.k == k) = false := by simpa using hwk
      simp only [List.find?_cons, this, padAlong_shape]
      rw [shape_getD_set_ne _ _ _ _ hwk]

end Xgcm

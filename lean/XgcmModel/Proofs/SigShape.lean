import XgcmModel.Proofs.SigSound
/-
  A character-class automaton bounding the shape of every accepted signature text.
  State = class of the previous character (+ whether `->` has been seen).
-/
set_option linter.unusedSimpArgs false
namespace Xgcm

inductive CC where
  | start | lpar | rpar | comma | colon | word | dash | gt | other
  deriving DecidableEq, Repr

def cls (c : Char) : CC :=
  if isWord c then .word
  else if c = '(' then .lpar
  else if c = ')' then .rpar
  else if c = ',' then .comma
  else if c = ':' then .colon
  else if c = '-' then .dash
  else if c = '>' then .gt
  else .other

/-- which character class may follow which -/
def okPair : CC → CC → Bool
  | .start, .lpar => true
  | .lpar, .word => true
  | .lpar, .rpar => true
  | .word, .word => true
  | .word, .colon => true
  | .word, .comma => true
  | .word, .rpar => true
  | .colon, .word => true
  | .comma, .word => true
  | .comma, .lpar => true
  | .comma, .rpar => true
  | .rpar, .comma => true
  | .rpar, .dash => true
  | .dash, .gt => true
  | .gt, .lpar => true
  | _, _ => false

/-- automaton state: previous class and number of arrows seen (capped at 2) -/
abbrev St := Option (CC × Nat)

def stepS (s : St) (c : Char) : St :=
  match s with
  | none => none
  | some (p, k) =>
    if okPair p (cls c) then some (cls c, if cls c = .gt then k + 1 else k) else none

def runS (s : St) (l : List Char) : St := l.foldl stepS s

/-- the shape every accepted text has: starts with `(`, ends with `)`, exactly one `->`,
    and every adjacent pair of characters is an allowed transition -/
def shapeOK (l : List Char) : Bool := runS (some (.start, 0)) l == some (.rpar, 1)

theorem runS_append (s : St) (a b : List Char) : runS s (a ++ b) = runS (runS s a) b := by
  simp [runS, List.foldl_append]

theorem runS_none (l : List Char) : runS none l = none := by
  induction l with
  | nil => rfl
  | cons c r ih => simpa [runS, stepS] using ih

theorem runS_cons (s : St) (c : Char) (l : List Char) : runS s (c :: l) = runS (stepS s c) l := rfl

theorem stepS_char (p : CC) (k : Nat) (c : Char) (q : CC) (hc : cls c = q) (hq : q ≠ .gt)
    (h : okPair p q = true) : stepS (some (p, k)) c = some (q, k) := by
  subst hc
  simp [stepS, h, hq]

theorem cls_word (c : Char) (h : isWord c = true) : cls c = .word := by simp [cls, h]

/-- a non-empty run of word characters from a state that allows a word character -/
theorem runS_words (p : CC) (k : Nat) (l : List Char) (hl : ∀ c ∈ l, isWord c = true) (hne : l ≠ [])
    (hp : okPair p .word = true) : runS (some (p, k)) l = some (.word, k) := by
  induction l generalizing p with
  | nil => exact absurd rfl hne
  | cons c r ih =>
    have hc := cls_word c (hl c (by simp))
    rw [runS_cons]
    have hs : stepS (some (p, k)) c = some (.word, k) := by simp [stepS, hc, hp]
    rw [hs]
    cases r with
    | nil => rfl
    | cons d r' => exact ih .word (fun c hc' => hl c (by simp [hc'])) (by simp) rfl

theorem pos_chars_word (q : Pos) : (∀ c ∈ q.chars, isWord c = true) ∧ q.chars ≠ [] := by
  cases q <;> simp [Pos.chars] <;> decide

theorem runS_pair (p : CC) (k : Nat) (cp : CPair) (hw : Name.WF cp.name) (hp : okPair p .word = true) :
    runS (some (p, k)) cp.render = some (if cp.comma then .comma else .word, k) := by
  unfold CPair.render
  rw [runS_append, runS_words p k cp.name hw.2 hw.1 hp, runS_cons]
  have h1 : stepS (some (.word, k)) ':' = some (.colon, k) :=
    stepS_char _ _ _ _ (by decide) (by decide) rfl
  rw [h1, runS_append, runS_words .colon k _ (pos_chars_word cp.pos).1 (pos_chars_word cp.pos).2 rfl]
  cases cp.comma with
  | false => rfl
  | true =>
    simp only [if_true]
    exact stepS_char .word k ',' .comma (by decide) (by decide) rfl

/-- after the pairs of an argument the state allows `)` -/
theorem runS_pairs (p : CC) (k : Nat) (a : List CPair) (hw : CArgWF a) (hp : okPair p .word = true)
    (hpr : okPair p .rpar = true) :
    ∃ q, runS (some (p, k)) (renderPairs a) = some (q, k) ∧ okPair q .rpar = true := by
  induction a generalizing p with
  | nil => exact ⟨p, rfl, hpr⟩
  | cons cp r ih =>
    simp only [renderPairs]
    rw [runS_append, runS_pair p k cp (hw cp (by simp)) hp]
    apply ih
    · intro x hx; exact hw x (by simp [hx])
    · cases cp.comma <;> rfl
    · cases cp.comma <;> rfl

theorem runS_arg (p : CC) (k : Nat) (a : List CPair) (hw : CArgWF a) (hp : okPair p .lpar = true) :
    runS (some (p, k)) (renderArgC a) = some (.rpar, k) := by
  unfold renderArgC
  rw [runS_cons]
  have h1 : stepS (some (p, k)) '(' = some (.lpar, k) := by
    have : cls '(' = .lpar := by decide
    simp [stepS, this, hp]
  rw [h1, runS_append]
  obtain ⟨q, hq, hqr⟩ := runS_pairs .lpar k a hw rfl rfl
  rw [hq]
  have : cls ')' = .rpar := by decide
  simp [runS, stepS, this, hqr]

theorem runS_more (k : Nat) (as : List (List CPair)) (hw : ∀ a ∈ as, CArgWF a) :
    runS (some (.rpar, k)) (renderMore as) = some (.rpar, k) := by
  induction as with
  | nil => rfl
  | cons a r ih =>
    simp only [renderMore]
    rw [runS_cons]
    have h1 : stepS (some (.rpar, k)) ',' = some (.comma, k) :=
      stepS_char _ _ _ _ (by decide) (by decide) rfl
    rw [h1, runS_append, runS_arg .comma k a (hw a (by simp)) rfl]
    exact ih (fun x hx => hw x (by simp [hx]))

theorem runS_args (p : CC) (k : Nat) (as : List (List CPair)) (hne : as ≠ []) (hw : ∀ a ∈ as, CArgWF a)
    (hp : okPair p .lpar = true) : runS (some (p, k)) (renderArgsC as) = some (.rpar, k) := by
  cases as with
  | nil => exact absurd rfl hne
  | cons a r =>
    simp only [renderArgsC]
    rw [runS_append, runS_arg p k a (hw a (by simp)) hp]
    exact runS_more k r (fun x hx => hw x (by simp [hx]))

/-- **every accepted text has the shape** -/
theorem accepted_shape (text : List Char) (s : Sig) (h : parseSig text = some s) :
    shapeOK (text.filter (· != ' ')) = true := by
  obtain ⟨ci, co, hci, hco, _, _, htext, hwi, hwo⟩ := parseSig_sound text s h
  unfold shapeOK
  rw [htext, runS_append, runS_args .start 0 ci hci hwi rfl, runS_cons, runS_cons]
  have h1 : stepS (stepS (some (.rpar, 0)) '-') '>' = some (.gt, 1) := by decide
  rw [h1, runS_args .gt 1 co hco hwo rfl]
  rfl

/-- after reading a character the automaton, if alive, remembers its class -/
theorem runS_snoc_class (s : St) (x : List Char) (a : Char) :
    runS s (x ++ [a]) = none ∨ ∃ k, runS s (x ++ [a]) = some (cls a, k) := by
  rw [runS_append]
  cases runS s x with
  | none => left; rfl
  | some pk =>
    obtain ⟨p, k⟩ := pk
    simp only [runS, List.foldl, stepS]
    split
    · right; exact ⟨_, rfl⟩
    · left; rfl

/-- a forbidden adjacent pair anywhere kills the automaton -/
theorem bad_pair_dead (s : St) (x y : List Char) (a b : Char) (h : okPair (cls a) (cls b) = false) :
    runS s (x ++ a :: b :: y) = none := by
  have : x ++ a :: b :: y = (x ++ [a]) ++ (b :: y) := by simp
  rw [this, runS_append]
  rcases runS_snoc_class s x a with h1 | ⟨k, h1⟩
  · rw [h1]; exact runS_none _
  · rw [h1, runS_cons]
    have : stepS (some (cls a, k)) b = none := by simp [stepS, h]
    rw [this]; exact runS_none _

/-- a character outside the alphabet kills it -/
theorem other_dead (s : St) (x y : List Char) (c : Char) (h : cls c = .other) :
    runS s (x ++ c :: y) = none := by
  rw [runS_append, runS_cons]
  have : stepS (runS s x) c = none := by
    cases runS s x with
    | none => rfl
    | some pk =>
      obtain ⟨p, k⟩ := pk
      have : okPair p .other = false := by cases p <;> rfl
      simp [stepS, h, this]
  rw [this]; exact runS_none _

end Xgcm

namespace Xgcm

theorem rejected_of_not_shape (text : List Char) (h : shapeOK (text.filter (· != ' ')) = false) :
    parseSig text = none := by
  cases hp : parseSig text with
  | none => rfl
  | some s => rw [accepted_shape text s hp] at h; cases h

/-- the arrow counter only moves at `>` -/
theorem runS_count (p : CC) (k : Nat) (l : List Char) (h : '>' ∉ l) :
    runS (some (p, k)) l = none ∨ ∃ q, runS (some (p, k)) l = some (q, k) := by
  induction l generalizing p with
  | nil => right; exact ⟨p, rfl⟩
  | cons c r ih =>
    rw [runS_cons]
    have hc : c ≠ '>' := fun e => h (by simp [e])
    have hr : '>' ∉ r := fun e => h (by simp [e])
    simp only [stepS]
    split
    · have hcls : cls c ≠ .gt := by
        intro e
        simp only [cls] at e
        repeat' split at e
        all_goals first | cases e | (rename_i hgt; exact hc hgt)
      simp only [hcls, if_false]
      exact ih (cls c) hr
    · left; exact runS_none _

end Xgcm

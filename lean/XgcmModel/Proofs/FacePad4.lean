import XgcmModel.Proofs.FacePad3
import XgcmModel.Spec.C05
/-
  C05 helper lemmas, part 4: from prepadded strip coordinates to the documented cell;
  the final trim.
-/
set_option linter.unusedSimpArgs false
namespace Xgcm

variable {α : Type}

/-- the documented source cell, as a function of the unpadded source array `D` -/
def docCell (n : Nat) (isRight rev swap negO negT : Bool) (neg : α → α) (D : Arr2 α)
    (k y : Nat) : α :=
  let side : Nat := if isRight then 1 else 0
  let sside : Nat := if rev then side else 1 - side
  let cb := if sside = 0 then k - 1 else n - k
  let co := if swap && !rev then n - 1 - y else y
  let v := if swap then D.get co cb else D.get cb co
  let v1 := if rev && negO then neg v else v
  if swap && !rev && negT then neg v1 else v1

theorem stripCell_doc (w n : Nat) (S D : Arr2 α) (hw : 0 < w) (hwn : w ≤ n)
    (hSx : S.nx = n + 2 * w) (hSy : S.ny = n + 2 * w)
    (hS : ∀ a b, a < n → b < n → S.get (w + a) (w + b) = D.get a b)
    (isRight rev swap negO negT : Bool) (neg : α → α) (i y : Nat) (hi : i < w) (hy : y < n) :
    stripCell w isRight rev swap negO negT neg S i (w + y) =
      docCell n isRight rev swap negO negT neg D (if isRight then i + 1 else w - i) y := by
  have key : ∀ a b a' b', a = w + a' → b = w + b' → a' < n → b' < n → S.get a b = D.get a' b' := by
    intro a b a' b' ha hb ha' hb'; subst ha; subst hb; exact hS a' b' ha' hb'
  cases isRight <;> cases rev <;> cases swap <;> cases negO <;> cases negT <;>
    simp only [stripCell, docCell, hSx, hSy, Bool.false_eq_true, if_false, if_true, Bool.and_true,
      Bool.and_false, Bool.not_false, Bool.not_true, Bool.true_and, Bool.false_and, decide_true,
      decide_false, Nat.sub_self, Nat.sub_zero, Nat.one_ne_zero, Nat.zero_ne_one, Bool.true_eq_false,
      reduceCtorEq, ↓reduceIte, Nat.add_sub_cancel] <;>
    (first
      | (refine key _ _ _ _ ?_ ?_ ?_ ?_ <;> omega)
      | (refine congrArg neg (key _ _ _ _ ?_ ?_ ?_ ?_) <;> omega))


theorem width_bounds (c : FPCfg α) :
    c.reqX.1 ≤ c.width ∧ c.reqX.2 ≤ c.width ∧ c.reqY.1 ≤ c.width ∧ c.reqY.2 ≤ c.width := by
  unfold FPCfg.width; omega

/-- the final trim: from the equal-width padded square to the requested widths -/
theorem trim_spec (c : FPCfg α) (hb : BothAxes c) (a : Arr2 α) (n : Nat)
    (ha : Square (n + 2 * c.width) a) :
    (trim c a).nx = c.reqX.1 + n + c.reqX.2 ∧ (trim c a).ny = c.reqY.1 + n + c.reqY.2 ∧
    ∀ i j, (trim c a).get i j = a.get (i + (c.width - c.reqX.1)) (j + (c.width - c.reqY.1)) := by
  obtain ⟨b1, b2, b3, b4⟩ := width_bounds c
  have hcx : c.padAxes.contains c.xAxis = true := by
    rcases hb.2 with h | h <;> simp [h]
  have hcy : c.padAxes.contains c.yAxis = true := by
    rcases hb.2 with h | h <;> simp [h]
  have sx : ((c.width : Int) - (c.reqX.1 : Int)) = ((c.width - c.reqX.1 : Nat) : Int) := by omega
  have sy : ((c.width : Int) - (c.reqY.1 : Int)) = ((c.width - c.reqY.1 : Nat) : Int) := by omega
  simp only [trim, hcx, hcy, if_true, sx, sy]
  by_cases hx0 : (c.width : Int) - (c.reqX.2 : Int) = 0 <;>
  by_cases hy0 : (c.width : Int) - (c.reqY.2 : Int) = 0 <;>
    simp only [hx0, hy0, if_true, if_false, Arr2.sliceX, Arr2.sliceY, pyBound_nat, ha.hx, ha.hy]
  · refine ⟨by omega, by omega, ?_⟩
    intro i j
    congr 1 <;> omega
  · have ey : (-((c.width : Int) - (c.reqY.2 : Int))) = -(((c.width - c.reqY.2 : Nat)) : Int) := by omega
    simp only [ey, pyBound_neg _ _ (show 0 < c.width - c.reqY.2 by omega)]
    refine ⟨by omega, by omega, ?_⟩
    intro i j
    congr 1 <;> omega
  · have ex : (-((c.width : Int) - (c.reqX.2 : Int))) = -(((c.width - c.reqX.2 : Nat)) : Int) := by omega
    simp only [ex, pyBound_neg _ _ (show 0 < c.width - c.reqX.2 by omega)]
    refine ⟨by omega, by omega, ?_⟩
    intro i j
    congr 1 <;> omega
  · have ex : (-((c.width : Int) - (c.reqX.2 : Int))) = -(((c.width - c.reqX.2 : Nat)) : Int) := by omega
    have ey : (-((c.width : Int) - (c.reqY.2 : Int))) = -(((c.width - c.reqY.2 : Nat)) : Int) := by omega
    simp only [ex, ey, pyBound_neg _ _ (show 0 < c.width - c.reqX.2 by omega),
      pyBound_neg _ _ (show 0 < c.width - c.reqY.2 by omega)]
    refine ⟨by omega, by omega, ?_⟩
    intro i j
    congr 1 <;> omega

end Xgcm

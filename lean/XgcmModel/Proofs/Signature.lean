import XgcmModel.Model.Signature
/-
  Helper lemmas for C15: the parser inverts the printer.
-/
set_option linter.unusedSimpArgs false
namespace Xgcm

def Name.WF (n : Name) : Prop := n ≠ [] ∧ ∀ c ∈ n, isWord c = true
def SigArg.WF (a : SigArg) : Prop := ∀ p ∈ a, Name.WF p.1
def Sig.WF (s : Sig) : Prop :=
  s.ins ≠ [] ∧ s.outs ≠ [] ∧ (∀ a ∈ s.ins, SigArg.WF a) ∧ (∀ a ∈ s.outs, SigArg.WF a)

theorem takeWhile_word (n : Name) (h : ∀ c ∈ n, isWord c = true) (c : Char) (hc : isWord c = false)
    (rest : List Char) :
    (n ++ c :: rest).takeWhile isWord = n ∧ (n ++ c :: rest).dropWhile isWord = c :: rest := by
  induction n with
  | nil => simp [List.takeWhile, List.dropWhile, hc]
  | cons a r ih =>
    have ha : isWord a = true := h a (by simp)
    have := ih (fun c hc' => h c (by simp [hc']))
    simp [List.takeWhile, List.dropWhile, ha, this]

theorem parseName_print (n : Name) (h : Name.WF n) (c : Char) (hc : isWord c = false)
    (rest : List Char) : parseName (n ++ c :: rest) = some (n, c :: rest) := by
  obtain ⟨hne, hw⟩ := h
  have := takeWhile_word n hw c hc rest
  unfold parseName
  simp only [this.1, this.2]
  cases n with
  | nil => exact absurd rfl hne
  | cons a r => rfl

theorem parsePos_print (p : Pos) (rest : List Char) : parsePos (p.chars ++ rest) = some (p, rest) := by
  cases p <;> simp [parsePos, stripPrefix, Pos.chars, List.findSome?, List.isPrefixOf]

theorem parsePair_print (p : Name × Pos) (h : Name.WF p.1) (rest : List Char) :
    parsePair (printPair p ++ rest) = some (p, rest) := by
  obtain ⟨n, q⟩ := p
  have h1 : printPair (n, q) ++ rest = n ++ ':' :: (q.chars ++ rest) := by
    simp [printPair, List.append_assoc]
  rw [h1]
  unfold parsePair
  rw [parseName_print n h ':' (by decide)]
  simp [parsePos_print, bind, Option.bind]

theorem printPair_head (p : Name × Pos) (h : Name.WF p.1) (rest : List Char) :
    ∃ c t, printPair p ++ rest = c :: t ∧ isWord c = true := by
  obtain ⟨n, q⟩ := p
  obtain ⟨hne, hw⟩ := h
  cases n with
  | nil => exact absurd rfl hne
  | cons a r => exact ⟨a, r ++ ':' :: (q.chars ++ rest), by simp [printPair], hw a (by simp)⟩

theorem parsePairs_print (a : SigArg) (h : SigArg.WF a) (rest : List Char) (fuel : Nat)
    (hf : a.length + 1 ≤ fuel) :
    parsePairs fuel (joinComma (a.map printPair) ++ ')' :: rest) = some (a, ')' :: rest) := by
  induction a generalizing fuel with
  | nil =>
    cases fuel with
    | zero => omega
    | succ f => simp [joinComma, parsePairs]
  | cons x r ih =>
    cases fuel with
    | zero => omega
    | succ f =>
      have hx : Name.WF x.1 := h x (by simp)
      have hr : SigArg.WF r := fun p hp => h p (by simp [hp])
      cases r with
      | nil =>
        obtain ⟨c, t, hct, hc⟩ := printPair_head x hx (')' :: rest)
        have hne : c ≠ ')' := by intro hh; subst hh; simp [isWord] at hc
        simp only [List.map_cons, List.map_nil, joinComma]
        unfold parsePairs
        rw [hct]
        have hpp := parsePair_print x hx (')' :: rest)
        rw [hct] at hpp
        split
        · rename_i heq; simp at heq; exact absurd heq.1 hne
        · simp only [hpp, bind, Option.bind, skipComma]
          cases f with
          | zero => simp at hf
          | succ f' => simp [parsePairs]
      | cons y r' =>
        obtain ⟨c, t, hct, hc⟩ := printPair_head x hx
          (',' :: (joinComma ((y :: r').map printPair) ++ ')' :: rest))
        have hne : c ≠ ')' := by intro hh; subst hh; simp [isWord] at hc
        have hjoin : joinComma ((x :: y :: r').map printPair) ++ ')' :: rest =
            printPair x ++ (',' :: (joinComma ((y :: r').map printPair) ++ ')' :: rest)) := by
          simp [joinComma, List.append_assoc]
        rw [hjoin]
        unfold parsePairs
        have hpp := parsePair_print x hx (',' :: (joinComma ((y :: r').map printPair) ++ ')' :: rest))
        rw [hct] at hpp ⊢
        split
        · rename_i heq; simp at heq; exact absurd heq.1 hne
        · simp only [hpp, bind, Option.bind, skipComma]
          rw [ih hr f (by simp at hf ⊢; omega)]
          rfl

theorem parseArg_print (a : SigArg) (h : SigArg.WF a) (rest : List Char) :
    parseArg (printArg a ++ rest) = some (a, rest) := by
  have h1 : printArg a ++ rest = '(' :: (joinComma (a.map printPair) ++ ')' :: rest) := by
    simp [printArg, List.append_assoc]
  rw [h1]
  unfold parseArg
  simp only
  rw [parsePairs_print a h rest _ (by
    have : a.length ≤ (joinComma (a.map printPair)).length := by
      clear h1
      induction a with
      | nil => simp
      | cons x r ih =>
        cases r with
        | nil =>
          obtain ⟨n, q⟩ := x
          have := (h (n, q) (by simp)).1
          cases n with
          | nil => exact absurd rfl this
          | cons _ _ => simp [joinComma, printPair]
        | cons y r' =>
          have ih' := ih (fun p hp => h p (by simp [hp]))
          simp only [List.map_cons, joinComma, List.length_append, List.length_cons] at ih' ⊢
          omega
    simp only [List.length_append, List.length_cons]
    omega)]
  simp [bind, Option.bind]


theorem joinComma_cons (a : List Char) (l : List (List Char)) :
    joinComma (a :: l) = a ++ l.flatMap (fun b => ',' :: b) := by
  induction l generalizing a with
  | nil => simp [joinComma]
  | cons b r ih => simp [joinComma, ih b]

theorem parseArgsMore_print (as : List SigArg) (h : ∀ a ∈ as, SigArg.WF a) (rest : List Char)
    (hrest : ∀ t, rest ≠ ',' :: t) (fuel : Nat) (hf : as.length + 1 ≤ fuel) :
    parseArgsMore fuel ((as.map printArg).flatMap (fun b => ',' :: b) ++ rest) = some (as, rest) := by
  induction as generalizing fuel with
  | nil =>
    cases fuel with
    | zero => omega
    | succ f =>
      simp only [List.map_nil, List.flatMap_nil, List.nil_append]
      unfold parseArgsMore
      split
      · exact absurd rfl (hrest _)
      · rfl
  | cons a r ih =>
    cases fuel with
    | zero => omega
    | succ f =>
      simp only [List.map_cons, List.flatMap_cons, List.cons_append, List.append_assoc]
      unfold parseArgsMore
      simp only
      rw [parseArg_print a (h a (by simp))]
      simp only [bind, Option.bind]
      rw [ih (fun b hb => h b (by simp [hb])) f (by simp at hf ⊢; omega)]
      rfl

theorem flatMap_length_ge (as : List SigArg) :
    as.length ≤ ((as.map printArg).flatMap (fun b => ',' :: b)).length := by
  induction as with
  | nil => simp
  | cons a r ih => simp only [List.map_cons, List.flatMap_cons, List.length_append, List.length_cons] at ih ⊢; omega

theorem parseArgs_print (as : List SigArg) (hne : as ≠ []) (h : ∀ a ∈ as, SigArg.WF a)
    (rest : List Char) (hrest : ∀ t, rest ≠ ',' :: t) :
    parseArgs (printArgs as ++ rest) = some (as, rest) := by
  cases as with
  | nil => exact absurd rfl hne
  | cons a r =>
    unfold parseArgs printArgs
    rw [List.map_cons, joinComma_cons, List.append_assoc, parseArg_print a (h a (by simp))]
    simp only [bind, Option.bind]
    rw [parseArgsMore_print r (fun b hb => h b (by simp [hb])) rest hrest _ (by
      have := flatMap_length_ge r
      simp only [List.length_append]; omega)]
    rfl

theorem no_space_of_word (c : Char) (h : isWord c = true) : c ≠ ' ' := by
  intro hh; subst hh; simp [isWord] at h

theorem filter_id_of_all {l : List Char} (h : ∀ c ∈ l, c ≠ ' ') : l.filter (· != ' ') = l := by
  rw [List.filter_eq_self]
  intro c hc
  simpa using h c hc

theorem printPair_nospace (p : Name × Pos) (h : Name.WF p.1) : ∀ c ∈ printPair p, c ≠ ' ' := by
  intro c hc
  simp only [printPair, List.mem_append, List.mem_singleton] at hc
  rcases hc with (hc | hc) | hc
  · exact no_space_of_word c (h.2 c hc)
  · subst hc; decide
  · obtain ⟨n, q⟩ := p
    have : ∀ c ∈ q.chars, c ≠ ' ' := by cases q <;> decide
    exact this c hc

theorem joinComma_nospace (l : List (List Char)) (h : ∀ a ∈ l, ∀ c ∈ a, c ≠ ' ') :
    ∀ c ∈ joinComma l, c ≠ ' ' := by
  cases l with
  | nil => simp [joinComma]
  | cons a r =>
    rw [joinComma_cons]
    intro c hc
    simp only [List.mem_append, List.mem_flatMap, List.mem_cons] at hc
    rcases hc with hc | ⟨b, hb, hc | hc⟩
    · exact h a (by simp) c hc
    · subst hc; decide
    · exact h b (by simp [hb]) c hc

theorem printArg_nospace (a : SigArg) (h : SigArg.WF a) : ∀ c ∈ printArg a, c ≠ ' ' := by
  intro c hc
  simp only [printArg, List.mem_append, List.mem_singleton, List.mem_cons, List.not_mem_nil, or_false] at hc
  rcases hc with (hc | hc) | hc
  · subst hc; decide
  · refine joinComma_nospace _ ?_ c hc
    intro b hb
    simp only [List.mem_map] at hb
    obtain ⟨p, hp, rfl⟩ := hb
    exact printPair_nospace p (h p hp)
  · subst hc; decide

theorem printArgs_nospace (as : List SigArg) (h : ∀ a ∈ as, SigArg.WF a) :
    ∀ c ∈ printArgs as, c ≠ ' ' := by
  refine joinComma_nospace _ ?_
  intro b hb
  simp only [List.mem_map] at hb
  obtain ⟨a, ha, rfl⟩ := hb
  exact printArg_nospace a (h a ha)


theorem parsePair_comma (t : List Char) : parsePair (',' :: t) = none := by
  simp [parsePair, parseName, List.takeWhile, isWord, bind, Option.bind]

theorem findPairs_print (a : SigArg) (h : SigArg.WF a) (fuel : Nat)
    (hf : (joinComma (a.map printPair)).length + 1 ≤ fuel) :
    findPairs fuel (joinComma (a.map printPair)) = a := by
  induction a generalizing fuel with
  | nil => cases fuel <;> simp [joinComma, findPairs]
  | cons x r ih =>
    have hx : Name.WF x.1 := h x (by simp)
    have hr : SigArg.WF r := fun p hp => h p (by simp [hp])
    cases r with
    | nil =>
      obtain ⟨c, t, hct, _⟩ := printPair_head x hx []
      simp only [List.map_cons, List.map_nil, joinComma] at hf ⊢
      have hpp := parsePair_print x hx []
      simp only [List.append_nil] at hct hpp
      cases fuel with
      | zero => omega
      | succ f =>
        unfold findPairs
        rw [hct] at hpp ⊢
        simp only [hpp]
        cases f <;> simp [findPairs]
    | cons y r' =>
      have hjoin : joinComma ((x :: y :: r').map printPair) =
          printPair x ++ (',' :: joinComma ((y :: r').map printPair)) := by
        simp [joinComma]
      rw [hjoin] at hf ⊢
      obtain ⟨c, t, hct, _⟩ := printPair_head x hx (',' :: joinComma ((y :: r').map printPair))
      have hpp := parsePair_print x hx (',' :: joinComma ((y :: r').map printPair))
      have hlen : (printPair x).length ≥ 1 := by
        obtain ⟨n, q⟩ := x
        have hne := hx.1
        cases n with
        | nil => exact absurd rfl hne
        | cons _ _ => simp [printPair]
      cases fuel with
      | zero => omega
      | succ f =>
        unfold findPairs
        rw [hct] at hpp ⊢
        simp only [hpp]
        cases f with
        | zero => simp only [List.length_append, List.length_cons] at hf; omega
        | succ f' =>
          unfold findPairs
          simp only [parsePair_comma]
          rw [ih hr f' (by simp only [List.length_append, List.length_cons] at hf; omega)]


theorem parseArgs_ne_nil (cs : List Char) (as : List SigArg) (r : List Char)
    (h : parseArgs cs = some (as, r)) : as ≠ [] := by
  unfold parseArgs at h
  cases h1 : parseArg cs with
  | none => simp [h1, bind, Option.bind] at h
  | some x =>
    obtain ⟨a, r1⟩ := x
    simp only [h1, bind, Option.bind] at h
    cases h2 : parseArgsMore (r1.length + 1) r1 with
    | none => simp [h2] at h
    | some y =>
      simp only [h2, pure, Option.some.injEq, Prod.mk.injEq] at h
      intro hnil
      rw [← h.1] at hnil
      cases hnil

end Xgcm

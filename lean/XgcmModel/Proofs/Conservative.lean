import XgcmModel.Model.Conservative
import Mathlib.Tactic.Linarith
import Mathlib.Tactic.Ring
import Mathlib.Tactic.FieldSimp
import Mathlib.Algebra.Order.Field.Basic
import Mathlib.Algebra.BigOperators.Group.List.Basic
/-
  Helper lemmas for C07 over an arbitrary linearly ordered field.
-/
namespace Xgcm

variable {K : Type} [Field K] [LinearOrder K] [IsStrictOrderedRing K]

/-- position of `t` clamped into the cell's interval -/
def clamp (lo hi t : K) : K := min hi (max lo t)

/-- non-degenerate cell: the weight of a bin is the clamped-edge difference over the cell width -/
theorem cellToBin_clamp (phi lo hi a b : K) (last : Bool) (hlh : lo < hi) (hab : a ≤ b) :
    cellToBin phi lo hi a b last = ((clamp lo hi b - clamp lo hi a) / (hi - lo)) * phi := by
  have hne : hi ≠ lo := ne_of_gt hlh
  unfold cellToBin
  by_cases hA : hi < a
  · -- the bin lies above the cell
    have e1 : clamp lo hi a = hi := by
      unfold clamp; rw [max_eq_right (by linarith), min_eq_left (by linarith)]
    have e2 : clamp lo hi b = hi := by
      unfold clamp; rw [max_eq_right (by linarith), min_eq_left (by linarith)]
    simp [hA, e1, e2]
  · by_cases hB : b < lo
    · have e1 : clamp lo hi a = lo := by
        unfold clamp; rw [max_eq_left (by linarith), min_eq_right (by linarith)]
      have e2 : clamp lo hi b = lo := by
        unfold clamp; rw [max_eq_left (by linarith), min_eq_right (by linarith)]
      simp [hB, e1, e2]
    · have hA' : a ≤ hi := not_lt.mp hA
      have hB' : lo ≤ b := not_lt.mp hB
      have e1 : clamp lo hi a = (if lo < a then a else lo) := by
        unfold clamp
        split_ifs with h
        · rw [max_eq_right (le_of_lt h), min_eq_right hA']
        · rw [max_eq_left (not_lt.mp h), min_eq_right (le_of_lt hlh)]
      have e2 : clamp lo hi b = (if b < hi then b else hi) := by
        unfold clamp
        rw [max_eq_right hB']
        split_ifs with h
        · rw [min_eq_right (le_of_lt h)]
        · rw [min_eq_left (not_lt.mp h)]
      simp only [gt_iff_lt, hA, hB, or_self, if_false, hne, e1, e2]


/-- strictly increasing bin edges -/
def Inc : List K → Prop
  | [] => True
  | [_] => True
  | a :: b :: r => a < b ∧ Inc (b :: r)

theorem Inc.tail {a : K} {l : List K} (h : Inc (a :: l)) : Inc l := by
  cases l with
  | nil => trivial
  | cons b r => exact h.2

theorem Inc.head_le_last (a : K) (l : List K) (h : Inc (a :: l)) : a ≤ (a :: l).getLastD 0 := by
  induction l generalizing a with
  | nil => simp
  | cons b r ih =>
    have := ih b h.2
    have hab := h.1
    simp only [List.getLastD_cons] at this ⊢
    exact le_trans (le_of_lt hab) (by simpa using this)

/-- a non-degenerate cell distributes `phi` over the bins in proportion to the overlaps:
    the row sums to the clamped span of the bins over the cell width -/
theorem cellRow_sum (phi lo hi : K) (hlh : lo < hi) (edges : List K) (hinc : Inc edges)
    (hlen : 2 ≤ edges.length) :
    (cellRow phi (some (lo, hi)) edges).sum =
      ((clamp lo hi (edges.getLastD 0) - clamp lo hi (edges.headD 0)) / (hi - lo)) * phi := by
  induction edges with
  | nil => simp at hlen
  | cons a rest ih =>
    cases rest with
    | nil => simp at hlen
    | cons b r =>
      cases r with
      | nil =>
        simp only [cellRow, List.sum_cons, List.sum_nil, add_zero, List.getLastD_cons, List.headD_cons]
        rw [cellToBin_clamp phi lo hi a b _ hlh (le_of_lt hinc.1)]
        simp
      | cons c r' =>
        have ih' := ih hinc.2 (by simp)
        simp only [cellRow, List.sum_cons] at ih' ⊢
        rw [cellToBin_clamp phi lo hi a b _ hlh (le_of_lt hinc.1)]
        simp only [List.getLastD_cons, List.headD_cons] at ih' ⊢
        rw [ih']
        field_simp
        ring

/-- a degenerate cell (a point `t`) goes into exactly one bin when `t` lies within the bins -/
theorem cellRow_point_sum (phi t : K) (edges : List K) (hinc : Inc edges) (hlen : 2 ≤ edges.length) :
    (cellRow phi (some (t, t)) edges).sum =
      if edges.headD 0 ≤ t ∧ t ≤ edges.getLastD 0 then phi else 0 := by
  induction edges with
  | nil => simp at hlen
  | cons a rest ih =>
    cases rest with
    | nil => simp at hlen
    | cons b r =>
      cases r with
      | nil =>
        simp only [cellRow, cellToBin, List.sum_cons, List.sum_nil, add_zero, List.getLastD_cons,
          List.headD_cons, List.isEmpty_nil, gt_iff_lt, if_true, or_true]
        by_cases h1 : t < a
        · simp [h1, not_le.mpr h1]
        · by_cases h2 : b < t
          · simp [h2, not_le.mpr h2]
          · simp [h1, h2, not_lt.mp h1, not_lt.mp h2]
      | cons c r' =>
        have ih' := ih hinc.2 (by simp)
        have hab := hinc.1
        have hbz : b ≤ (b :: c :: r').getLastD 0 := Inc.head_le_last b (c :: r') hinc.2
        simp only [cellRow, List.sum_cons] at ih' ⊢
        simp only [List.getLastD_cons, List.headD_cons] at ih' hbz ⊢
        rw [ih']
        simp only [cellToBin, gt_iff_lt, List.isEmpty_cons, Bool.false_eq_true, or_false, if_true]
        by_cases h1 : t < a
        · have : ¬ (b ≤ t) := by intro hh; linarith
          simp [h1, not_le.mpr h1, this]
        · by_cases h2 : b < t
          · simp [h2, h1, not_lt.mp h1, le_of_lt h2]
          · by_cases h3 : t < b
            · have : ¬ (b ≤ t) := not_le.mpr h3
              have hz : t ≤ r'.getLastD c := le_trans (le_of_lt h3) hbz
              simp only [h1, h2, h3, this, not_lt.mp h1, hz, or_self, if_false, if_true, false_and,
                and_self, add_zero]
            · have hbt : b = t := le_antisymm (not_lt.mp h3) (not_lt.mp h2)
              subst hbt
              simp only [h1, not_lt.mp h1, hbz, lt_irrefl, or_self, if_false, if_true, le_refl,
                and_self, zero_add]


theorem cellRow_length (phi : K) (iv : Option (K × K)) (edges : List K) :
    (cellRow phi iv edges).length = edges.length - 1 := by
  induction edges with
  | nil => rfl
  | cons a rest ih =>
    cases rest with
    | nil => rfl
    | cons b r => simp only [cellRow, List.length_cons] at ih ⊢; omega

theorem addRows_sum (a b : List K) (h : a.length = b.length) :
    (addRows a b).sum = a.sum + b.sum := by
  induction a generalizing b with
  | nil => cases b <;> simp_all [addRows]
  | cons x xs ih =>
    cases b with
    | nil => simp at h
    | cons y ys =>
      simp only [addRows, List.zipWith_cons_cons, List.sum_cons]
      have := ih ys (by simpa using h)
      simp only [addRows] at this
      rw [this]; ring

theorem addRows_length (a b : List K) (h : a.length = b.length) : (addRows a b).length = a.length := by
  simp [addRows, h]

/-- the kernel's output sums to the sum of the rows of all cells -/
theorem fold_rows_sum (cells : List (K × Option K × Option K)) (edges : List K) (acc : List K)
    (hacc : acc.length = edges.length - 1) :
    ((cells.foldl (fun acc c => addRows acc (cellRow c.1 (cellInterval c.2.1 c.2.2) edges)) acc).sum =
      acc.sum + (cells.map (fun c => (cellRow c.1 (cellInterval c.2.1 c.2.2) edges).sum)).sum) ∧
    (cells.foldl (fun acc c => addRows acc (cellRow c.1 (cellInterval c.2.1 c.2.2) edges)) acc).length =
      edges.length - 1 := by
  induction cells generalizing acc with
  | nil => simp [hacc]
  | cons c cs ih =>
    have hl : acc.length = (cellRow c.1 (cellInterval c.2.1 c.2.2) edges).length := by
      rw [cellRow_length, hacc]
    have := ih (addRows acc (cellRow c.1 (cellInterval c.2.1 c.2.2) edges))
      (by rw [addRows_length _ _ hl, hacc])
    simp only [List.foldl_cons, List.map_cons, List.sum_cons]
    rw [this.1, addRows_sum _ _ hl]
    exact ⟨by ring, this.2⟩

/-- a finite cell whose two bounds lie within the bins passes all of `phi` on -/
theorem finite_cell_row_sum (phi a b : K) (edges : List K) (hinc : Inc edges) (hlen : 2 ≤ edges.length)
    (ha : edges.headD 0 ≤ a ∧ a ≤ edges.getLastD 0) (hb : edges.headD 0 ≤ b ∧ b ≤ edges.getLastD 0) :
    (cellRow phi (cellInterval (some a) (some b)) edges).sum = phi := by
  unfold cellInterval
  simp only
  -- lo = min, hi = max
  have key : ∀ lo hi : K, lo ≤ hi → edges.headD 0 ≤ lo → hi ≤ edges.getLastD 0 →
      (cellRow phi (some (lo, hi)) edges).sum = phi := by
    intro lo hi hle h0 h1
    rcases lt_or_eq_of_le hle with hlt | heq
    · rw [cellRow_sum phi lo hi hlt edges hinc hlen]
      have e1 : clamp lo hi (edges.getLastD 0) = hi := by
        unfold clamp; rw [max_eq_right (le_trans hle h1), min_eq_left h1]
      have e2 : clamp lo hi (edges.headD 0) = lo := by
        unfold clamp; rw [max_eq_left h0, min_eq_right hle]
      rw [e1, e2]
      have : hi - lo ≠ 0 := ne_of_gt (sub_pos.mpr hlt)
      field_simp
    · subst heq
      rw [cellRow_point_sum phi lo edges hinc hlen, if_pos ⟨h0, h1⟩]
  split_ifs with hlt
  · exact key a b (le_of_lt hlt) ha.1 hb.2
  · exact key b a (not_lt.mp hlt) hb.1 ha.2

/-- a cell without any bound contributes nothing -/
theorem cellRow_none_sum (phi : K) (edges : List K) : (cellRow phi none edges).sum = 0 := by
  induction edges with
  | nil => simp [cellRow]
  | cons a rest ih =>
    cases rest with
    | nil => simp [cellRow]
    | cons b r =>
      simp only [cellRow, List.sum_cons] at ih ⊢
      rw [ih]; simp

/-- a cell with one bound missing is the point cell at the other bound, and passes all of `phi` on
    when that bound lies within the bins -/
theorem half_cell_row_sum (phi t : K) (o1 o2 : Option K) (ho : (o1 = some t ∧ o2 = none) ∨ (o1 = none ∧ o2 = some t))
    (edges : List K) (hinc : Inc edges) (hlen : 2 ≤ edges.length)
    (ht : edges.headD 0 ≤ t ∧ t ≤ edges.getLastD 0) :
    (cellRow phi (cellInterval o1 o2) edges).sum = phi := by
  rcases ho with ⟨h1, h2⟩ | ⟨h1, h2⟩ <;> subst h1 <;> subst h2 <;>
    simp only [cellInterval] <;> rw [cellRow_point_sum phi t edges hinc hlen, if_pos ht]

end Xgcm

import XgcmModel.Proofs.Stencil
import XgcmModel.Model.Cumsum
import XgcmModel.Spec.C09
/-
  Helper lemmas for C09.
-/
set_option linter.unusedSimpArgs false
namespace Xgcm

variable {α : Type}

/-- sum, in order, of the first `m` values -/
def pre (o : Ops α) (xs : List α) (m : Nat) : α := (xs.take m).foldl o.add o.zero

theorem runningSum_length (o : Ops α) (acc : α) (l : List α) :
    (runningSum o acc l).length = l.length := by
  induction l generalizing acc with
  | nil => rfl
  | cons x r ih => simp [runningSum, ih]

theorem runningSum_getElem_acc (o : Ops α) (acc : α) (l : List α) (j : Nat)
    (h : j < (runningSum o acc l).length) :
    (runningSum o acc l)[j] = (l.take (j + 1)).foldl o.add acc := by
  induction l generalizing acc j with
  | nil => simp [runningSum] at h
  | cons x r ih =>
    cases j with
    | zero => simp [runningSum]
    | succ j =>
      simp only [runningSum, List.getElem_cons_succ]
      rw [ih]
      simp

theorem runningSum_getElem (o : Ops α) (xs : List α) (j : Nat)
    (h : j < (runningSum o o.zero xs).length) :
    (runningSum o o.zero xs)[j] = pre o xs (j + 1) :=
  runningSum_getElem_acc o o.zero xs j h

theorem filter_lt_range (n m : Nat) :
    (List.range n).filter (fun i => decide (i < m)) = List.range (min n m) := by
  induction n with
  | zero => simp
  | succ n ih =>
    rw [List.range_succ, List.filter_append, ih]
    by_cases h : n < m
    · have : min (n + 1) m = min n m + 1 := by omega
      simp [h, this, List.range_succ]
      omega
    · have : min (n + 1) m = min n m := by omega
      simp [h, this]

theorem foldl_range_getD (o : Ops α) (xs : List α) (m : Nat) (hm : m ≤ xs.length) (z : α) :
    (List.range m).foldl (fun acc i => o.add acc (xs.getD i o.zero)) z = (xs.take m).foldl o.add z := by
  induction m with
  | zero => simp
  | succ m ih =>
    rw [List.range_succ, List.foldl_append, ih (by omega)]
    have hlt : m < xs.length := by omega
    have ht : xs.take (m + 1) = xs.take m ++ [xs[m]] := by
      rw [List.take_add_one, List.getElem?_eq_getElem hlt]; rfl
    rw [ht, List.foldl_append]
    simp [List.getElem?_eq_getElem hlt]
where
  getD_eq_getElem'' (l : List α) (j : Nat) (d : α) (h : j < l.length) : l.getD j d = l[j] := by
    simp [List.getD_eq_getElem?_getD, h]

/-- how many inputs lie before target `k`, per shift -/
def cnt (f t : Pos) (k : Nat) : Nat :=
  match f, t with
  | .center, .right => k + 1
  | .left, .center => k + 1
  | .center, .inner => k + 1
  | .outer, .center => k + 1
  | _, _ => k

theorem before_eq (f t : Pos) (hv : validShift f t = true) (nIn k : Nat) :
    before f t nIn k = List.range (min nIn (cnt f t k)) := by
  unfold before
  rw [← filter_lt_range]
  apply List.filter_congr
  intro i _
  cases f <;> cases t <;> simp [validShift] at hv <;> simp only [coord2, cnt] <;>
    apply decide_eq_decide.mpr <;> omega

theorem specSumBefore_eq (o : Ops α) (f t : Pos) (hv : validShift f t = true) (xs : List α) (k : Nat) :
    specSumBefore o f t xs k = pre o xs (min xs.length (cnt f t k)) := by
  unfold specSumBefore pre
  rw [before_eq f t hv, foldl_range_getD o xs _ (by omega)]

theorem before_isEmpty (f t : Pos) (hv : validShift f t = true) (nIn k : Nat) :
    (before f t nIn k).isEmpty = decide (min nIn (cnt f t k) = 0) := by
  rw [before_eq f t hv]
  cases h : min nIn (cnt f t k) <;> simp [List.range_succ]

end Xgcm

namespace Xgcm
variable {α : Type}

/-- the (trim, lo, hi) each shift needs, derived from `cnt`:
    a leading pad cell iff no input precedes the first target; the last running
    value is dropped iff the target line is shorter than `lead + inputs` -/
def cumsumEntrySpec (f t : Pos) : Bool × Nat × Nat :=
  match f, t with
  | .center, .right => (false, 0, 0)
  | .left, .center => (false, 0, 0)
  | .center, .left => (true, 1, 0)
  | .right, .center => (true, 1, 0)
  | .center, .inner => (true, 0, 0)
  | .outer, .center => (true, 0, 0)
  | .center, .outer => (false, 1, 0)
  | .inner, .center => (false, 1, 0)
  | _, _ => (false, 0, 0)

theorem ext_neg_one (r : Rule) (fill : α) (l : List α) (hl : 1 ≤ l.length) :
    ext r fill l (-1) =
      match r with
      | .fill => fill
      | .extend => l[0]
      | .periodic => l[l.length - 1] := by
  cases r
  · simp only [ext]
    have : ((-1 : Int) % (l.length : Int)).toNat = l.length - 1 := by
      have h1 : (-1 : Int) % (l.length : Int) = (l.length : Int) - 1 := by
        rw [Int.emod_def]
        have : (-1 : Int) / (l.length : Int) = -1 := by
          apply Int.ediv_eq_neg_one_of_neg_of_le <;> omega
        rw [this]; omega
      rw [h1]; omega
    rw [this, getD_eq_getElem' _ _ _ (by omega)]
  · simp [ext]
  · simp only [ext]
    simp [List.getElem?_eq_getElem (show 0 < l.length by omega)]

theorem dropLast_getElem' (l : List α) (j : Nat) (h : j < l.dropLast.length) :
    l.dropLast[j] = l[j]'(by simp at h; omega) := by
  simp [List.getElem_dropLast]

end Xgcm

namespace Xgcm
variable {α : Type}

theorem pre_eq_of_ge (o : Ops α) (xs : List α) (m : Nat) (h : xs.length ≤ m) :
    pre o xs m = pre o xs xs.length := by
  unfold pre
  rw [List.take_of_length_le h, List.take_of_length_le (Nat.le_refl _)]

/-- the line theorem behind C09, for an arbitrary table entry that equals the
    coordinate-derived one -/
theorem cumsum_core (o : Ops α) (f t : Pos) (hv : validShift f t = true) (n : Nat) (hn : 2 ≤ n)
    (r : Rule) (fill : α) (xs : List α) (hx : xs.length = f.len n) :
    let e := cumsumEntrySpec f t
    pad1d r fill e.2.1 e.2.2
        (if e.1 then (runningSum o o.zero xs).dropLast else runningSum o o.zero xs) =
      specCumsumLine o r fill f t n xs := by
  intro e
  have hrl := runningSum_length o o.zero xs
  apply List.ext_getElem
  · cases f <;> cases t <;> simp [validShift] at hv <;>
      simp [e, cumsumEntrySpec, specCumsumLine, Pos.len, hrl] at * <;> omega
  · intro k h1 h2
    rw [pad1d_getElem]
    simp only [specCumsumLine, List.getElem_map, List.getElem_range, specCumsumAt,
      before_isEmpty f t hv, specSumBefore_eq o f t hv]
    simp only [specCumsumLine, List.length_map, List.length_range] at h2
    cases f <;> cases t <;> simp [validShift] at hv <;>
      simp only [e, cumsumEntrySpec, cnt, Pos.len] at * <;>
      first
      | -- no leading cell: out[k] = rs'[k]
        (have hk : (k : Int) - ((0 : Nat) : Int) = (k : Int) := by omega
         rw [hk, ext_inrange _ _ _ k (by simp [hrl]; omega)]
         have hne : ¬ (min xs.length (k + 1) = 0) := by omega
         simp only [hne, decide_false, Bool.false_eq_true, if_false]
         have hm : min xs.length (k + 1) = k + 1 := by omega
         rw [hm]
         first
         | exact runningSum_getElem o xs k (by omega)
         | (simp only [if_true]
            rw [dropLast_getElem' _ _ (by simp [hrl]; omega)]
            exact runningSum_getElem o xs k (by omega)))
      | -- a leading cell
        (cases k with
         | zero =>
           have h0 : ((0 : Nat) : Int) - ((1 : Nat) : Int) = -1 := by omega
           rw [h0, ext_neg_one _ _ _ (by simp [hrl]; omega)]
           simp only [Nat.min_zero, decide_true, if_true]
           cases r
           · -- periodic: wrap = last value
             first
             | (simp only [Bool.false_eq_true, if_false]
                rw [runningSum_getElem o xs _ (by omega)]
                congr 1; omega)
             | (simp only [if_true]
                rw [dropLast_getElem' _ _ (by simp [hrl]; omega),
                    runningSum_getElem o xs _ (by simp [hrl]; omega)]
                congr 1; simp [hrl]; omega)
           · rfl
           · -- extend: nearest value
             first
             | (simp only [Bool.false_eq_true, if_false]
                rw [runningSum_getElem o xs _ (by omega)]
                congr 1; omega)
             | (simp only [if_true]
                rw [dropLast_getElem' _ _ (by simp [hrl]; omega),
                    runningSum_getElem o xs _ (by omega)]
                congr 1; omega)
         | succ k =>
           have hk : ((k + 1 : Nat) : Int) - ((1 : Nat) : Int) = (k : Int) := by omega
           rw [hk]
           have hne : ¬ (min xs.length (k + 1) = 0) := by omega
           simp only [hne, decide_false, Bool.false_eq_true, if_false]
           have hm : min xs.length (k + 1) = k + 1 := by omega
           rw [hm]
           first
           | (rw [ext_inrange _ _ _ k (by simp [hrl]; omega)]
              exact runningSum_getElem o xs k (by omega))
           | (simp only [if_true]
              rw [ext_inrange _ _ _ k (by simp [hrl]; omega),
                  dropLast_getElem' _ _ (by simp [hrl]; omega)]
              exact runningSum_getElem o xs k (by omega)))

end Xgcm

import XgcmModel.Proofs.Cumsum
import Mathlib.Algebra.BigOperators.Group.Finset.Sigma
import Mathlib.Algebra.BigOperators.Group.Finset.Basic
/-
  C09: cumsum along two different axes commutes (no non-zero fill value).
  Every output of the 1-D cumsum is a prefix sum whose LENGTH does not depend on
  the data; two data-independent prefix sums along different axes commute by
  `Finset.sum_comm`.
-/
namespace Xgcm

open Finset

variable {α : Type} [AddCommMonoid α]

/-- length of the prefix summed at target `k` (data-independent) -/
def prefixLen (r : Rule) (f t : Pos) (n : Nat) (k : Nat) : Nat :=
  if cnt f t k = 0 then
    match r with
    | .fill => 0
    | .extend => cnt f t (k + 1)
    | .periodic => cnt f t (t.len n - 1)
  else cnt f t k

theorem pre_eq_sum (o : Ops α) (hadd : ∀ a b, o.add a b = a + b) (hzero : o.zero = 0)
    (h : Nat → α) (a m : Nat) :
    pre o ((List.range a).map h) m = ∑ i ∈ range (min a m), h i := by
  unfold pre
  have hfun : o.add = (· + ·) := by funext x y; exact hadd x y
  rw [hfun, hzero]
  have ht : ((List.range a).map h).take m = (List.range (min a m)).map h := by
    rw [← List.map_take, List.take_range, Nat.min_comm]
  rw [ht]
  generalize min a m = q
  induction q with
  | zero => simp
  | succ q ih =>
    rw [List.range_succ, List.map_append, List.foldl_append, ih, Finset.sum_range_succ]
    simp

/-- with no non-zero fill value, every output of the 1-D cumsum is the prefix
    sum of data-independent length `prefixLen` -/
theorem specCumsumAt_eq_prefix (o : Ops α) (r : Rule) (fill : α) (hfill : r = .fill → fill = o.zero)
    (f t : Pos) (hv : validShift f t = true) (n : Nat) (xs : List α) (k : Nat) :
    specCumsumAt o r fill f t n xs k = pre o xs (min xs.length (prefixLen r f t n k)) := by
  simp only [specCumsumAt, before_isEmpty f t hv, specSumBefore_eq o f t hv, prefixLen]
  by_cases h0 : cnt f t k = 0
  · have hmin : min xs.length (cnt f t k) = 0 := by omega
    simp only [hmin, h0, decide_true, if_true]
    cases r <;> simp [pre, hfill]
  · by_cases hx : xs.length = 0
    · have hnil : xs = [] := List.eq_nil_of_length_eq_zero hx
      subst hnil
      simp only [List.length_nil, Nat.zero_min, decide_true, if_true, h0, if_false]
      cases r <;> simp [pre, hfill]
    · have hmin : ¬ (min xs.length (cnt f t k) = 0) := by omega
      simp only [hmin, h0, decide_false, Bool.false_eq_true, if_false]

/-- **two axes commute.**  `g i j` is a 2-D slice (sizes a × b) through the array;
    cumsum along the first axis then the second equals the other order, for
    every pair of shifts and rules, provided no non-zero fill value is in force. -/
theorem cumsum_two_axes_commute (o : Ops α) (hadd : ∀ x y, o.add x y = x + y) (hzero : o.zero = 0)
    (g : Nat → Nat → α) (a b : Nat)
    (r1 r2 : Rule) (fill1 fill2 : α) (h1 : r1 = .fill → fill1 = o.zero) (h2 : r2 = .fill → fill2 = o.zero)
    (f1 t1 f2 t2 : Pos) (hv1 : validShift f1 t1 = true) (hv2 : validShift f2 t2 = true)
    (n1 n2 : Nat) (k l : Nat) :
    -- first axis 1 (index i, target k) for every j, then axis 2 (target l)
    specCumsumAt o r2 fill2 f2 t2 n2
        ((List.range b).map (fun j =>
          specCumsumAt o r1 fill1 f1 t1 n1 ((List.range a).map (fun i => g i j)) k)) l
    =
    -- first axis 2 for every i, then axis 1
    specCumsumAt o r1 fill1 f1 t1 n1
        ((List.range a).map (fun i =>
          specCumsumAt o r2 fill2 f2 t2 n2 ((List.range b).map (fun j => g i j)) l)) k := by
  rw [specCumsumAt_eq_prefix o r2 fill2 h2 f2 t2 hv2, specCumsumAt_eq_prefix o r1 fill1 h1 f1 t1 hv1]
  rw [pre_eq_sum o hadd hzero, pre_eq_sum o hadd hzero]
  simp only [specCumsumAt_eq_prefix o r1 fill1 h1 f1 t1 hv1, specCumsumAt_eq_prefix o r2 fill2 h2 f2 t2 hv2,
    pre_eq_sum o hadd hzero, List.length_map, List.length_range]
  rw [Finset.sum_comm]

end Xgcm

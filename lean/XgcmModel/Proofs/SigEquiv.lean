import XgcmModel.Model.Signature
/-
  C15: "same pattern of first appearances"  ↔  "a consistent (injective) renaming".
-/
namespace Xgcm

variable {κ : Type} [DecidableEq κ]

theorem idxOf_lt_of_mem (x : κ) (l : List κ) (h : x ∈ l) : l.idxOf x < l.length :=
  List.idxOf_lt_length_of_mem h

theorem getElem_idxOf' (x : κ) (l : List κ) (h : l.idxOf x < l.length) : l[l.idxOf x] = x := by
  induction l with
  | nil => simp at h
  | cons a r ih =>
    by_cases hax : a = x
    · subst hax; simp
    · have hb : (a == x) = false := by simpa using hax
      simp only [List.idxOf_cons, hb, cond_false] at h ⊢
      simp only [List.getElem_cons_succ]
      exact ih (by simpa using h)

theorem idxOf_le_of_getElem (l : List κ) (m : Nat) (hm : m < l.length) (x : κ) (h : l[m] = x) :
    l.idxOf x ≤ m := by
  induction l generalizing m with
  | nil => simp at hm
  | cons a r ih =>
    by_cases hax : a = x
    · subst hax; simp
    · have hb : (a == x) = false := by simpa using hax
      simp only [List.idxOf_cons, hb, cond_false]
      cases m with
      | zero => simp at h; exact absurd h hax
      | succ m =>
        simp only [List.getElem_cons_succ] at h
        have := ih m (by simpa using hm) h
        omega

/-- equality pattern of a list -/
def EqPat (l1 l2 : List κ) : Prop :=
  ∀ i j (hi1 : i < l1.length) (hj1 : j < l1.length) (hi2 : i < l2.length) (hj2 : j < l2.length),
    (l1[i] = l1[j] ↔ l2[i] = l2[j])

def pat (l : List κ) : List Nat := firstIdx l

theorem pat_getElem (l : List κ) (i : Nat) (h : i < l.length) :
    (pat l)[i]'(by simpa [pat, firstIdx] using h) = l.idxOf l[i] := by
  simp [pat, firstIdx]

theorem pat_eq_iff_eqPat (l1 l2 : List κ) (hlen : l1.length = l2.length) :
    pat l1 = pat l2 ↔ EqPat l1 l2 := by
  constructor
  · intro hp i j hi1 hj1 hi2 hj2
    have hpi : l1.idxOf l1[i] = l2.idxOf l2[i] := by
      rw [← pat_getElem l1 i hi1, ← pat_getElem l2 i hi2]; simp [hp]
    have hpj : l1.idxOf l1[j] = l2.idxOf l2[j] := by
      rw [← pat_getElem l1 j hj1, ← pat_getElem l2 j hj2]; simp [hp]
    constructor
    · intro h
      have h2 : l2.idxOf l2[i] = l2.idxOf l2[j] := by rw [← hpi, ← hpj, h]
      have a1 := getElem_idxOf' l2[i] l2 (idxOf_lt_of_mem _ _ (List.getElem_mem hi2))
      have a2 := getElem_idxOf' l2[j] l2 (idxOf_lt_of_mem _ _ (List.getElem_mem hj2))
      rw [← a1, ← a2]; simp [h2]
    · intro h
      have h1 : l1.idxOf l1[i] = l1.idxOf l1[j] := by rw [hpi, hpj, h]
      have a1 := getElem_idxOf' l1[i] l1 (idxOf_lt_of_mem _ _ (List.getElem_mem hi1))
      have a2 := getElem_idxOf' l1[j] l1 (idxOf_lt_of_mem _ _ (List.getElem_mem hj1))
      rw [← a1, ← a2]; simp [h1]
  · intro he
    apply List.ext_getElem
    · simp [pat, firstIdx, hlen]
    · intro i h1 h2
      have hi1 : i < l1.length := by simpa [pat, firstIdx] using h1
      have hi2 : i < l2.length := by simpa [pat, firstIdx] using h2
      rw [pat_getElem l1 i hi1, pat_getElem l2 i hi2]
      -- m1 = first index of l1[i] in l1
      have hm1 := idxOf_lt_of_mem _ _ (List.getElem_mem hi1)
      have hm2 := idxOf_lt_of_mem _ _ (List.getElem_mem hi2)
      have g1 := getElem_idxOf' l1[i] l1 hm1
      have g2 := getElem_idxOf' l2[i] l2 hm2
      have le1 : l2.idxOf l2[i] ≤ l1.idxOf l1[i] := by
        apply idxOf_le_of_getElem l2 _ (by omega)
        exact (he _ _ hm1 hi1 (by omega) hi2).mp g1
      have le2 : l1.idxOf l1[i] ≤ l2.idxOf l2[i] := by
        apply idxOf_le_of_getElem l1 _ (by omega)
        exact (he _ _ (by omega) hi1 hm2 hi2).mpr g2
      omega

theorem eqPat_iff_renaming (l1 l2 : List κ) (hlen : l1.length = l2.length) :
    EqPat l1 l2 ↔
      ∃ ρ : κ → κ, (∀ x ∈ l1, ∀ y ∈ l1, ρ x = ρ y → x = y) ∧ l1.map ρ = l2 := by
  constructor
  · intro he
    refine ⟨fun x => l2.getD (l1.idxOf x) x, ?_, ?_⟩
    · intro x hx y hy hxy
      have mx := idxOf_lt_of_mem _ _ hx
      have my := idxOf_lt_of_mem _ _ hy
      simp only [List.getD_eq_getElem?_getD, List.getElem?_eq_getElem (show l1.idxOf x < l2.length by omega),
        List.getElem?_eq_getElem (show l1.idxOf y < l2.length by omega), Option.getD_some] at hxy
      have := (he _ _ mx my (by omega) (by omega)).mpr hxy
      rw [getElem_idxOf' x l1 mx, getElem_idxOf' y l1 my] at this
      exact this
    · apply List.ext_getElem
      · simp [hlen]
      · intro i h1 h2
        have hi1 : i < l1.length := by simpa using h1
        simp only [List.getElem_map]
        have mx := idxOf_lt_of_mem _ _ (List.getElem_mem hi1)
        simp only [List.getD_eq_getElem?_getD,
          List.getElem?_eq_getElem (show l1.idxOf l1[i] < l2.length by omega), Option.getD_some]
        exact (he _ _ mx hi1 (by omega) h2).mp (getElem_idxOf' l1[i] l1 mx)
  · rintro ⟨ρ, hinj, hmap⟩ i j hi1 hj1 hi2 hj2
    subst hmap
    simp only [List.getElem_map]
    constructor
    · intro h; rw [h]
    · intro h
      exact hinj _ (List.getElem_mem hi1) _ (List.getElem_mem hj1) h

/-- first-appearance pattern equal  ↔  an injective renaming maps one list to the other -/
theorem pat_eq_iff_renaming (l1 l2 : List κ) (hlen : l1.length = l2.length) :
    pat l1 = pat l2 ↔
      ∃ ρ : κ → κ, (∀ x ∈ l1, ∀ y ∈ l1, ρ x = ρ y → x = y) ∧ l1.map ρ = l2 := by
  rw [pat_eq_iff_eqPat l1 l2 hlen, eqPat_iff_renaming l1 l2 hlen]

end Xgcm

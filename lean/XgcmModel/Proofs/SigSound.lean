import XgcmModel.Proofs.Signature
/-
  Soundness of the signature parser: everything it accepts is, spaces aside, EXACTLY the rendering
  of a concrete syntax tree (arguments of name:position pairs, each pair optionally followed by one
  comma) — nothing else gets through.  From the rendering, a character-class automaton bounds the
  shape of accepted texts; every listed rejection class is a dead transition of that automaton.
-/
set_option linter.unusedSimpArgs false
namespace Xgcm

structure CPair where
  name : Name
  pos : Pos
  comma : Bool

def CPair.render (p : CPair) : List Char :=
  p.name ++ ':' :: (p.pos.chars ++ (if p.comma then [','] else []))

def renderPairs : List CPair → List Char
  | [] => []
  | p :: r => p.render ++ renderPairs r

def eraseP (ps : List CPair) : SigArg := ps.map (fun p => (p.name, p.pos))

def renderArgC (a : List CPair) : List Char := '(' :: (renderPairs a ++ [')'])

def renderMore : List (List CPair) → List Char
  | [] => []
  | a :: r => ',' :: (renderArgC a ++ renderMore r)

def renderArgsC : List (List CPair) → List Char
  | [] => []
  | a :: r => renderArgC a ++ renderMore r

def CArgWF (a : List CPair) : Prop := ∀ p ∈ a, Name.WF p.name

theorem parseName_sound (cs : List Char) (n : Name) (r : List Char) (h : parseName cs = some (n, r)) :
    cs = n ++ r ∧ Name.WF n := by
  unfold parseName at h
  simp only [] at h
  split at h
  · cases h
  · rename_i hne
    simp only [Option.some.injEq, Prod.mk.injEq] at h
    obtain ⟨h1, h2⟩ := h
    subst h1; subst h2
    refine ⟨(List.takeWhile_append_dropWhile).symm, ?_, ?_⟩
    · intro he; rw [he] at hne; exact hne rfl
    · intro c hc
      have := List.all_takeWhile (l := cs) (p := isWord)
      exact (List.all_eq_true.mp this) c hc

theorem stripPrefix_sound (p cs r : List Char) (h : stripPrefix p cs = some r) : cs = p ++ r := by
  unfold stripPrefix at h
  split at h
  · rename_i hp
    simp only [Option.some.injEq] at h
    subst h
    have := List.isPrefixOf_iff_prefix.mp hp
    obtain ⟨t, ht⟩ := this
    subst ht
    simp
  · cases h

theorem parsePos_sound (cs : List Char) (p : Pos) (r : List Char) (h : parsePos cs = some (p, r)) :
    cs = p.chars ++ r := by
  unfold parsePos at h
  obtain ⟨a, _, ha⟩ := List.exists_of_findSome?_eq_some h
  cases hs : stripPrefix a.chars cs with
  | none => rw [hs] at ha; cases ha
  | some r' =>
    rw [hs] at ha
    simp only [Option.map_some, Option.some.injEq, Prod.mk.injEq] at ha
    obtain ⟨h1, h2⟩ := ha
    subst h1; subst h2
    exact stripPrefix_sound _ _ _ hs

theorem parsePair_sound (cs : List Char) (n : Name) (p : Pos) (r : List Char)
    (h : parsePair cs = some ((n, p), r)) : cs = n ++ ':' :: (p.chars ++ r) ∧ Name.WF n := by
  unfold parsePair at h
  cases hn : parseName cs with
  | none => simp [hn, bind, Option.bind] at h
  | some x =>
    obtain ⟨n', r1⟩ := x
    simp only [hn, bind, Option.bind] at h
    obtain ⟨hcs, hwf⟩ := parseName_sound cs n' r1 hn
    split at h
    · rename_i r2
      cases hp : parsePos r2 with
      | none => simp [hp] at h
      | some y =>
        obtain ⟨p', r3⟩ := y
        simp only [hp, pure, Option.some.injEq, Prod.mk.injEq] at h
        obtain ⟨⟨h1, h2⟩, h3⟩ := h
        subst h1; subst h2; subst h3
        have := parsePos_sound r2 p' r3 hp
        subst this
        exact ⟨hcs, hwf⟩
    · cases h

theorem parsePairs_sound (fuel : Nat) (cs : List Char) (ps : SigArg) (r : List Char)
    (h : parsePairs fuel cs = some (ps, r)) :
    ∃ cps : List CPair, eraseP cps = ps ∧ cs = renderPairs cps ++ r ∧ (∃ t, r = ')' :: t) ∧ CArgWF cps := by
  induction fuel generalizing cs ps r with
  | zero => simp [parsePairs] at h
  | succ fuel ih =>
    unfold parsePairs at h
    split at h
    · rename_i t
      simp only [Option.some.injEq, Prod.mk.injEq] at h
      obtain ⟨h1, h2⟩ := h
      subst h1; subst h2
      exact ⟨[], rfl, rfl, ⟨t, rfl⟩, by intro p hp; cases hp⟩
    · cases hp : parsePair cs with
      | none => simp [hp, bind, Option.bind] at h
      | some x =>
        obtain ⟨⟨n, q⟩, r1⟩ := x
        simp only [hp, bind, Option.bind] at h
        obtain ⟨hcs, hwf⟩ := parsePair_sound cs n q r1 hp
        generalize hr' : skipComma r1 = r' at h
        cases hrec : parsePairs fuel r' with
        | none => simp [hrec] at h
        | some y =>
          obtain ⟨ps', r2⟩ := y
          simp only [hrec, pure, Option.some.injEq, Prod.mk.injEq] at h
          obtain ⟨h1, h2⟩ := h
          subst h1; subst h2
          obtain ⟨cps, he, hr, ht, hw⟩ := ih _ _ _ hrec
          by_cases hc : ∃ t, r1 = ',' :: t
          · obtain ⟨t, ht'⟩ := hc
            subst ht'
            simp only [skipComma] at hr'
            subst hr'
            refine ⟨⟨n, q, true⟩ :: cps, ?_, ?_, ht, ?_⟩
            · simp [eraseP] at he ⊢; exact he
            · rw [hcs, hr]; simp [renderPairs, CPair.render]
            · intro p hp'
              simp only [List.mem_cons] at hp'
              rcases hp' with h | h
              · subst h; exact hwf
              · exact hw p h
          · have hm : skipComma r1 = r1 := by
              unfold skipComma
              split
              · rename_i t; exact absurd ⟨t, rfl⟩ hc
              · rfl
            rw [hm] at hr'
            subst hr'
            refine ⟨⟨n, q, false⟩ :: cps, ?_, ?_, ht, ?_⟩
            · simp [eraseP] at he ⊢; exact he
            · rw [hcs, hr]; simp [renderPairs, CPair.render]
            · intro p hp'
              simp only [List.mem_cons] at hp'
              rcases hp' with h | h
              · subst h; exact hwf
              · exact hw p h

theorem parseArg_sound (cs : List Char) (a : SigArg) (r : List Char) (h : parseArg cs = some (a, r)) :
    ∃ cps : List CPair, eraseP cps = a ∧ cs = renderArgC cps ++ r ∧ CArgWF cps := by
  unfold parseArg at h
  split at h
  · rename_i r0
    cases hp : parsePairs (r0.length + 1) r0 with
    | none => simp [hp, bind, Option.bind] at h
    | some x =>
      obtain ⟨ps, r1⟩ := x
      simp only [hp, bind, Option.bind] at h
      obtain ⟨cps, he, hr, _, hw⟩ := parsePairs_sound _ _ _ _ hp
      split at h
      · rename_i r2
        simp only [pure, Option.some.injEq, Prod.mk.injEq] at h
        obtain ⟨h1, h2⟩ := h
        subst h1; subst h2
        exact ⟨cps, he, by rw [hr]; simp [renderArgC], hw⟩
      · cases h
  · cases h

theorem parseArgsMore_sound (fuel : Nat) (cs : List Char) (as : List SigArg) (r : List Char)
    (h : parseArgsMore fuel cs = some (as, r)) :
    ∃ cas : List (List CPair), cas.map eraseP = as ∧ cs = renderMore cas ++ r ∧ (∀ a ∈ cas, CArgWF a) ∧
      (∀ t, r ≠ ',' :: t) := by
  induction fuel generalizing cs as r with
  | zero => simp [parseArgsMore] at h
  | succ fuel ih =>
    unfold parseArgsMore at h
    split at h
    · rename_i r0
      cases hp : parseArg r0 with
      | none => simp [hp, bind, Option.bind] at h
      | some x =>
        obtain ⟨a, r1⟩ := x
        simp only [hp, bind, Option.bind] at h
        cases hrec : parseArgsMore fuel r1 with
        | none => simp [hrec] at h
        | some y =>
          obtain ⟨as', r2⟩ := y
          simp only [hrec, pure, Option.some.injEq, Prod.mk.injEq] at h
          obtain ⟨h1, h2⟩ := h
          subst h1; subst h2
          obtain ⟨ca, hea, hra, hwa⟩ := parseArg_sound _ _ _ hp
          obtain ⟨cas, he, hr, hw, hnc⟩ := ih _ _ _ hrec
          refine ⟨ca :: cas, by simp [hea, he], ?_, ?_, hnc⟩
          · rw [hra, hr]; simp [renderMore]
          · intro a' ha'
            simp only [List.mem_cons] at ha'
            rcases ha' with h | h
            · subst h; exact hwa
            · exact hw a' h
    · rename_i hnc
      simp only [Option.some.injEq, Prod.mk.injEq] at h
      obtain ⟨h1, h2⟩ := h
      subst h1; subst h2
      refine ⟨[], rfl, rfl, ?_, ?_⟩
      · intro a ha; cases ha
      · intro t ht; exact hnc t ht

theorem parseArgs_sound (cs : List Char) (as : List SigArg) (r : List Char)
    (h : parseArgs cs = some (as, r)) :
    ∃ cas : List (List CPair), cas ≠ [] ∧ cas.map eraseP = as ∧ cs = renderArgsC cas ++ r ∧
      (∀ a ∈ cas, CArgWF a) := by
  unfold parseArgs at h
  cases hp : parseArg cs with
  | none => simp [hp, bind, Option.bind] at h
  | some x =>
    obtain ⟨a, r1⟩ := x
    simp only [hp, bind, Option.bind] at h
    cases hm : parseArgsMore (r1.length + 1) r1 with
    | none => simp [hm] at h
    | some y =>
      obtain ⟨as', r2⟩ := y
      simp only [hm, pure, Option.some.injEq, Prod.mk.injEq] at h
      obtain ⟨h1, h2⟩ := h
      subst h1; subst h2
      obtain ⟨ca, hea, hra, hwa⟩ := parseArg_sound _ _ _ hp
      obtain ⟨cas, he, hr, hw, _⟩ := parseArgsMore_sound _ _ _ _ hm
      refine ⟨ca :: cas, by simp, by simp [hea, he], ?_, ?_⟩
      · rw [hra, hr]; simp [renderArgsC]
      · intro a' ha'
        simp only [List.mem_cons] at ha'
        rcases ha' with h | h
        · subst h; exact hwa
        · exact hw a' h

/-- what the whole-signature parser accepts is exactly a rendering -/
theorem parseSig_sound (text : List Char) (s : Sig) (h : parseSig text = some s) :
    ∃ ci co : List (List CPair), ci ≠ [] ∧ co ≠ [] ∧ ci.map eraseP = s.ins ∧ co.map eraseP = s.outs ∧
      text.filter (· != ' ') = renderArgsC ci ++ '-' :: '>' :: renderArgsC co ∧
      (∀ a ∈ ci, CArgWF a) ∧ (∀ a ∈ co, CArgWF a) := by
  unfold parseSig at h
  simp only [] at h
  cases h1 : parseArgs (text.filter (· != ' ')) with
  | none => simp [h1, bind, Option.bind] at h
  | some x =>
    obtain ⟨ins, r⟩ := x
    simp only [h1, bind, Option.bind] at h
    obtain ⟨ci, hci, hei, hri, hwi⟩ := parseArgs_sound _ _ _ h1
    split at h
    · rename_i r'
      cases h2 : parseArgs r' with
      | none => simp [h2] at h
      | some y =>
        obtain ⟨outs, r''⟩ := y
        simp only [h2] at h
        obtain ⟨co, hco, heo, hro, hwo⟩ := parseArgs_sound _ _ _ h2
        split at h
        · rename_i hemp
          simp only [pure, Option.some.injEq] at h
          subst h
          have : r'' = [] := by simpa using hemp
          subst this
          refine ⟨ci, co, hci, hco, hei, heo, ?_, hwi, hwo⟩
          rw [hri, hro]; simp
        · cases h
    · cases h

end Xgcm

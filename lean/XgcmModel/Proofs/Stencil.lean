import XgcmModel.Model.Dispatch
import XgcmModel.Spec.Coords
/-
  Helper lemmas for C01 / C09: stencil over a padded line = coordinate spec.
-/
namespace Xgcm

variable {α β : Type}

/-- the widths a shift needs, derived in `specWidth_eq` from coordinates -/
def widthOf : Pos → Pos → Nat × Nat
  | .center, .left => (1, 0)
  | .left, .center => (0, 1)
  | .center, .right => (0, 1)
  | .right, .center => (1, 0)
  | .center, .outer => (1, 1)
  | .outer, .center => (0, 0)
  | .center, .inner => (0, 0)
  | .inner, .center => (1, 1)
  | _, _ => (0, 0)

/-- pad width demanded by the coordinates: a lower halo cell is needed iff the
    lower neighbour of the first target point lies before the first input
    point, an upper one iff the upper neighbour of the last target point lies
    after the last input point -/
def specWidth (f t : Pos) (n : Nat) : Nat × Nat :=
  ( if idxOf f (coord2 t 0 - 1) < 0 then 1 else 0,
    if idxOf f (coord2 t ((t.len n : Int) - 1) + 1) ≥ (f.len n : Int) then 1 else 0 )

theorem specWidth_eq (f t : Pos) (n : Nat) (hv : validShift f t = true) (hn : 2 ≤ n) :
    specWidth f t n = widthOf f t := by
  cases f <;> cases t <;> simp [validShift] at hv <;>
    simp [specWidth, widthOf, idxOf, coord2, Pos.len] <;> omega

@[simp] theorem pad1d_length (r : Rule) (fill : α) (lo hi : Nat) (xs : List α) :
    (pad1d r fill lo hi xs).length = lo + xs.length + hi := by
  simp [pad1d]

theorem pad1d_getElem (r : Rule) (fill : α) (lo hi : Nat) (xs : List α) (p : Nat)
    (h : p < (pad1d r fill lo hi xs).length) :
    (pad1d r fill lo hi xs)[p] = ext r fill xs ((p : Int) - (lo : Int)) := by
  simp [pad1d]

theorem getD_eq_getElem' (l : List α) (j : Nat) (d : α) (h : j < l.length) : l.getD j d = l[j] := by
  simp [List.getD_eq_getElem?_getD, h]

theorem ext_inrange (r : Rule) (fill : α) (xs : List α) (p : Nat) (h : p < xs.length) :
    ext r fill xs (p : Int) = xs[p] := by
  have hp : (p : Int) < xs.length := by omega
  cases r
  · simp only [ext]
    have : ((p : Int) % (xs.length : Int)) = p := Int.emod_eq_of_lt (by omega) hp
    rw [this]; simp [h]
  · simp [ext, hp, h]
  · simp only [ext]
    have h1 : ¬ ((p : Int) < 0) := by omega
    have h2 : ¬ ((p : Int) ≥ xs.length) := by omega
    simp [h1, h2, h]

/-- zero widths: padding is the identity whatever the rule -/
theorem pad1d_zero (r : Rule) (fill : α) (xs : List α) : pad1d r fill 0 0 xs = xs := by
  apply List.ext_getElem
  · simp
  · intro p h1 h2
    rw [pad1d_getElem]
    simpa using ext_inrange r fill xs p h2

@[simp] theorem fwd_length (op : α → α → β) (l : List α) : (fwd op l).length = l.length - 1 := by
  simp [fwd]

theorem fwd_getElem (op : α → α → β) (l : List α) (k : Nat) (h : k < (fwd op l).length) :
    (fwd op l)[k] = op (l[k]'(by simp at h; omega)) (l[k+1]'(by simp at h; omega)) := by
  simp [fwd, List.getElem_zipWith, List.getElem_tail]

/-- core of C01: for each of the 8 shifts, every rule, every n ≥ 2, all data -/
theorem fwd_pad_eq_spec (op : α → α → β) (r : Rule) (fill : α) (f t : Pos) (n : Nat)
    (xs : List α) (hv : validShift f t = true) (hn : 2 ≤ n) (hx : xs.length = f.len n) :
    fwd op (pad1d r fill (widthOf f t).1 (widthOf f t).2 xs) = specLine op r fill f t n xs := by
  apply List.ext_getElem
  · cases f <;> cases t <;> simp [validShift] at hv <;>
      simp [specLine, widthOf, Pos.len] at * <;> omega
  · intro k h1 h2
    rw [fwd_getElem, pad1d_getElem, pad1d_getElem]
    simp only [specLine, List.getElem_map, List.getElem_range, specOp]
    cases f <;> cases t <;> simp [validShift] at hv <;>
      simp [widthOf, idxOf, coord2] <;> congr 2 <;> omega

theorem zipWith_tail_dropLast (g : α → α → β) (l : List α) :
    List.zipWith g l.tail l.dropLast = List.zipWith (fun a b => g b a) l l.tail := by
  apply List.ext_getElem
  · simp
  · intro k h1 h2
    simp [List.getElem_zipWith, List.getElem_tail, List.getElem_dropLast]

theorem zipWith_dropLast_tail (g : α → α → β) (l : List α) :
    List.zipWith g l.dropLast l.tail = List.zipWith g l l.tail := by
  apply List.ext_getElem
  · simp
  · intro k h1 h2
    simp [List.getElem_zipWith, List.getElem_tail, List.getElem_dropLast]

/-- the normal-form body of each operator is the forward stencil of the
    documented two-point operator -/
theorem eval_canonicalBody (o : Ops α) (fn : Func) (l : List α) :
    fn.canonicalBody.eval o l = some (fwd (fn.op o) l) := by
  cases fn <;>
    simp [Func.canonicalBody, Expr.eval, zipSame, fwd, Func.op, zipWith_tail_dropLast,
      zipWith_dropLast_tail, List.map_zipWith, bind, Option.bind]

end Xgcm

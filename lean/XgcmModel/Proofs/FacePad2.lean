import XgcmModel.Proofs.FacePad
/-
  C05 helper lemmas, part 2: prepad, one axis of one face, the face loop.
-/
set_option linter.unusedSimpArgs false
namespace Xgcm

variable {α : Type}

theorem extF_inrange (r : Rule) (fill : α) (n : Nat) (g : Nat → α) (x : Nat) (h : x < n) :
    extF r fill n g (x : Int) = g x := by
  have hx : (x : Int) < n := by omega
  cases r
  · simp only [extF]
    have : ((x : Int) % (n : Int)) = x := Int.emod_eq_of_lt (by omega) hx
    rw [this]; simp
  · simp [extF, hx]
  · simp only [extF]
    have h1 : ¬ ((x : Int) < 0) := by omega
    have h2 : ¬ ((x : Int) ≥ n) := by omega
    simp [h1, h2]

/-- both horizontal axes are pad axes, in either order -/
def BothAxes (c : FPCfg α) : Prop :=
  c.xAxis ≠ c.yAxis ∧ (c.padAxes = [c.xAxis, c.yAxis] ∨ c.padAxes = [c.yAxis, c.xAxis])

theorem prepad_both (c : FPCfg α) (hb : BothAxes c) (a : Arr2 α) (n : Nat)
    (hx : a.nx = n) (hy : a.ny = n) :
    (prepad c a).nx = n + 2 * c.width ∧ (prepad c a).ny = n + 2 * c.width ∧
    (∀ x y, x < n → y < n → (prepad c a).get (c.width + x) (c.width + y) = a.get x y) ∧
    (∀ i y, y < n → (prepad c a).get i (c.width + y) =
        extF c.ruleX c.fillX n (fun x' => a.get x' y) ((i : Int) - c.width)) ∧
    (∀ x j, x < n → (prepad c a).get (c.width + x) j =
        extF c.ruleY c.fillY n (fun y' => a.get x y') ((j : Int) - c.width)) := by
  obtain ⟨hne, ho | ho⟩ := hb
  · have hne' : ¬ (c.yAxis = c.xAxis) := fun h => hne h.symm
    simp only [prepad, ho, List.foldl_cons, List.foldl_nil, if_true, hne', if_false,
      Arr2.padX, Arr2.padY, hx, hy]
    refine ⟨by omega, by omega, ?_, ?_, ?_⟩
    · intro x y hx' hy'
      have e1 : ((c.width + y : Nat) : Int) - (c.width : Int) = (y : Int) := by omega
      have e2 : ((c.width + x : Nat) : Int) - (c.width : Int) = (x : Int) := by omega
      rw [e1, extF_inrange _ _ _ _ y hy']
      simp only [e2, extF_inrange _ _ _ _ x hx']
    · intro i y hy'
      have e1 : ((c.width + y : Nat) : Int) - (c.width : Int) = (y : Int) := by omega
      rw [e1, extF_inrange _ _ _ _ y hy']
    · intro x j hx'
      have e2 : ((c.width + x : Nat) : Int) - (c.width : Int) = (x : Int) := by omega
      simp only [e2, extF_inrange _ _ _ _ x hx']
  · have hne' : ¬ (c.yAxis = c.xAxis) := fun h => hne h.symm
    simp only [prepad, ho, List.foldl_cons, List.foldl_nil, if_true, hne', if_false,
      Arr2.padX, Arr2.padY, hx, hy]
    refine ⟨by omega, by omega, ?_, ?_, ?_⟩
    · intro x y hx' hy'
      have e1 : ((c.width + y : Nat) : Int) - (c.width : Int) = (y : Int) := by omega
      have e2 : ((c.width + x : Nat) : Int) - (c.width : Int) = (x : Int) := by omega
      rw [e2, extF_inrange _ _ _ _ x hx']
      simp only [e1, extF_inrange _ _ _ _ y hy']
    · intro i y hy'
      have e1 : ((c.width + y : Nat) : Int) - (c.width : Int) = (y : Int) := by omega
      simp only [e1, extF_inrange _ _ _ _ y hy']
    · intro x j hx'
      have e2 : ((c.width + x : Nat) : Int) - (c.width : Int) = (x : Int) := by omega
      rw [e2, extF_inrange _ _ _ _ x hx']


/-- the links of face `f` on axis `ax` (absent entry = no links) -/
def linksOf (c : FPCfg α) (f : Nat) (ax : String) : Option Link × Option Link :=
  ((alookup f c.conn).bind (fun fl => alookup ax fl)).getD (none, none)

/-- the cell a link writes at strip position (i, j) when the target dimension is the
    first index (axis `ax` = X) -/
def sideStrip (c : FPCfg α) (pd pp : Nat → Arr2 α) (ax : String) (lk : Link) (isRight : Bool)
    (i j : Nat) : α :=
  let swap := ax != lk.2.1
  let isVec := c.vectorAxis.isSome
  let source := if isVec && swap then pp lk.1 else pd lk.1
  stripCell c.width isRight lk.2.2 swap (isVec && c.vectorAxis == some ax)
    (isVec && c.vectorAxis != some ax) c.neg source i j

/-- the same with the roles of the two indices exchanged (axis `ax` = Y) -/
def sideStripT (c : FPCfg α) (pd pp : Nat → Arr2 α) (ax : String) (lk : Link) (isRight : Bool)
    (i j : Nat) : α :=
  let swap := ax != lk.2.1
  let isVec := c.vectorAxis.isSome
  let source := if isVec && swap then pp lk.1 else pd lk.1
  stripCell c.width isRight lk.2.2 swap (isVec && c.vectorAxis == some ax)
    (isVec && c.vectorAxis != some ax) c.neg source.transpose j i

structure Square (NN : Nat) (a : Arr2 α) : Prop where
  hx : a.nx = NN
  hy : a.ny = NN

/-- `one` of `padAxisOfFace` for the X axis (target dimension = first index) -/
def oneX (c : FPCfg α) (pd pp : Nat → Arr2 α) (T : Arr2 α) (lk : Option Link) (isRight : Bool) : Arr2 α :=
  match lk with
  | none => T
  | some (srcFace, srcAxis, rev) =>
    padSideX c.width isRight rev (c.xAxis != srcAxis)
      (c.vectorAxis.isSome && c.vectorAxis == some c.xAxis)
      (c.vectorAxis.isSome && c.vectorAxis != some c.xAxis) c.neg T
      (if c.vectorAxis.isSome && (c.xAxis != srcAxis) then pp srcFace else pd srcFace)

theorem oneX_spec (c : FPCfg α) (pd pp : Nat → Arr2 α) (T : Arr2 α) (NN : Nat)
    (hw : 0 < c.width) (hNN : 2 * c.width ≤ NN) (hT : Square NN T)
    (hpd : ∀ g, Square NN (pd g)) (hpp : ∀ g, Square NN (pp g)) (lk : Option Link) (isRight : Bool) :
    Square NN (oneX c pd pp T lk isRight) ∧
    ∀ i j, i < NN →
      (oneX c pd pp T lk isRight).get i j =
        match lk with
        | none => T.get i j
        | some lk =>
          if isRight then
            (if i < NN - c.width then T.get i j
             else sideStrip c pd pp c.xAxis lk true (i - (NN - c.width)) j)
          else
            (if i < c.width then sideStrip c pd pp c.xAxis lk false i j else T.get i j) := by
  have hsrc : ∀ (b : Bool) g, Square NN (if b then pp g else pd g) := by
    intro b g; cases b <;> simp [hpd g, hpp g]
  cases lk with
  | none => exact ⟨hT, fun i j _ => rfl⟩
  | some lk =>
    obtain ⟨g, b, rev⟩ := lk
    have hs := hsrc (c.vectorAxis.isSome && (c.xAxis != b)) g
    have hS : 2 * c.width ≤ (if (c.xAxis != b) = true then
        (if (c.vectorAxis.isSome && (c.xAxis != b)) = true then pp g else pd g).ny
        else (if (c.vectorAxis.isSome && (c.xAxis != b)) = true then pp g else pd g).nx) := by
      rw [hs.hx, hs.hy]; simp [hNN]
    cases isRight
    · have := padSideX_left c.width rev (c.xAxis != b)
        (c.vectorAxis.isSome && c.vectorAxis == some c.xAxis)
        (c.vectorAxis.isSome && c.vectorAxis != some c.xAxis) c.neg T
        (if (c.vectorAxis.isSome && (c.xAxis != b)) = true then pp g else pd g) hw (by rw [hT.hx]; omega) hS
      refine ⟨⟨by simp only [oneX]; rw [this.1, hT.hx], ?_⟩, ?_⟩
      · simp only [oneX]
        rw [padSideX_ny _ _ _ _ _ _ _ _ _ (by rw [hs.hx, hT.hy]) (by rw [hs.hy, hT.hy])]
        exact hT.hy
      · intro i j hi
        simp only [oneX]
        rw [this.2 i j (by rw [hT.hx]; exact hi)]
        rfl
    · have := padSideX_right c.width rev (c.xAxis != b)
        (c.vectorAxis.isSome && c.vectorAxis == some c.xAxis)
        (c.vectorAxis.isSome && c.vectorAxis != some c.xAxis) c.neg T
        (if (c.vectorAxis.isSome && (c.xAxis != b)) = true then pp g else pd g) hw (by rw [hT.hx]; omega) hS
      refine ⟨⟨by simp only [oneX]; rw [this.1, hT.hx], ?_⟩, ?_⟩
      · simp only [oneX]
        rw [padSideX_ny _ _ _ _ _ _ _ _ _ (by rw [hs.hx, hT.hy]) (by rw [hs.hy, hT.hy])]
        exact hT.hy
      · intro i j hi
        simp only [oneX]
        rw [this.2 i j (by rw [hT.hx]; exact hi), hT.hx]
        rfl

theorem padAxis_X_eq (c : FPCfg α) (pd pp : Nat → Arr2 α) (f : Nat) (t : Arr2 α)
    (hw : 0 < c.width) :
    padAxisOfFace c pd pp f c.xAxis t =
      oneX c pd pp (oneX c pd pp t (linksOf c f c.xAxis).1 false) (linksOf c f c.xAxis).2 true := by
  have hw0 : ¬ (c.width = 0) := by omega
  unfold padAxisOfFace padAxisWithLinks
  simp only [hw0, if_false, decide_true, if_true]
  rfl

theorem padAxis_X (c : FPCfg α) (pd pp : Nat → Arr2 α) (f : Nat) (t : Arr2 α) (NN : Nat)
    (hw : 0 < c.width) (hNN : 2 * c.width ≤ NN) (ht : Square NN t)
    (hpd : ∀ g, Square NN (pd g)) (hpp : ∀ g, Square NN (pp g)) :
    Square NN (padAxisOfFace c pd pp f c.xAxis t) ∧
    ∀ i j, i < NN →
      (padAxisOfFace c pd pp f c.xAxis t).get i j =
        if i < c.width then
          (match (linksOf c f c.xAxis).1 with
            | some lk => sideStrip c pd pp c.xAxis lk false i j
            | none => t.get i j)
        else if i < NN - c.width then t.get i j
        else
          (match (linksOf c f c.xAxis).2 with
            | some lk => sideStrip c pd pp c.xAxis lk true (i - (NN - c.width)) j
            | none => t.get i j) := by
  rw [padAxis_X_eq c pd pp f t hw]
  obtain ⟨s1, g1⟩ := oneX_spec c pd pp t NN hw hNN ht hpd hpp (linksOf c f c.xAxis).1 false
  obtain ⟨s2, g2⟩ := oneX_spec c pd pp _ NN hw hNN s1 hpd hpp (linksOf c f c.xAxis).2 true
  refine ⟨s2, ?_⟩
  intro i j hi
  rw [g2 i j hi]
  cases hr : (linksOf c f c.xAxis).2 with
  | none =>
    simp only
    rw [g1 i j hi]
    cases hl : (linksOf c f c.xAxis).1 with
    | none => simp
    | some lk =>
      simp only [Bool.false_eq_true, if_false]
      by_cases h1 : i < c.width
      · simp [h1]
      · simp only [h1, if_false]
        by_cases h2 : i < NN - c.width <;> simp [h2]
  | some lkr =>
    simp only [if_true]
    by_cases h2 : i < NN - c.width
    · simp only [h2, if_true]
      rw [g1 i j hi]
      cases hl : (linksOf c f c.xAxis).1 with
      | none =>
        simp only
        by_cases h1 : i < c.width <;> simp [h1]
      | some lk =>
        simp only [Bool.false_eq_true, if_false]
    · have h1 : ¬ (i < c.width) := by omega
      simp only [h2, h1, if_false]


theorem Square.transpose {NN : Nat} {a : Arr2 α} (h : Square NN a) : Square NN a.transpose :=
  ⟨h.hy, h.hx⟩

/-- `one` of `padAxisOfFace` for the Y axis (target dimension = second index) -/
def oneY (c : FPCfg α) (pd pp : Nat → Arr2 α) (T : Arr2 α) (lk : Option Link) (isRight : Bool) : Arr2 α :=
  match lk with
  | none => T
  | some (srcFace, srcAxis, rev) =>
    (padSideX c.width isRight rev (c.yAxis != srcAxis)
      (c.vectorAxis.isSome && c.vectorAxis == some c.yAxis)
      (c.vectorAxis.isSome && c.vectorAxis != some c.yAxis) c.neg T.transpose
      (if c.vectorAxis.isSome && (c.yAxis != srcAxis) then pp srcFace else pd srcFace).transpose).transpose

theorem oneY_spec (c : FPCfg α) (pd pp : Nat → Arr2 α) (T : Arr2 α) (NN : Nat)
    (hw : 0 < c.width) (hNN : 2 * c.width ≤ NN) (hT : Square NN T)
    (hpd : ∀ g, Square NN (pd g)) (hpp : ∀ g, Square NN (pp g)) (lk : Option Link) (isRight : Bool) :
    Square NN (oneY c pd pp T lk isRight) ∧
    ∀ i j, j < NN →
      (oneY c pd pp T lk isRight).get i j =
        match lk with
        | none => T.get i j
        | some lk =>
          if isRight then
            (if j < NN - c.width then T.get i j
             else sideStripT c pd pp c.yAxis lk true i (j - (NN - c.width)))
          else
            (if j < c.width then sideStripT c pd pp c.yAxis lk false i j else T.get i j) := by
  have hsrc : ∀ (b : Bool) g, Square NN (if b then pp g else pd g) := by
    intro b g; cases b <;> simp [hpd g, hpp g]
  cases lk with
  | none => exact ⟨hT, fun i j _ => rfl⟩
  | some lk =>
    obtain ⟨g, b, rev⟩ := lk
    have hs := (hsrc (c.vectorAxis.isSome && (c.yAxis != b)) g).transpose
    have hTt := hT.transpose
    have hS : 2 * c.width ≤ (if (c.yAxis != b) = true then
        (if (c.vectorAxis.isSome && (c.yAxis != b)) = true then pp g else pd g).transpose.ny
        else (if (c.vectorAxis.isSome && (c.yAxis != b)) = true then pp g else pd g).transpose.nx) := by
      rw [hs.hx, hs.hy]; simp [hNN]
    cases isRight
    · have := padSideX_left c.width rev (c.yAxis != b)
        (c.vectorAxis.isSome && c.vectorAxis == some c.yAxis)
        (c.vectorAxis.isSome && c.vectorAxis != some c.yAxis) c.neg T.transpose
        (if (c.vectorAxis.isSome && (c.yAxis != b)) = true then pp g else pd g).transpose hw
        (by rw [hTt.hx]; omega) hS
      refine ⟨⟨?_, ?_⟩, ?_⟩
      · simp only [oneY, Arr2.transpose]
        have := padSideX_ny c.width false rev (c.yAxis != b)
          (c.vectorAxis.isSome && c.vectorAxis == some c.yAxis)
          (c.vectorAxis.isSome && c.vectorAxis != some c.yAxis) c.neg T.transpose
          (if (c.vectorAxis.isSome && (c.yAxis != b)) = true then pp g else pd g).transpose
          (by rw [hs.hx, hTt.hy]) (by rw [hs.hy, hTt.hy])
        rw [hTt.hy] at this
        exact this
      · simp only [oneY]
        show (padSideX _ _ _ _ _ _ _ _ _).nx = NN
        rw [this.1, hTt.hx]
      · intro i j hj
        simp only [oneY]
        have hT' : ∀ (a : Arr2 α) i j, a.transpose.get i j = a.get j i := fun _ _ _ => rfl
        rw [hT', this.2 j i (by rw [hTt.hx]; exact hj)]
        rfl
    · have := padSideX_right c.width rev (c.yAxis != b)
        (c.vectorAxis.isSome && c.vectorAxis == some c.yAxis)
        (c.vectorAxis.isSome && c.vectorAxis != some c.yAxis) c.neg T.transpose
        (if (c.vectorAxis.isSome && (c.yAxis != b)) = true then pp g else pd g).transpose hw
        (by rw [hTt.hx]; omega) hS
      refine ⟨⟨?_, ?_⟩, ?_⟩
      · simp only [oneY, Arr2.transpose]
        have := padSideX_ny c.width true rev (c.yAxis != b)
          (c.vectorAxis.isSome && c.vectorAxis == some c.yAxis)
          (c.vectorAxis.isSome && c.vectorAxis != some c.yAxis) c.neg T.transpose
          (if (c.vectorAxis.isSome && (c.yAxis != b)) = true then pp g else pd g).transpose
          (by rw [hs.hx, hTt.hy]) (by rw [hs.hy, hTt.hy])
        rw [hTt.hy] at this
        exact this
      · simp only [oneY]
        show (padSideX _ _ _ _ _ _ _ _ _).nx = NN
        rw [this.1, hTt.hx]
      · intro i j hj
        simp only [oneY]
        have hT' : ∀ (a : Arr2 α) i j, a.transpose.get i j = a.get j i := fun _ _ _ => rfl
        rw [hT', this.2 j i (by rw [hTt.hx]; exact hj), hTt.hx]
        rfl

theorem padAxis_Y_eq (c : FPCfg α) (pd pp : Nat → Arr2 α) (f : Nat) (t : Arr2 α)
    (hw : 0 < c.width) (hne : c.xAxis ≠ c.yAxis) :
    padAxisOfFace c pd pp f c.yAxis t =
      oneY c pd pp (oneY c pd pp t (linksOf c f c.yAxis).1 false) (linksOf c f c.yAxis).2 true := by
  have hw0 : ¬ (c.width = 0) := by omega
  have hne' : ¬ (c.yAxis = c.xAxis) := fun h => hne h.symm
  unfold padAxisOfFace padAxisWithLinks
  simp only [hw0, if_false, hne', decide_false, Bool.false_eq_true]
  rfl

theorem padAxis_Y (c : FPCfg α) (pd pp : Nat → Arr2 α) (f : Nat) (t : Arr2 α) (NN : Nat)
    (hw : 0 < c.width) (hne : c.xAxis ≠ c.yAxis) (hNN : 2 * c.width ≤ NN) (ht : Square NN t)
    (hpd : ∀ g, Square NN (pd g)) (hpp : ∀ g, Square NN (pp g)) :
    Square NN (padAxisOfFace c pd pp f c.yAxis t) ∧
    ∀ i j, j < NN →
      (padAxisOfFace c pd pp f c.yAxis t).get i j =
        if j < c.width then
          (match (linksOf c f c.yAxis).1 with
            | some lk => sideStripT c pd pp c.yAxis lk false i j
            | none => t.get i j)
        else if j < NN - c.width then t.get i j
        else
          (match (linksOf c f c.yAxis).2 with
            | some lk => sideStripT c pd pp c.yAxis lk true i (j - (NN - c.width))
            | none => t.get i j) := by
  rw [padAxis_Y_eq c pd pp f t hw hne]
  obtain ⟨s1, g1⟩ := oneY_spec c pd pp t NN hw hNN ht hpd hpp (linksOf c f c.yAxis).1 false
  obtain ⟨s2, g2⟩ := oneY_spec c pd pp _ NN hw hNN s1 hpd hpp (linksOf c f c.yAxis).2 true
  refine ⟨s2, ?_⟩
  intro i j hj
  rw [g2 i j hj]
  cases hr : (linksOf c f c.yAxis).2 with
  | none =>
    simp only
    rw [g1 i j hj]
    cases hl : (linksOf c f c.yAxis).1 with
    | none => simp
    | some lk =>
      simp only [Bool.false_eq_true, if_false]
      by_cases h1 : j < c.width
      · simp [h1]
      · simp only [h1, if_false]
        by_cases h2 : j < NN - c.width <;> simp [h2]
  | some lkr =>
    simp only [if_true]
    by_cases h2 : j < NN - c.width
    · simp only [h2, if_true]
      rw [g1 i j hj]
      cases hl : (linksOf c f c.yAxis).1 with
      | none =>
        simp only
        by_cases h1 : j < c.width <;> simp [h1]
      | some lk =>
        simp only [Bool.false_eq_true, if_false]
    · have h1 : ¬ (j < c.width) := by omega
      simp only [h2, h1, if_false]

end Xgcm

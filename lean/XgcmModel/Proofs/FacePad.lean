import XgcmModel.Model.FacePad
/-
  Helper lemmas for C05: index-level characterisation of one side of one axis.
-/
set_option linter.unusedSimpArgs false
namespace Xgcm

variable {α : Type}

theorem pyBound_nat (len : Nat) (b : Nat) : pyBound len (b : Int) = min b len := by
  unfold pyBound; split <;> omega

theorem pyBound_neg (len : Nat) (b : Nat) (hb : 0 < b) : pyBound len (-(b : Int)) = len - b := by
  unfold pyBound; split <;> omega

/-- the source strip after slicing, renaming and flipping (`sl3` of `padSideX`), cell by cell -/
def stripCell (w : Nat) (isRight rev swap negO negT : Bool) (neg : α → α) (S : Arr2 α)
    (i j : Nat) : α :=
  -- position of the strip inside the source, along the link's axis
  let n := if swap then S.ny else S.nx
  let start : Nat := if isRight = rev then n - 2 * w else w
  let d := start + (if rev then w - 1 - i else i)
  let v := if swap then S.get (if rev then j else S.nx - 1 - j) d else S.get d j
  let v1 := if rev && negO then neg v else v
  if swap && !rev && negT then neg v1 else v1

theorem padSideX_left (w : Nat) (rev swap negO negT : Bool) (neg : α → α) (T S : Arr2 α)
    (hw : 0 < w) (hT : w ≤ T.nx) (hS : 2 * w ≤ (if swap then S.ny else S.nx)) :
    (padSideX w false rev swap negO negT neg T S).nx = T.nx ∧
    ∀ i j, i < T.nx →
      (padSideX w false rev swap negO negT neg T S).get i j =
        if i < w then stripCell w false rev swap negO negT neg S i j else T.get i j := by
  have b1 : pyBound T.nx (w : Int) = w := by rw [pyBound_nat]; omega
  have e1 : (-2 * (w : Int)) = -((2 * w : Nat) : Int) := by omega
  have e2 : (2 * (w : Int)) = ((2 * w : Nat) : Int) := by omega
  have k1 : 2 * w - w = w := by omega
  cases swap
  · simp only [Bool.false_eq_true, if_false] at hS
    have m1 : min w S.nx = w := by omega
    have m2 : min (2 * w) S.nx = 2 * w := by omega
    have m3 : S.nx - w - (S.nx - 2 * w) = w := by omega
    cases rev <;> cases negO <;> cases negT <;>
      simp only [padSideX, stripCell, Arr2.sliceX, Arr2.sliceY, Arr2.transpose, Arr2.flipX, Arr2.flipY,
        Arr2.map, Arr2.concatX, Bool.false_eq_true, if_false, if_true, Bool.and_true, Bool.and_false,
        Bool.not_false, Bool.not_true, Bool.true_and, Bool.false_and, b1, e1, e2, pyBound_nat,
        pyBound_neg _ _ hw, pyBound_neg _ (2 * w) (by omega), m1, m2, m3, k1] <;>
      (refine ⟨by omega, ?_⟩
       intro i j hi
       by_cases h : i < w <;> simp only [h, if_true, if_false] <;>
         first | rfl | (congr 1; omega) | (congr 2; omega) | (congr 3; omega))
  · simp only [if_true] at hS
    have m1 : min w S.ny = w := by omega
    have m2 : min (2 * w) S.ny = 2 * w := by omega
    have m3 : S.ny - w - (S.ny - 2 * w) = w := by omega
    cases rev <;> cases negO <;> cases negT <;>
      simp only [padSideX, stripCell, Arr2.sliceX, Arr2.sliceY, Arr2.transpose, Arr2.flipX, Arr2.flipY,
        Arr2.map, Arr2.concatX, Bool.false_eq_true, if_false, if_true, Bool.and_true, Bool.and_false,
        Bool.not_false, Bool.not_true, Bool.true_and, Bool.false_and, b1, e1, e2, pyBound_nat,
        pyBound_neg _ _ hw, pyBound_neg _ (2 * w) (by omega), m1, m2, m3, k1] <;>
      (refine ⟨by omega, ?_⟩
       intro i j hi
       by_cases h : i < w <;> simp only [h, if_true, if_false] <;>
         first | rfl | (congr 1; omega) | (congr 2; omega) | (congr 3; omega))

theorem padSideX_right (w : Nat) (rev swap negO negT : Bool) (neg : α → α) (T S : Arr2 α)
    (hw : 0 < w) (hT : w ≤ T.nx) (hS : 2 * w ≤ (if swap then S.ny else S.nx)) :
    (padSideX w true rev swap negO negT neg T S).nx = T.nx ∧
    ∀ i j, i < T.nx →
      (padSideX w true rev swap negO negT neg T S).get i j =
        if i < T.nx - w then T.get i j
        else stripCell w true rev swap negO negT neg S (i - (T.nx - w)) j := by
  have b0 : pyBound T.nx ((0 : Nat) : Int) = 0 := by rw [pyBound_nat]; omega
  have b0' : pyBound T.nx (0 : Int) = 0 := b0
  have e1 : (-2 * (w : Int)) = -((2 * w : Nat) : Int) := by omega
  have e2 : (2 * (w : Int)) = ((2 * w : Nat) : Int) := by omega
  have k1 : 2 * w - w = w := by omega
  have k2 : T.nx - w - 0 = T.nx - w := by omega
  cases swap
  · simp only [Bool.false_eq_true, if_false] at hS
    have m1 : min w S.nx = w := by omega
    have m2 : min (2 * w) S.nx = 2 * w := by omega
    have m3 : S.nx - w - (S.nx - 2 * w) = w := by omega
    cases rev <;> cases negO <;> cases negT <;>
      simp only [padSideX, stripCell, Arr2.sliceX, Arr2.sliceY, Arr2.transpose, Arr2.flipX, Arr2.flipY,
        Arr2.map, Arr2.concatX, Bool.false_eq_true, if_false, if_true, Bool.and_true, Bool.and_false,
        Bool.not_false, Bool.not_true, Bool.true_and, Bool.false_and, b0', e1, e2, pyBound_nat,
        pyBound_neg _ _ hw, pyBound_neg _ (2 * w) (by omega), m1, m2, m3, k1, k2, Nat.zero_add] <;>
      (refine ⟨by omega, ?_⟩
       intro i j hi
       by_cases h : i < T.nx - w <;> simp only [h, if_true, if_false] <;>
         first | rfl | (congr 1; omega) | (congr 2; omega) | (congr 3; omega))
  · simp only [if_true] at hS
    have m1 : min w S.ny = w := by omega
    have m2 : min (2 * w) S.ny = 2 * w := by omega
    have m3 : S.ny - w - (S.ny - 2 * w) = w := by omega
    cases rev <;> cases negO <;> cases negT <;>
      simp only [padSideX, stripCell, Arr2.sliceX, Arr2.sliceY, Arr2.transpose, Arr2.flipX, Arr2.flipY,
        Arr2.map, Arr2.concatX, Bool.false_eq_true, if_false, if_true, Bool.and_true, Bool.and_false,
        Bool.not_false, Bool.not_true, Bool.true_and, Bool.false_and, b0', e1, e2, pyBound_nat,
        pyBound_neg _ _ hw, pyBound_neg _ (2 * w) (by omega), m1, m2, m3, k1, k2, Nat.zero_add] <;>
      (refine ⟨by omega, ?_⟩
       intro i j hi
       by_cases h : i < T.nx - w <;> simp only [h, if_true, if_false] <;>
         first | rfl | (congr 1; omega) | (congr 2; omega) | (congr 3; omega))

theorem padSideX_ny (w : Nat) (isRight rev swap negO negT : Bool) (neg : α → α) (T S : Arr2 α)
    (hSx : S.nx = T.ny) (hSy : S.ny = T.ny) :
    (padSideX w isRight rev swap negO negT neg T S).ny = T.ny := by
  cases isRight <;> cases rev <;> cases swap <;> cases negO <;> cases negT <;>
    simp_all [padSideX, Arr2.sliceX, Arr2.sliceY, Arr2.transpose, Arr2.flipX, Arr2.flipY,
      Arr2.map, Arr2.concatX]

end Xgcm

import XgcmModel.Proofs.Stencil
import XgcmModel.Gen.Gridops
import XgcmModel.Gen.Axis
/-
  Helper lemmas for C01 over the generated tables.
-/
namespace Xgcm

/-- boolean check of one (operator, shift) cell of the generated table:
    exactly one ufunc is selected, it has the coordinate-derived widths and the
    normal-form body of the operator -/
def selOK (table : List UfuncEntry) (fn : Func) (f t : Pos) : Bool :=
  match selectUfunc table fn.toString f t with
  | .ok e => decide ((e.lo, e.hi) = widthOf f t) && decide (e.body = fn.canonicalBody)
  | .error _ => false

theorem selOK_gen (fn : Func) (f t : Pos) (hv : validShift f t = true) :
    selOK Gen.gridops fn f t = true := by
  cases fn <;> cases f <;> cases t <;> simp [validShift] at hv <;> decide +kernel

theorem select_valid (fn : Func) (f t : Pos) (hv : validShift f t = true) :
    ∃ e, selectUfunc Gen.gridops fn.toString f t = .ok e ∧ (e.lo, e.hi) = widthOf f t ∧
      e.body = fn.canonicalBody := by
  have h := selOK_gen fn f t hv
  unfold selOK at h
  split at h
  · rename_i e he
    simp at h
    exact ⟨e, he, h.1, h.2⟩
  · simp at h

/-- invalid shifts are refused (no entry, or the stub whose body raises) -/
def refusedOK (table : List UfuncEntry) (fn : Func) (f t : Pos) : Bool :=
  match selectUfunc table fn.toString f t with
  | .ok e => decide (e.body = .raiseNotImpl)
  | .error _ => true

theorem refusedOK_gen (fn : Func) (f t : Pos) (hv : validShift f t = false) :
    refusedOK Gen.gridops fn f t = true := by
  cases fn <;> cases f <;> cases t <;> simp [validShift] at hv <;> decide +kernel

variable {α : Type}

theorem alookup_filterMap_self {κ ν : Type} [DecidableEq κ] (g : κ → Option ν) (l : List κ) (p : κ) :
    alookup p (l.filterMap (fun q => (g q).map (fun v => (q, v)))) =
      if p ∈ l then g p else none := by
  induction l with
  | nil => simp [alookup]
  | cons a r ih =>
    simp only [List.filterMap_cons]
    cases hg : g a with
    | none =>
      simp only [Option.map_none, ih]
      by_cases hpa : p = a
      · subst hpa; simp [hg]
      · simp [hpa]
    | some v =>
      simp only [Option.map_some, alookup]
      by_cases hpa : p = a
      · subst hpa; simp [hg]
      · simp [hpa, ih]

end Xgcm

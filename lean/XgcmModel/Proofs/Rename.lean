import XgcmModel.Model.Dispatch
/-
  Renaming of axis names (`ρa`) and dimension names (`ρd`) on the grid / array / keyword models, and
  the lemmas showing that every name-consuming primitive of the dispatcher model commutes with it.
  Used by Properties/C13.
-/
namespace Xgcm.Rename
open Xgcm

/-- injective renaming (a finite injective relabelling always extends to one) -/
def Inj (ρ : String → String) : Prop := ∀ x y, ρ x = ρ y → x = y

variable {α : Type}

def renAxis (ρa ρd : String → String) (a : AxisM α) : AxisM α :=
  { a with name := ρa a.name, coords := a.coords.map (fun pd => (pd.1, ρd pd.2)) }

def renGrid (ρa ρd : String → String) (g : GridM α) : GridM α :=
  ⟨g.axes.map (renAxis ρa ρd)⟩

def renKW {β : Type} (ρa : String → String) : KW β → KW β
  | .none => .none
  | .scalar v => .scalar v
  | .dict m => .dict (m.map (fun e => (ρa e.1, e.2)))

def renArr (ρd : String → String) (a : NDArr α) : NDArr α := { a with dims := a.dims.map ρd }

theorem beq_inj {ρ : String → String} (h : Inj ρ) (a b : String) : (ρ a == ρ b) = (a == b) := by
  by_cases hab : a = b
  · subst hab; rw [beq_self_eq_true, beq_self_eq_true]
  · have : ρ a ≠ ρ b := fun e => hab (h _ _ e)
    rw [beq_eq_false_iff_ne.mpr hab, beq_eq_false_iff_ne.mpr this]

theorem contains_map {ρ : String → String} (h : Inj ρ) (l : List String) (k : String) :
    (l.map ρ).contains (ρ k) = l.contains k := by
  induction l with
  | nil => rfl
  | cons a r ih => simp only [List.map_cons, List.contains_cons, ih, beq_inj h]

theorem idxOf_map {ρ : String → String} (h : Inj ρ) (l : List String) (k : String) :
    (l.map ρ).idxOf (ρ k) = l.idxOf k := by
  induction l with
  | nil => rfl
  | cons a r ih =>
    simp only [List.map_cons, List.idxOf_cons, ih, beq_inj h]

theorem eraseDups_map {ρ : String → String} (h : Inj ρ) (l : List String) :
    (l.map ρ).eraseDups = l.eraseDups.map ρ := by
  match l with
  | [] => rfl
  | a :: r =>
    have hlen : (r.filter (fun b => !b == a)).length < (a :: r).length :=
      Nat.lt_succ_of_le (List.length_filter_le _ _)
    rw [List.map_cons, List.eraseDups_cons, List.eraseDups_cons, List.map_cons, List.filter_map]
    have hp : ((fun b => !b == ρ a) ∘ ρ) = (fun b => !b == a) := by
      funext b; simp only [Function.comp, beq_inj h]
    rw [hp, eraseDups_map h (r.filter (fun b => !b == a))]
termination_by l.length

theorem alookup_keys {β : Type} {ρ : String → String} (h : Inj ρ) (m : List (String × β)) (k : String) :
    alookup (ρ k) (m.map (fun e => (ρ e.1, e.2))) = alookup k m := by
  induction m with
  | nil => rfl
  | cons e r ih =>
    simp only [List.map_cons, alookup, ih]
    by_cases hk : k = e.1
    · simp [hk]
    · have : ρ k ≠ ρ e.1 := fun e' => hk (h _ _ e')
      simp [hk, this]

theorem alookup_vals {κ β γ : Type} [DecidableEq κ] (f : β → γ) (m : List (κ × β)) (k : κ) :
    alookup k (m.map (fun e => (e.1, f e.2))) = (alookup k m).map f := by
  induction m with
  | nil => rfl
  | cons e r ih =>
    simp only [List.map_cons, alookup, ih]
    split <;> rfl

theorem alookup_both {ρ : String → String} (h : Inj ρ) (m : List (String × String)) (k : String) :
    alookup (ρ k) (m.map (fun e => (ρ e.1, ρ e.2))) = (alookup k m).map ρ := by
  induction m with
  | nil => rfl
  | cons e r ih =>
    simp only [List.map_cons, alookup, ih]
    by_cases hk : k = e.1
    · simp [hk]
    · have : ρ k ≠ ρ e.1 := fun e' => hk (h _ _ e')
      simp [hk, this]

theorem resolve_ren {β : Type} {ρa : String → String} (h : Inj ρa) (kw : KW β) (n : String) (d : β) :
    (renKW ρa kw).resolve (ρa n) d = kw.resolve n d := by
  cases kw with
  | none => rfl
  | scalar v => rfl
  | dict m => simp only [renKW, KW.resolve, alookup_keys h]

theorem axis?_ren {ρa ρd : String → String} (h : Inj ρa) (g : GridM α) (n : String) :
    (renGrid ρa ρd g).axis? (ρa n) = (g.axis? n).map (renAxis ρa ρd) := by
  unfold GridM.axis? renGrid
  rw [List.find?_map]
  have : ((fun a : AxisM α => a.name == ρa n) ∘ renAxis ρa ρd) = (fun a => a.name == n) := by
    funext a; simp only [Function.comp, renAxis, beq_inj h]
  rw [this]

theorem dimIdx_ren {ρd : String → String} (h : Inj ρd) (a : NDArr α) (d : String) :
    (renArr ρd a).dimIdx (ρd d) = a.dimIdx d := by
  simp only [NDArr.dimIdx, renArr, idxOf_map h, List.length_map]

theorem size_ren {ρd : String → String} (h : Inj ρd) (a : NDArr α) (d : String) :
    (renArr ρd a).size (ρd d) = a.size d := by
  simp only [NDArr.size, dimIdx_ren h]
  rfl

theorem boundaryWordsOk_ren {ρa ρd : String → String} (h : Inj ρa) (g : GridM α) (b : KW String) :
    boundaryWordsOk (renGrid ρa ρd g) (renKW ρa b) = boundaryWordsOk g b := by
  simp only [boundaryWordsOk, renGrid, List.all_map]
  congr 1
  funext ax
  simp only [Function.comp, renAxis, resolve_ren h]

end Xgcm.Rename

namespace Xgcm.Rename
open Xgcm
variable {α : Type}

def renPD (ρd : String → String) (pd : Pos × String) : Pos × String := (pd.1, ρd pd.2)

theorem positionName_ren {ρa ρd : String → String} (h : Inj ρd) (a : AxisM α) (dims : List String) :
    (renAxis ρa ρd a).positionName (dims.map ρd) = (a.positionName dims).map (renPD ρd) := by
  unfold AxisM.positionName
  have h1 : (renAxis ρa ρd a).coords.map (·.2) = (a.coords.map (·.2)).map ρd := by
    simp only [renAxis, List.map_map]; rfl
  have h2 : ((dims.map ρd).filter (fun d => ((renAxis ρa ρd a).coords.map (·.2)).contains d)).eraseDups
      = ((dims.filter (fun d => (a.coords.map (·.2)).contains d)).eraseDups).map ρd := by
    rw [h1, List.filter_map, ← eraseDups_map h]
    have hp : ((fun d => ((a.coords.map (·.2)).map ρd).contains d) ∘ ρd)
        = (fun d => (a.coords.map (·.2)).contains d) := by
      funext d
      simp only [Function.comp, contains_map h]
    rw [hp]
  have h3 : (renAxis ρa ρd a).coords.find? (fun pd => (dims.map ρd).contains pd.2)
      = (a.coords.find? (fun pd => dims.contains pd.2)).map (renPD ρd) := by
    simp only [renAxis]
    rw [List.find?_map]
    have hp : ((fun pd : Pos × String => (dims.map ρd).contains pd.2) ∘ (fun pd : Pos × String => (pd.1, ρd pd.2)))
        = (fun pd : Pos × String => dims.contains pd.2) := by
      funext pd
      simp only [Function.comp, contains_map h]
    rw [hp]; rfl
  simp only [h2, h3]
  cases hc : (dims.filter (fun d => (a.coords.map (·.2)).contains d)).eraseDups with
  | nil => rfl
  | cons x r =>
    cases r with
    | nil =>
      simp only [List.map_cons, List.map_nil]
      cases a.coords.find? (fun pd => dims.contains pd.2) <;> rfl
    | cons y r' => rfl

theorem eraseIdx_map' {β γ : Type} (f : β → γ) (l : List β) (k : Nat) :
    (l.map f).eraseIdx k = (l.eraseIdx k).map f := by
  induction l generalizing k with
  | nil => rfl
  | cons x r ih =>
    cases k with
    | zero => rfl
    | succ k => simp only [List.map_cons, List.eraseIdx_cons_succ, ih]

theorem applyAlong_ren (ρd : String → String) (a : NDArr α) (k : Nat) (nd : String) (m : Nat)
    (f : List α → List α) (dflt : α) :
    (renArr ρd a).applyAlong k (ρd nd) m f dflt = renArr ρd (a.applyAlong k nd m f dflt) := by
  simp only [NDArr.applyAlong, renArr, NDArr.line, List.map_append, List.map_cons, List.map_nil,
    eraseIdx_map']

theorem stepAxis_ren {ρa ρd : String → String} (ha : Inj ρa) (hd : Inj ρd)
    (o : Ops α) (table : List UfuncEntry) (g : GridM α) (fn : String) (axname : String) (f t : Pos)
    (boundary : KW String) (fill : KW α) (arr : NDArr α) :
    stepAxis o table (renGrid ρa ρd g) fn (ρa axname) f t (renKW ρa boundary) (renKW ρa fill) (renArr ρd arr)
      = (stepAxis o table g fn axname f t boundary fill arr).map (renArr ρd) := by
  unfold stepAxis
  cases selectUfunc table fn f t with
  | error e => rfl
  | ok e =>
    simp only [axis?_ren ha]
    cases g.axis? axname with
    | none => rfl
    | some ax =>
      simp only [Option.map_some]
      have hc : ∀ p, alookup p (renAxis ρa ρd ax).coords = (alookup p ax.coords).map ρd := by
        intro p; simp only [renAxis]; exact alookup_vals ρd ax.coords p
      simp only [hc]
      cases alookup f ax.coords with
      | none => rfl
      | some dimIn =>
        simp only [Option.map_some, dimIdx_ren hd]
        cases arr.dimIdx dimIn with
        | none => rfl
        | some k =>
          cases alookup t ax.coords with
          | none => rfl
          | some dimOut =>
            simp only [Option.map_some, boundaryWordsOk_ren ha]
            have hr : ruleInForceCall (renAxis ρa ρd ax) (renKW ρa boundary) = ruleInForceCall ax boundary := by
              simp only [ruleInForceCall, renAxis, resolve_ren ha]
            have hf : fillInForceCall (renAxis ρa ρd ax) (renKW ρa fill) = fillInForceCall ax fill := by
              simp only [fillInForceCall, renAxis, resolve_ren ha]
            simp only [hr, hf]
            have hs : (renArr ρd arr).shape = arr.shape := rfl
            simp only [hs]
            split
            · rfl
            · split
              · rfl
              · split
                · rfl
                · simp only [applyAlong_ren]; rfl

end Xgcm.Rename

namespace Xgcm.Rename
open Xgcm
variable {α : Type}

theorem signatureFor_ren {ρa ρd : String → String} (ha : Inj ρa) (hd : Inj ρd)
    (g : GridM α) (dims : List String) (to : KW String) (axname : String) :
    signatureFor (renGrid ρa ρd g) (dims.map ρd) (renKW ρa to) (ρa axname) = signatureFor g dims to axname := by
  unfold signatureFor
  simp only [axis?_ren ha]
  cases g.axis? axname with
  | none => rfl
  | some ax =>
    simp only [Option.map_some, positionName_ren hd, bind, Except.bind, pure, Except.pure]
    cases ax.positionName dims with
    | error e => rfl
    | ok pd =>
      obtain ⟨fp, d⟩ := pd
      simp only [Except.map, renPD]
      have hds : (renAxis ρa ρd ax).defaultShifts = ax.defaultShifts := rfl
      cases to with
      | none => simp only [renKW, hds]
      | scalar w => simp only [renKW]
      | dict m =>
        simp only [renKW, alookup_keys ha, hds]

theorem mapM_sig_ren {ρa ρd : String → String} (ha : Inj ρa) (hd : Inj ρd)
    (g : GridM α) (dims : List String) (to : KW String) (axes : List String) :
    (axes.map ρa).mapM (fun axname => do
        let (f, t) ← signatureFor (renGrid ρa ρd g) (dims.map ρd) (renKW ρa to) axname
        pure (axname, f, t))
      = (axes.mapM (fun axname => do
        let (f, t) ← signatureFor g dims to axname
        pure (axname, f, t))).map (List.map (fun s : String × Pos × Pos => (ρa s.1, s.2))) := by
  induction axes with
  | nil => rfl
  | cons a r ih =>
    rw [List.map_cons, List.mapM_cons, List.mapM_cons, ih, signatureFor_ren ha hd]
    cases signatureFor g dims to a with
    | error e => rfl
    | ok ft =>
      obtain ⟨f, t⟩ := ft
      cases List.mapM (fun axname => do
        let (f, t) ← signatureFor g dims to axname
        pure (axname, f, t)) r with
      | error e => rfl
      | ok l => rfl

theorem foldAxes_ren {ρa ρd : String → String} (ha : Inj ρa) (hd : Inj ρd)
    (o : Ops α) (table : List UfuncEntry) (g : GridM α) (fn : String) (boundary : KW String) (fill : KW α)
    (sigs : List (String × Pos × Pos)) (arr : NDArr α) :
    foldAxes o table (renGrid ρa ρd g) fn (renKW ρa boundary) (renKW ρa fill)
        (sigs.map (fun s => (ρa s.1, s.2))) (renArr ρd arr)
      = (foldAxes o table g fn boundary fill sigs arr).map (renArr ρd) := by
  induction sigs generalizing arr with
  | nil => rfl
  | cons s r ih =>
    obtain ⟨ax, f, t⟩ := s
    simp only [List.map_cons, foldAxes, stepAxis_ren ha hd, bind, Except.bind]
    cases stepAxis o table g fn ax f t boundary fill arr with
    | error e => rfl
    | ok arr' => simp only [Except.map]; exact ih arr'

end Xgcm.Rename

namespace Xgcm.Rename
open Xgcm
variable {α : Type}

theorem transposeTo_ren {ρd : String → String} (hd : Inj ρd) (a : NDArr α) (order : List String) :
    (renArr ρd a).transposeTo (order.map ρd) = renArr ρd (a.transposeTo order) := by
  unfold NDArr.transposeTo
  have h1 : (order.map ρd).map (fun d => (renArr ρd a).size d) = order.map (fun d => a.size d) := by
    rw [List.map_map]
    congr 1
    funext d
    simp only [Function.comp, size_ren hd]
  have h2 : ∀ idx : List Nat, (renArr ρd a).dims.map (fun d => idx.getD ((order.map ρd).idxOf d) 0)
      = a.dims.map (fun d => idx.getD (order.idxOf d) 0) := by
    intro idx
    simp only [renArr, List.map_map]
    congr 1
    funext d
    simp only [Function.comp, idxOf_map hd]
  simp only [h1, h2]
  rfl

def pairOf (g : GridM α) (orig resDims : List String) (axname : String) : Res (String × String) := do
  let ax ← match g.axis? axname with | some a => pure a | none => throw Err.key
  let (_, old) ← ax.positionName orig
  let (_, new) ← ax.positionName resDims
  pure (old, new)

theorem pairOf_ren {ρa ρd : String → String} (ha : Inj ρa) (hd : Inj ρd)
    (g : GridM α) (orig resDims : List String) (axname : String) :
    pairOf (renGrid ρa ρd g) (orig.map ρd) (resDims.map ρd) (ρa axname)
      = (pairOf g orig resDims axname).map (fun p => (ρd p.1, ρd p.2)) := by
  unfold pairOf
  simp only [axis?_ren ha]
  cases g.axis? axname with
  | none => rfl
  | some ax =>
    simp only [Option.map_some, positionName_ren hd, bind, Except.bind, pure, Except.pure]
    cases ax.positionName orig with
    | error e => rfl
    | ok pd =>
      cases ax.positionName resDims with
      | error e => rfl
      | ok pd' => rfl

theorem mapM_pair_ren {ρa ρd : String → String} (ha : Inj ρa) (hd : Inj ρd)
    (g : GridM α) (orig resDims : List String) (axes : List String) :
    (axes.map ρa).mapM (pairOf (renGrid ρa ρd g) (orig.map ρd) (resDims.map ρd))
      = (axes.mapM (pairOf g orig resDims)).map (List.map (fun p => (ρd p.1, ρd p.2))) := by
  induction axes with
  | nil => rfl
  | cons a r ih =>
    rw [List.map_cons, List.mapM_cons, List.mapM_cons, ih, pairOf_ren ha hd]
    cases pairOf g orig resDims a with
    | error e => rfl
    | ok p =>
      cases List.mapM (pairOf g orig resDims) r with
      | error e => rfl
      | ok l => rfl

theorem restoreOrder_eq (g : GridM α) (orig axes : List String) (res : NDArr α) :
    restoreOrder g orig axes res = (do
      let pairs ← axes.mapM (pairOf g orig res.dims)
      let target := orig.map (fun d => (alookup d pairs.reverse).getD d)
      if target.length = res.dims.length ∧ target.all (fun d => res.dims.contains d) then
        pure (res.transposeTo target)
      else throw Err.value) := rfl

theorem restoreOrder_ren {ρa ρd : String → String} (ha : Inj ρa) (hd : Inj ρd)
    (g : GridM α) (orig axes : List String) (res : NDArr α) :
    restoreOrder (renGrid ρa ρd g) (orig.map ρd) (axes.map ρa) (renArr ρd res)
      = (restoreOrder g orig axes res).map (renArr ρd) := by
  rw [restoreOrder_eq, restoreOrder_eq]
  have hdims : (renArr ρd res).dims = res.dims.map ρd := rfl
  rw [hdims, mapM_pair_ren ha hd]
  cases List.mapM (pairOf g orig res.dims) axes with
  | error e => rfl
  | ok pairs =>
    simp only [Except.map, bind, Except.bind, pure, Except.pure]
    have ht : (orig.map ρd).map (fun d => (alookup d (pairs.map (fun p => (ρd p.1, ρd p.2))).reverse).getD d)
        = (orig.map (fun d => (alookup d pairs.reverse).getD d)).map ρd := by
      rw [List.map_map, List.map_map]
      congr 1
      funext d
      simp only [Function.comp, ← List.map_reverse, alookup_both hd]
      cases alookup d pairs.reverse <;> rfl
    rw [ht]
    have hall : ((orig.map (fun d => (alookup d pairs.reverse).getD d)).map ρd).all
          (fun d => (res.dims.map ρd).contains d)
        = (orig.map (fun d => (alookup d pairs.reverse).getD d)).all (fun d => res.dims.contains d) := by
      rw [List.all_map]
      congr 1
      funext d
      simp only [Function.comp, contains_map hd]
    simp only [hall, List.length_map, transposeTo_ren hd]
    split <;> rfl

theorem dispatch_ren {ρa ρd : String → String} (ha : Inj ρa) (hd : Inj ρd)
    (o : Ops α) (table : List UfuncEntry) (g : GridM α) (fn : String) (arr : NDArr α)
    (axes : List String) (to boundary : KW String) (fill : KW α) :
    dispatch o table (renGrid ρa ρd g) fn (renArr ρd arr) (axes.map ρa) (renKW ρa to) (renKW ρa boundary)
        (renKW ρa fill)
      = (dispatch o table g fn arr axes to boundary fill).map (renArr ρd) := by
  unfold dispatch
  have hdims : (renArr ρd arr).dims = arr.dims.map ρd := rfl
  rw [hdims, mapM_sig_ren ha hd]
  cases List.mapM (fun axname => do
        let (f, t) ← signatureFor g arr.dims to axname
        pure (axname, f, t)) axes with
  | error e => rfl
  | ok sigs =>
    simp only [Except.map, bind, Except.bind]
    rw [foldAxes_ren ha hd]
    cases foldAxes o table g fn boundary fill sigs arr with
    | error e => rfl
    | ok res =>
      simp only [Except.map]
      exact restoreOrder_ren ha hd g arr.dims axes res

end Xgcm.Rename

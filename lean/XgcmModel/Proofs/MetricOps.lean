import XgcmModel.Model.MetricOps
import Mathlib.Algebra.BigOperators.Group.List.Basic
import Mathlib.Algebra.Order.Field.Basic
import Mathlib.Tactic.Ring
import Mathlib.Tactic.Linarith
import Mathlib.Tactic.FieldSimp
/-
  Lemmas for the arithmetic of integrate / average / derivative (C10, C09).
-/
namespace Xgcm

section Comm
variable {M : Type} [AddCommMonoid M]

theorem sum_map_add' {ι : Type} (l : List ι) (a b : ι → M) :
    (l.map (fun j => a j + b j)).sum = (l.map a).sum + (l.map b).sum := by
  induction l with
  | nil => simp
  | cons x r ih => simp only [List.map_cons, List.sum_cons, ih]; exact add_add_add_comm _ _ _ _

/-- double sums over index ranges commute -/
theorem sum_range_comm (n m : Nat) (g : Nat → Nat → M) :
    ((List.range n).map (fun i => ((List.range m).map (fun j => g i j)).sum)).sum =
    ((List.range m).map (fun j => ((List.range n).map (fun i => g i j)).sum)).sum := by
  induction n with
  | zero => simp
  | succ n ih =>
    simp only [List.range_succ, List.map_append, List.sum_append, List.map_cons, List.map_nil,
      List.sum_cons, List.sum_nil, add_zero]
    rw [ih, ← sum_map_add']
end Comm

section Field
variable {K : Type} [Field K]

theorem mem_validCells {K : Type} (cells : List (Option K × K)) (p : K × K) :
    p ∈ validCells cells ↔ (some p.1, p.2) ∈ cells := by
  simp only [validCells, List.mem_filterMap]
  constructor
  · rintro ⟨c, hc, hm⟩
    rcases c with ⟨x, w⟩
    cases x with
    | none => simp at hm
    | some x => simp at hm; subst hm; exact hc
  · intro h; exact ⟨(some p.1, p.2), h, by simp⟩

theorem integrate_const (c : K) (cells : List (K × K)) (h : ∀ p ∈ cells, p.1 = c) :
    integrateCells cells = c * (cells.map (·.2)).sum := by
  induction cells with
  | nil => simp [integrateCells]
  | cons p r ih =>
    have hp : p.1 = c := h p (by simp)
    have := ih (fun q hq => h q (by simp [hq]))
    simp only [integrateCells, List.map_cons, List.sum_cons] at this ⊢
    rw [this, hp]; ring

variable [LinearOrder K] [IsStrictOrderedRing K]

theorem integrate_le (hi : K) (cells : List (K × K)) (hw : ∀ p ∈ cells, 0 ≤ p.2) (h : ∀ p ∈ cells, p.1 ≤ hi) :
    integrateCells cells ≤ hi * (cells.map (·.2)).sum := by
  induction cells with
  | nil => simp [integrateCells]
  | cons p r ih =>
    have := ih (fun q hq => hw q (by simp [hq])) (fun q hq => h q (by simp [hq]))
    simp only [integrateCells, List.map_cons, List.sum_cons] at this ⊢
    have h1 : p.1 * p.2 ≤ hi * p.2 := mul_le_mul_of_nonneg_right (h p (by simp)) (hw p (by simp))
    linarith

theorem integrate_ge (lo : K) (cells : List (K × K)) (hw : ∀ p ∈ cells, 0 ≤ p.2) (h : ∀ p ∈ cells, lo ≤ p.1) :
    lo * (cells.map (·.2)).sum ≤ integrateCells cells := by
  induction cells with
  | nil => simp [integrateCells]
  | cons p r ih =>
    have := ih (fun q hq => hw q (by simp [hq])) (fun q hq => h q (by simp [hq]))
    simp only [integrateCells, List.map_cons, List.sum_cons] at this ⊢
    have h1 : lo * p.2 ≤ p.1 * p.2 := mul_le_mul_of_nonneg_right (h p (by simp)) (hw p (by simp))
    linarith

end Field
end Xgcm

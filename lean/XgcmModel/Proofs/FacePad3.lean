import XgcmModel.Proofs.FacePad2
/-
  C05 helper lemmas, part 3: the per-face loop over both pad axes, in either order.
-/
set_option linter.unusedSimpArgs false
namespace Xgcm

variable {α : Type}

/-- what the X pass leaves in column `i` (first index) given the array `t` before it -/
def xPassCell (c : FPCfg α) (pd pp : Nat → Arr2 α) (f NN : Nat) (t : Arr2 α) (i j : Nat) : α :=
  if i < c.width then
    (match (linksOf c f c.xAxis).1 with
      | some lk => sideStrip c pd pp c.xAxis lk false i j
      | none => t.get i j)
  else if i < NN - c.width then t.get i j
  else
    (match (linksOf c f c.xAxis).2 with
      | some lk => sideStrip c pd pp c.xAxis lk true (i - (NN - c.width)) j
      | none => t.get i j)

def yPassCell (c : FPCfg α) (pd pp : Nat → Arr2 α) (f NN : Nat) (t : Arr2 α) (i j : Nat) : α :=
  if j < c.width then
    (match (linksOf c f c.yAxis).1 with
      | some lk => sideStripT c pd pp c.yAxis lk false i j
      | none => t.get i j)
  else if j < NN - c.width then t.get i j
  else
    (match (linksOf c f c.yAxis).2 with
      | some lk => sideStripT c pd pp c.yAxis lk true i (j - (NN - c.width))
      | none => t.get i j)

/-- the face loop: square result; cells that are interior along Y come from the X pass applied to
    the face's own prepadded array, cells interior along X from the Y pass — whatever the order -/
theorem padFace_cells (c : FPCfg α) (hb : BothAxes c) (pd pp : Nat → Arr2 α) (f NN : Nat)
    (hw : 0 < c.width) (hNN : 2 * c.width ≤ NN)
    (hpd : ∀ g, Square NN (pd g)) (hpp : ∀ g, Square NN (pp g)) :
    Square NN (padFace c pd pp f) ∧
    (∀ i j, i < NN → c.width ≤ j → j < NN - c.width →
      (padFace c pd pp f).get i j = xPassCell c pd pp f NN (pd f) i j) ∧
    (∀ i j, j < NN → c.width ≤ i → i < NN - c.width →
      (padFace c pd pp f).get i j = yPassCell c pd pp f NN (pd f) i j) := by
  obtain ⟨hne, ho | ho⟩ := hb
  · -- X first, then Y
    have hne' : ¬ (c.yAxis = c.xAxis) := fun h => hne h.symm
    have e : padFace c pd pp f =
        padAxisOfFace c pd pp f c.yAxis (padAxisOfFace c pd pp f c.xAxis (pd f)) := by
      simp [padFace, ho]
    obtain ⟨s1, g1⟩ := padAxis_X c pd pp f (pd f) NN hw hNN (hpd f) hpd hpp
    obtain ⟨s2, g2⟩ := padAxis_Y c pd pp f _ NN hw hne hNN s1 hpd hpp
    rw [e]
    refine ⟨s2, ?_, ?_⟩
    · intro i j hi hj1 hj2
      have hj : j < NN := by omega
      have h1 : ¬ (j < c.width) := by omega
      rw [g2 i j hj]
      simp only [h1, if_false, hj2, if_true]
      rw [g1 i j hi]
      rfl
    · intro i j hj hi1 hi2
      have hi : i < NN := by omega
      have h1 : ¬ (i < c.width) := by omega
      rw [g2 i j hj]
      unfold yPassCell
      have hin : (padAxisOfFace c pd pp f c.xAxis (pd f)).get i j = (pd f).get i j := by
        rw [g1 i j hi]; simp only [h1, if_false, hi2, if_true]
      simp only [hin]
      rfl
  · -- Y first, then X
    have e : padFace c pd pp f =
        padAxisOfFace c pd pp f c.xAxis (padAxisOfFace c pd pp f c.yAxis (pd f)) := by
      simp [padFace, ho]
    obtain ⟨s1, g1⟩ := padAxis_Y c pd pp f (pd f) NN hw hne hNN (hpd f) hpd hpp
    obtain ⟨s2, g2⟩ := padAxis_X c pd pp f _ NN hw hNN s1 hpd hpp
    rw [e]
    refine ⟨s2, ?_, ?_⟩
    · intro i j hi hj1 hj2
      have hj : j < NN := by omega
      have h1 : ¬ (j < c.width) := by omega
      rw [g2 i j hi]
      unfold xPassCell
      have hin : (padAxisOfFace c pd pp f c.yAxis (pd f)).get i j = (pd f).get i j := by
        rw [g1 i j hj]; simp only [h1, if_false, hj2, if_true]
      simp only [hin]
      rfl
    · intro i j hj hi1 hi2
      have hi : i < NN := by omega
      have h1 : ¬ (i < c.width) := by omega
      rw [g2 i j hi]
      simp only [h1, if_false, hi2, if_true]
      rw [g1 i j hj]
      rfl

end Xgcm

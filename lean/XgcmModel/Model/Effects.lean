import XgcmModel.Model.Basic
/-
  Caller-visible effects: a store of caller-owned objects (identified by name, with a version
  counter) and, per statement found by the translator's taint analysis, the object it writes.
-/
namespace Xgcm

/-- a write site found by `tools/extract.py`: (module, function, line, kind, target) -/
abbrev WriteSite := String × String × Nat × String × String

/-- caller-owned objects with a version that every in-place write bumps -/
abbrev Store := List (String × Nat)

def bump (s : Store) (obj : String) : Store :=
  s.map (fun e => if e.1 == obj then (e.1, e.2 + 1) else e)

/-- one call of an entry point executes (at most) the write sites reachable from it -/
def callEffect (sites : List WriteSite) (s : Store) : Store :=
  sites.foldl (fun acc w => bump acc w.2.2.2.2) s

/-- a history of calls -/
def runCalls (sites : List WriteSite) (n : Nat) (s : Store) : Store :=
  (List.range n).foldl (fun acc _ => callEffect sites acc) s

end Xgcm

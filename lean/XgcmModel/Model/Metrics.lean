import XgcmModel.Model.Basic
/-
  Metric registry (`Grid.set_metrics`, xgcm/grid.py:391-433), partition enumeration
  (`iterate_axis_combinations`, xgcm/metrics.py) and metric selection
  (`Grid.get_metric`, xgcm/grid.py:453-534).
  Sets (frozenset keys, `set(dims)`) are lists compared by mutual inclusion.
-/
namespace Xgcm

def sameSet (a b : List String) : Bool := a.all (b.contains ·) && b.all (a.contains ·)
def subSet (a b : List String) : Bool := a.all (b.contains ·)

/-- a registered metric variable: its name in the dataset and its dimensions -/
structure MVar where
  name : String
  dims : List String
  deriving DecidableEq, Repr, Inhabited

/-- `_metrics`: axis set ↦ list of variables, in dict insertion order -/
abbrev Registry := List (List String × List MVar)

def Registry.find? (r : Registry) (key : List String) : Option (List MVar) :=
  (List.find? (fun (e : List String × List MVar) => sameSet e.1 key) r).map (·.2)

def Registry.set (r : Registry) (key : List String) (v : List MVar) : Registry :=
  if r.any (fun e => sameSet e.1 key) then
    r.map (fun e => if sameSet e.1 key then (e.1, v) else e)
  else r ++ [(key, v)]

/-- one variable into the list of an existing axis set -/
def regOne (lst : List MVar) (v : MVar) (overwrite : Bool) : Except Err (List MVar) :=
  if lst.any (fun ve => sameSet ve.dims v.dims) then
    if overwrite then .ok (lst.map (fun ve => if sameSet ve.dims v.dims then v else ve))
    else .error .value
  else .ok (lst ++ [v])

/-- several variables, one after the other; a refusal stops the call but keeps what was done -/
def regMany (lst : List MVar) (vs : List MVar) (overwrite : Bool) : List MVar × Option Err :=
  match vs with
  | [] => (lst, none)
  | v :: rest =>
    match regOne lst v overwrite with
    | .ok lst' => regMany lst' rest overwrite
    | .error e => (lst, some e)

/-- `set_metrics(key, value, overwrite)`; `dsVars`: the variables of the dataset -/
def setMetrics (gridAxes : List String) (dsVars : List MVar) (r : Registry) (key : List String)
    (names : List String) (overwrite : Bool) : Registry × Option Err :=
  if ¬ key.all (gridAxes.contains ·) then (r, some .key) else
  match names.mapM (fun n => dsVars.find? (fun v => v.name == n)) with
  | none => (r, some .key)
  | some vs =>
    match r.find? key with
    | some lst =>
      let (lst', e) := regMany lst vs overwrite
      (r.set key lst', e)
    | none => (r.set key vs, none)

/-! ### partitions -/

def combinations : Nat → List String → List (List String)
  | 0, _ => [[]]
  | _ + 1, [] => []
  | k + 1, x :: xs => (combinations k xs).map (x :: ·) ++ combinations (k + 1) xs

/-- `iterate_axis_combinations(items)`, enumeration in the order of `items` -/
def axisCombinations (items : List String) : List (List (List String)) :=
  let n := items.length
  [[items]] ++
  (((List.range (n - 1)).map (fun i => n - 1 - i)).flatMap (fun nleft =>
    let nright := n - nleft
    ((List.range (min nright nleft)).map (fun i => min nright nleft - i)).flatMap (fun subLoop =>
      (combinations nleft items).map (fun these =>
        let those := items.filter (fun i => !these.contains i)
        these :: combinations subLoop those))))

/-! ### selection -/

/-- what `get_metric` returns: the factors of the product, each a registered variable taken
    as it is (`false`) or interpolated to the array's position (`true`) -/
abbrev Selection := List (MVar × Bool)

def pickFactor (arrayDims : List String) (cands : List MVar) : Option (MVar × Bool) :=
  match cands.find? (fun mv => subSet mv.dims arrayDims) with
  | some mv => some (mv, false)
  | none => cands.getLast?.map (fun mv => (mv, true))

/-- `_get_dims_from_axis(array, frozenset(axes))`: every axis must be a grid axis (KeyError) with
    exactly one of its dimensions on the array (ValueError) -/
def axesCheck (axisDims : List (String × List String)) (arrayDims axes : List String) : Option Err :=
  axes.eraseDups.findSome? (fun ax =>
    match alookup ax axisDims with
    | none => some Err.key
    | some ds => if (ds.filter (arrayDims.contains ·)).length ≠ 1 then some Err.value else none)

/-- the selection proper -/
def selectMetric (r : Registry) (arrayDims axes : List String) : Except Err Selection :=
  match r.find? axes with
  | some cands =>
    match pickFactor arrayDims cands with
    | some f => .ok [f]
    | none => .error .key
  | none =>
    match (axisCombinations axes.eraseDups).findSome? (fun comb =>
        comb.mapM (fun block => (r.find? block).bind (pickFactor arrayDims))) with
    | some sel => .ok sel
    | none => .error .key

/-- `get_metric(array, axes)`; `axisDims ax`: all dimension names of grid axis `ax` -/
def getMetric (axisDims : List (String × List String)) (r : Registry) (arrayDims : List String)
    (axes : List String) : Except Err Selection :=
  match axesCheck axisDims arrayDims axes with
  | some e => .error e
  | none => selectMetric r arrayDims axes

end Xgcm

import XgcmModel.Model.Stencil
namespace Xgcm
/-- the instantiation the driver runs: exact rationals -/
def ratOps : Ops Rat :=
  { add := (· + ·), sub := (· - ·), mul := (· * ·), divNat := fun x k => x / (k : Rat),
    min := fun a b => if a ≤ b then a else b, max := fun a b => if a ≤ b then b else a,
    zero := 0 }
end Xgcm

import XgcmModel.Model.Grid
/-
  The refusals at the top of `xgcm.transform.transform` (xgcm/transform.py:368-385, 468-473).
-/
namespace Xgcm

variable {α : Type}

inductive TMethod where | linear | log | conservative
  deriving DecidableEq, Repr

/-- what `transform` checks before doing anything: the axis must not be periodic; the
    conservative method needs an `outer` position on the axis -/
def transformGuards (ax : AxisM α) (method : TMethod) : Res Unit :=
  if ax.boundary = .periodic then .error .value
  else if method = .conservative ∧ (alookup Pos.outer ax.coords).isNone then .error .runtime
  else .ok ()

/-! ### naming (`_parse_target`, `_target_data_name_handling`, `input_handling`) -/

/-- how the target levels are given: a bare array, a DataArray with one dimension, or a DataArray
    with several dimensions (which needs `target_dim`) -/
inductive TargetKind where
  | bare
  | oneDim (dim : String)
  | manyDim
  deriving DecidableEq, Repr

/-- name of `target_data` as `transform` sees it: when none is given, the grid dataset's coordinate
    of the array's position along the axis (named like its dimension); an anonymous one is called
    TRANSFORMED_DIMENSION (on a copy) -/
def targetDataName (given : Option (Option String)) (axisDim : String) : String :=
  match given with
  | none => axisDim
  | some none => "TRANSFORMED_DIMENSION"
  | some (some n) => n

/-- the name of the new dimension: `target_dim` if given, else the target's own dimension, else
    (bare array) the name of `target_data`; `none`: a many-dimensional target without `target_dim` -/
def transformDimName (target : TargetKind) (targetDim : Option String) (tdata : Option (Option String))
    (axisDim : String) : Option String :=
  match targetDim with
  | some d => some d
  | none =>
    match target with
    | .oneDim d => some d
    | .manyDim => none
    | .bare => some (targetDataName tdata axisDim)

/-- the name of the result: the input's name plus the suffix (default `_transformed`); an anonymous
    input gives an anonymous result -/
def transformResultName (input : Option String) (suffix : Option String) : Option String :=
  match input with
  | none => none
  | some n => if n = "" then none else some (n ++ suffix.getD "_transformed")

end Xgcm

import XgcmModel.Model.Grid
/-
  The refusals at the top of `xgcm.transform.transform` (xgcm/transform.py:368-385, 468-473).
-/
namespace Xgcm

variable {α : Type}

inductive TMethod where | linear | log | conservative
  deriving DecidableEq, Repr

/-- what `transform` checks before doing anything: the axis must not be periodic; the
    conservative method needs an `outer` position on the axis -/
def transformGuards (ax : AxisM α) (method : TMethod) : Res Unit :=
  if ax.boundary = .periodic then .error .value
  else if method = .conservative ∧ (alookup Pos.outer ax.coords).isNone then .error .runtime
  else .ok ()

end Xgcm

import XgcmModel.Model.Basic
/-
  Arithmetic of the metric-aware reductions: `Grid.integrate` (xgcm/grid.py: `(da * weight).sum(dim)`),
  `Grid.average` (`da.weighted(weight).mean(dim)`), `Grid.derivative` (`diff / get_metric(diff, (axis,))`),
  `Grid.cumint` (`cumsum(da * weight)`) and the `metric_weighted` option of the dispatcher
  (`op(da * metric_from) / metric_to`).  WHICH metric is applied is the business of `Model/Metrics.lean`;
  here a metric is what it has become after selection, interpolation and broadcasting: one weight per cell.
  Generic over the value type: only + × ÷ and 0 are used.
-/
namespace Xgcm

variable {α : Type} [Add α] [Mul α] [Div α] [Zero α]

/-- one output point of `integrate`: Σ data·metric over the cells that are reduced into it -/
def integrateCells (cells : List (α × α)) : α := (cells.map (fun c => c.1 * c.2)).sum

/-- the cells with data (`DataArray.weighted` masks the weights where the data are missing) -/
def validCells (cells : List (Option α × α)) : List (α × α) :=
  cells.filterMap (fun c => c.1.map (fun x => (x, c.2)))

/-- one output point of `average`: Σ data·metric / Σ metric, both over the cells that have data -/
def averageCells (cells : List (Option α × α)) : α :=
  integrateCells (validCells cells) / ((validCells cells).map (·.2)).sum

/-- `derivative`: the difference divided by the metric at the RESULT's position -/
def derivativeLine (diffs metricAtResult : List α) : List α := List.zipWith (· / ·) diffs metricAtResult

/-- `metric_weighted`: the operation on data × metric, divided by the metric at the result's position -/
def weightedOpLine (op : List α → List α) (data metricFrom metricTo : List α) : List α :=
  List.zipWith (· / ·) (op (List.zipWith (· * ·) data metricFrom)) metricTo

/-- `cumint`: cumsum (whatever shift and boundary rule `cs` stands for) of data × metric -/
def cumintLine (cs : List α → List α) (data metric : List α) : List α :=
  cs (List.zipWith (· * ·) data metric)

/-- integrate over two axes, reducing the second axis first … -/
def integrate2 (n m : Nat) (f w : Nat → Nat → α) : α :=
  ((List.range n).map (fun i => ((List.range m).map (fun j => f i j * w i j)).sum)).sum

/-- … or the first axis first -/
def integrate2' (n m : Nat) (f w : Nat → Nat → α) : α :=
  ((List.range m).map (fun j => ((List.range n).map (fun i => f i j * w i j)).sum)).sum

end Xgcm

import XgcmModel.Model.Dispatch
/-
  `Grid.interp_like` (xgcm/grid.py:536-603): bring `array` to the grid positions of `like`, axis by axis,
  going through the cell centre when both positions are cell faces; used by `get_metric` (with the rule
  "extend") for metrics that are not registered at the array's position.  Expressed with the dispatcher model
  (`dispatch "interp"`), which C01/C02 tie to the code.
-/
namespace Xgcm

variable {α : Type}

/-- per grid axis (in grid order) on which BOTH arrays have a dimension and the positions differ:
    (axis name, position of the array, position of `like`) -/
def interpLikeMoves (g : GridM α) (arrDims likeDims : List String) : List (String × Pos × Pos) :=
  g.axes.filterMap (fun ax =>
    match ax.positionName arrDims, ax.positionName likeDims with
    | .ok pa, .ok pl => if pa.1 != pl.1 then some (ax.name, pa.1, pl.1) else none
    | _, _ => none)          -- "except KeyError: continue"

/-- axes that have to go through the centre first (face -> face) -/
def viaCenter (moves : List (String × Pos × Pos)) : List String :=
  (moves.filter (fun m => m.2.1 != .center && m.2.2 != .center)).map (·.1)

def interpLike (o : Ops α) (table : List UfuncEntry) (g : GridM α) (arr : NDArr α) (likeDims : List String)
    (boundary : KW String) (fill : KW α) : Res (NDArr α) :=
  let moves := interpLikeMoves g arr.dims likeDims
  let via := viaCenter moves
  match (if via.isEmpty then .ok arr
         else dispatch o table g "interp" arr via (.scalar "center") boundary fill) with
  | .error e => .error e
  | .ok a1 =>
    dispatch o table g "interp" a1 (moves.map (·.1))
      (.dict (moves.map (fun m => (m.1, m.2.2.toString)))) boundary fill

end Xgcm

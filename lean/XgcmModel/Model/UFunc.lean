import XgcmModel.Model.Boundary
/-
  `apply_as_grid_ufunc` (xgcm/grid_ufunc.py:561-819) up to the point where the user
  function is called (what it receives) and from its return (where the outputs live);
  `_identify_dummy_axes_with_real_axes` (1082-1109), `_substitute_dummy_axis_names` (861-873),
  option binding of `GridUFunc.__call__` (436-460).
-/
namespace Xgcm

variable {α : Type}

/-- keep first occurrences (`list(dict.fromkeys(xs))`) -/
def dedupAux (seen : List String) : List String → List String
  | [] => []
  | x :: xs => if seen.contains x then dedupAux seen xs else x :: dedupAux (x :: seen) xs

def dedup (l : List String) : List String := dedupAux [] l

/-- a signature with `String` names: per argument the (dummy name, position) pairs -/
structure USig where
  ins : List (List (String × Pos))
  outs : List (List (String × Pos))

/-- `_identify_dummy_axes_with_real_axes` -/
def identifyAxes (sigIn : List (List String)) (axis : List (List String)) :
    Except Err (List (String × String)) :=
  if axis.length ≠ sigIn.length then .error .value
  else if (List.zip axis sigIn).any (fun p => p.1.length != p.2.length) then .error .value
  else
    let ud := dedup sigIn.flatten
    let ur := dedup axis.flatten
    if ud.length ≠ ur.length then .error .value else .ok (ud.zip ur)

/-- dummy → real renaming of the entries of `boundary_width`, `none` on an unknown dummy name -/
def substList (m : List (String × String)) : List (String × Nat × Nat) → Option (List (String × Nat × Nat))
  | [] => some []
  | w :: rest =>
    match alookup w.1 m, substList m rest with
    | some r, some ws => some ((r, w.2) :: ws)
    | _, _ => none

/-- `_substitute_dummy_axis_names` -/
def substituteWidths (bw : Option (List (String × Nat × Nat))) (m : List (String × String)) :
    Except Err (List (String × Nat × Nat)) :=
  match bw with
  | some l =>
    if l.isEmpty then .ok ((m.map (·.2)).map (fun r => (r, 0, 0)))   -- `if boundary_width:` is falsy for {}
    else match substList m l with
      | some ws => .ok ws
      | none => .error .key
  | none => .ok ((m.map (·.2)).map (fun r => (r, 0, 0)))

/-- dimension of (axis, position), KeyError if the grid has no such axis / position -/
def dimOf (g : GridM α) (ax : String) (p : Pos) : Except Err String :=
  match g.axis? ax with
  | none => .error .key
  | some a => match alookup p a.coords with
    | some d => .ok d
    | none => .error .key

/-- what the wrapped function is handed, and where its outputs are put -/
structure UCall (α : Type) where
  received : List (NDArr α)
  outDims : List (List String)      -- per output: its core dimensions (target positions)

/-- "Check that input args are in correct grid positions": every (axis, position) the signature
    names for input i must exist in the grid and its dimension must be on input i -/
def positionsOk (g : GridM α) (axis : List (List String)) (inPos : List (List Pos))
    (argDims : List (List String)) : Bool :=
  (List.zip (List.zip axis inPos) argDims).all (fun t =>
    (List.zip t.1.1 t.1.2).all (fun np =>
      match dimOf g np.1 np.2 with
      | .error _ => false
      | .ok d => t.2.contains d))

/-- one input as the wrapped function receives it: padded (if padding comes first), core
    dimensions moved to the end in signature order -/
def receivedOf (g : GridM α) (arg : NDArr α) (core : List String)
    (widths : List (String × Nat × Nat)) (boundary : KW String) (fill : KW α) (padBefore : Bool) :
    Except Err (NDArr α) :=
  match (if padBefore then padGrid g arg widths boundary fill else .ok arg) with
  | .error e => .error e
  | .ok padded => .ok (padded.transposeTo (padded.dims.filter (fun d => !core.contains d) ++ core))

def applyGridUfunc (g : GridM α) (sig : USig) (args : List (NDArr α)) (axis : List (List String))
    (bw : Option (List (String × Nat × Nat))) (boundary : KW String) (fill : KW α)
    (padBefore : Bool) : Except Err (UCall α) := do
  if args.length ≠ axis.length then throw Err.value
  let m ← identifyAxes (sig.ins.map (fun a => a.map (·.1))) axis
  -- real names of the output axes (KeyError for an output dummy that no input carries)
  let outNames ← sig.outs.mapM (fun a => a.mapM (fun np => match alookup np.1 m with
    | some r => Except.ok r | none => .error Err.key))
  let inPos := sig.ins.map (fun a => a.map (·.2))
  if ¬ positionsOk g axis inPos (args.map (·.dims)) then throw Err.value
  let inCore ← (List.zip axis inPos).mapM (fun ap =>
    (List.zip ap.1 ap.2).mapM (fun np => dimOf g np.1 np.2))
  let outCore ← (List.zip outNames (sig.outs.map (fun a => a.map (·.2)))).mapM (fun ap =>
    (List.zip ap.1 ap.2).mapM (fun np => dimOf g np.1 np.2))
  let widths ← substituteWidths bw m
  let received ← (List.zip args inCore).mapM (fun ac =>
    receivedOf g ac.1 ac.2 widths boundary fill padBefore)
  pure { received := received, outDims := outCore }

/-- `GridUFunc.__call__`: effective option = call-time value if given, else definition-time value -/
def effective {β : Type} (callTime : Option β) (bound : β) : β := callTime.getD bound

end Xgcm

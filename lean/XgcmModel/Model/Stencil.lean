import XgcmModel.Model.Pad1D
/-
  Bodies of the predefined grid ufuncs of xgcm/gridops.py as a tiny
  expression language.  `tools/extract.py` translates each function body
  (after inlining the one-level helper call) into an `Expr`; anything it
  does not recognise becomes `Expr.opaque <source>`.
-/
namespace Xgcm

/-- the arithmetic the ufunc bodies use, as an explicit record so that the
    model is import-free and the theorems can instantiate it with any field -/
structure Ops (α : Type) where
  add : α → α → α
  sub : α → α → α
  mul : α → α → α
  divNat : α → Nat → α
  min : α → α → α
  max : α → α → α
  zero : α

inductive Expr where
  | arg                       -- the (padded) input `a`, last axis
  | tail (e : Expr)           -- e[..., 1:]
  | init (e : Expr)           -- e[..., :-1]
  | sub (a b : Expr)          -- a - b
  | add (a b : Expr)          -- a + b
  | divNat (a : Expr) (k : Nat)   -- a / k.0
  | pmin (l r : Expr)         -- np.min(np.stack([l, r], axis=-1), axis=-1)
  | pmax (l r : Expr)         -- np.max(np.stack([l, r], axis=-1), axis=-1)
  | cumsum (e : Expr)         -- np.cumsum(e, axis=-1)
  | raiseNotImpl              -- raise NotImplementedError
  | opaque (src : String)     -- not recognised by the extractor
  deriving DecidableEq, Repr, Inhabited

variable {α : Type}

def zipSame (op : α → α → α) (a b : List α) : Option (List α) :=
  if a.length = b.length then some (List.zipWith op a b) else none

def runningSum (o : Ops α) : α → List α → List α
  | _, [] => []
  | acc, x :: r => o.add acc x :: runningSum o (o.add acc x) r

def Expr.eval (o : Ops α) : Expr → List α → Option (List α)
  | .arg, l => some l
  | .tail e, l => (e.eval o l).map List.tail
  | .init e, l => (e.eval o l).map List.dropLast
  | .sub a b, l => do zipSame o.sub (← a.eval o l) (← b.eval o l)
  | .add a b, l => do zipSame o.add (← a.eval o l) (← b.eval o l)
  | .divNat a k, l => (a.eval o l).map (List.map (fun x => o.divNat x k))
  | .pmin a b, l => do zipSame o.min (← a.eval o l) (← b.eval o l)
  | .pmax a b, l => do zipSame o.max (← a.eval o l) (← b.eval o l)
  | .cumsum e, l => (e.eval o l).map (runningSum o o.zero)
  | .raiseNotImpl, _ => none
  | .opaque _, _ => none

/-- the four two-point operators, as functions of (left value, right value) -/
inductive Func where
  | diff | interp | min | max
  deriving DecidableEq, Repr, Inhabited

def Func.toString : Func → String
  | .diff => "diff" | .interp => "interp" | .min => "min" | .max => "max"
def Func.ofString? : String → Option Func
  | "diff" => some .diff | "interp" => some .interp | "min" => some .min
  | "max" => some .max | _ => none

/-- what the documentation says each operator computes from the two
    neighbours (left, right) of the target point -/
def Func.op (o : Ops α) : Func → α → α → α
  | .diff => fun l r => o.sub r l
  | .interp => fun l r => o.divNat (o.add l r) 2
  | .min => fun l r => o.min l r
  | .max => fun l r => o.max l r

/-- the body each operator's ufuncs are expected to have (normal form) -/
def Func.canonicalBody : Func → Expr
  | .diff => .sub (.tail .arg) (.init .arg)
  | .interp => .divNat (.add (.init .arg) (.tail .arg)) 2
  | .min => .pmin (.init .arg) (.tail .arg)
  | .max => .pmax (.init .arg) (.tail .arg)

/-- one predefined grid ufunc of gridops.py -/
structure UfuncEntry where
  name : String
  from_ : Pos
  to_ : Pos
  lo : Nat
  hi : Nat
  body : Expr
  deriving DecidableEq, Repr, Inhabited

end Xgcm

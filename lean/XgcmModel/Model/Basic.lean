/-
  Basic vocabulary shared by every model file.  Import-free (core Lean only),
  executable.  Mirrors: xgcm/axis.py (positions, fallback shifts), the
  boundary words of xgcm/padding.py.
-/
namespace Xgcm

inductive Pos where
  | center | left | right | inner | outer
  deriving DecidableEq, Repr, Inhabited

inductive Rule where
  | periodic | fill | extend
  deriving DecidableEq, Repr, Inhabited

def Pos.all : List Pos := [.center, .left, .right, .inner, .outer]

def Pos.toString : Pos → String
  | .center => "center" | .left => "left" | .right => "right"
  | .inner => "inner" | .outer => "outer"

def Pos.ofString? : String → Option Pos
  | "center" => some .center | "left" => some .left | "right" => some .right
  | "inner" => some .inner | "outer" => some .outer | _ => none

def Rule.toString : Rule → String
  | .periodic => "periodic" | .fill => "fill" | .extend => "extend"

def Rule.ofString? : String → Option Rule
  | "periodic" => some .periodic | "fill" => some .fill | "extend" => some .extend
  | _ => none

instance : ToString Pos := ⟨Pos.toString⟩
instance : ToString Rule := ⟨Rule.toString⟩

/-- number of points of a position on an axis with `n` cells -/
def Pos.len (n : Nat) : Pos → Nat
  | .center => n | .left => n | .right => n | .inner => n - 1 | .outer => n + 1

/-- the 8 centre<->face shifts -/
def validShift (f t : Pos) : Bool :=
  (f == .center && t != .center) || (f != .center && t == .center)

/-- outcome of a request: an answer or a refusal with the Python exception class -/
inductive Err where
  | key | value | type | notImpl | index | runtime | import_ | other
  deriving DecidableEq, Repr, Inhabited

def Err.toString : Err → String
  | .key => "KeyError" | .value => "ValueError" | .type => "TypeError"
  | .notImpl => "NotImplementedError" | .index => "IndexError"
  | .runtime => "RuntimeError" | .import_ => "ImportError" | .other => "other"

instance : ToString Err := ⟨Err.toString⟩

abbrev Res (α : Type) := Except Err α

/-- association-list lookup -/
def alookup {κ ν : Type} [DecidableEq κ] (k : κ) : List (κ × ν) → Option ν
  | [] => none
  | (k', v) :: r => if k = k' then some v else alookup k r

def akeys {κ ν : Type} (l : List (κ × ν)) : List κ := l.map (·.1)

end Xgcm

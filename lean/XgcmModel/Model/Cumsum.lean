import XgcmModel.Model.Dispatch
/-
  `Grid.cumsum` (xgcm/grid.py:1051-1193): xarray cumsum along the dimension,
  per-shift trim, `pad` with the per-shift width, rename in place.
  The (from, to) ↦ (trim?, widths) table is regenerated from the if/elif chain.
-/
namespace Xgcm

variable {α : Type}

abbrev CumsumTable := List ((Pos × Pos) × (Bool × Nat × Nat))

/-- one line: running sum, optional trim of the last value, pad -/
def cumsumLine (o : Ops α) (table : CumsumTable) (f t : Pos) (rule : Rule) (fill : α)
    (xs : List α) : Res (List α) :=
  match alookup (f, t) table with
  | none => .error .value
  | some (trim, lo, hi) =>
    let rs := runningSum o o.zero xs
    let rs' := if trim then rs.dropLast else rs
    .ok (pad1d rule fill lo hi rs')

namespace NDArr
/-- replace dimension `k` in place by `f` of every line -/
def mapLinesL (a : NDArr α) (k : Nat) (newdim : String) (m : Nat) (f : List α → List α)
    (dflt : α) : NDArr α :=
  { dims := a.dims.set k newdim
    shape := a.shape.set k m
    get := fun idx => (f (a.line k idx)).getD (idx.getD k 0) dflt }
end NDArr

/-- `Grid.cumsum` for one axis (without metric weighting) -/
def cumsumAxis (o : Ops α) (table : CumsumTable) (g : GridM α) (origDims : List String)
    (axname : String) (to : KW String) (boundary : KW String) (fill : KW α) (arr : NDArr α) :
    Res (NDArr α) := do
  let ax ← match g.axis? axname with | some a => pure a | none => throw Err.key
  -- position and dim are read off the ORIGINAL input (`da`), not the running `data`
  let (f, d) ← ax.positionName origDims
  let toWord : Option String ← match to with
    | .none => pure none
    | .scalar w => pure (some w)
    | .dict m => match alookup axname m with | some w => pure (some w) | none => throw Err.key
  let k ← match arr.dimIdx d with | some k => pure k | none => throw Err.value
  let t ← match toWord with
    | none => match alookup f ax.defaultShifts with | some t => pure t | none => throw Err.key
    | some w => match Pos.ofString? w with
      | some t => pure t
      | none => throw Err.value
  let (trim, lo, hi) ← match alookup (f, t) table with
    | some e => pure e | none => throw Err.value
  let fillv := fillInForceCall ax fill
  if ¬ boundaryWordsOk g boundary then throw Err.value
  let rule ← if lo = 0 ∧ hi = 0 then pure Rule.periodic else
    match ruleInForceCall ax boundary with | some r => pure r | none => throw Err.key
  let dnew ← match alookup t ax.coords with | some d => pure d | none => throw Err.key
  let n := arr.shape.getD k 0
  let m := (if trim then n - 1 else n) + lo + hi
  pure (arr.mapLinesL k dnew m
    (fun l => match cumsumLine o table f t rule fillv l with | .ok r => r | .error _ => []) fillv)

def cumsumND (o : Ops α) (table : CumsumTable) (g : GridM α) (arr : NDArr α)
    (axes : List String) (to : KW String) (boundary : KW String) (fill : KW α) : Res (NDArr α) :=
  axes.foldlM (fun a axname => cumsumAxis o table g arr.dims axname to boundary fill a) arr

end Xgcm

import XgcmModel.Model.Basic
/-
  Labelled N-dimensional arrays as (dims, shape, index function).  The
  functional representation makes "along a dimension, for every line"
  definitional; flattening to and from row-major order is done by the
  driver only.
-/
namespace Xgcm

structure NDArr (α : Type) where
  dims : List String
  shape : List Nat
  get : List Nat → α

variable {α : Type}

namespace NDArr

def dimIdx (a : NDArr α) (d : String) : Option Nat :=
  let i := a.dims.idxOf d
  if i < a.dims.length then some i else none

def size (a : NDArr α) (d : String) : Nat :=
  match a.dimIdx d with
  | some i => a.shape.getD i 0
  | none => 0

/-- the 1-D line through index `idx` along axis number `k` -/
def line (a : NDArr α) (k : Nat) (idx : List Nat) : List α :=
  (List.range (a.shape.getD k 0)).map (fun i => a.get (idx.set k i))

/-- xarray.apply_ufunc with one core dim: the core dimension (number `k`) is
    moved to the end, `f` maps every line (length `shape[k]`) to a line of
    length `m`, the new last dimension is called `newdim`. -/
def applyAlong (a : NDArr α) (k : Nat) (newdim : String) (m : Nat)
    (f : List α → List α) (dflt : α) : NDArr α :=
  { dims := a.dims.eraseIdx k ++ [newdim]
    shape := a.shape.eraseIdx k ++ [m]
    get := fun idx =>
      let last := idx.getLastD 0
      let rest := idx.dropLast
      -- index into `a` with position k restored (value irrelevant for `line`)
      let full := (rest.take k) ++ [0] ++ (rest.drop k)
      (f (a.line k full)).getD last dflt }

/-- `transpose(*order)` -/
def transposeTo (a : NDArr α) (order : List String) : NDArr α :=
  { dims := order
    shape := order.map (fun d => a.size d)
    get := fun idx => a.get (a.dims.map (fun d => idx.getD (order.idxOf d) 0)) }

/-- rename one dimension -/
def rename (a : NDArr α) (old new : String) : NDArr α :=
  { a with dims := a.dims.map (fun d => if d = old then new else d) }

/-- all index tuples of a shape in row-major order -/
def allIdx : List Nat → List (List Nat)
  | [] => [[]]
  | n :: r => (List.range n).flatMap (fun i => (allIdx r).map (fun t => i :: t))

def toFlat (a : NDArr α) : List α := (allIdx a.shape).map a.get

def flatOffset : List Nat → List Nat → Nat
  | [], _ => 0
  | _, [] => 0
  | _ :: sr, i :: ir =>
    i * (sr.foldl (· * ·) 1) + flatOffset sr ir

def ofFlat (dims : List String) (shape : List Nat) (data : Array α) (dflt : α) : NDArr α :=
  { dims := dims, shape := shape
    get := fun idx => data.getD (flatOffset shape idx) dflt }

/-- force the index function into a table (used by the driver between steps so
    that evaluation stays linear) -/
def materialize (a : NDArr α) (dflt : α) : NDArr α :=
  ofFlat a.dims a.shape (a.toFlat.toArray) dflt

end NDArr
end Xgcm

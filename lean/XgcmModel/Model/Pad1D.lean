import XgcmModel.Model.Basic
/-
  One-dimensional padding = numpy / xarray `pad` with modes
  wrap / constant / edge, as selected by
  `_XGCM_BOUNDARY_KWARG_TO_XARRAY_PAD_KWARG` (xgcm/padding.py:15-20) and
  applied by `_pad_basic` (xgcm/padding.py:316-338).
-/
namespace Xgcm

variable {α : Type}

/-- value "at index `i`" of `xs` continued beyond its ends by `rule`.
    periodic: index modulo the length; fill: the constant; extend: clamp. -/
def ext (rule : Rule) (fill : α) (xs : List α) (i : Int) : α :=
  let n : Int := xs.length
  match rule with
  | .periodic => xs.getD (i % n).toNat fill
  | .fill     => if 0 ≤ i ∧ i < n then xs.getD i.toNat fill else fill
  | .extend   => xs.getD (if i < 0 then 0 else if i ≥ n then (n - 1).toNat else i.toNat) fill

/-- `np.pad(xs, (lo, hi), mode)` -/
def pad1d (rule : Rule) (fill : α) (lo hi : Nat) (xs : List α) : List α :=
  (List.range (lo + xs.length + hi)).map (fun (p : Nat) => ext rule fill xs ((p : Int) - (lo : Int)))

/-- `a[..., 1:] ∘ a[..., :-1]` with `op left right` -/
def fwd {β : Type} (op : α → α → β) (l : List α) : List β :=
  List.zipWith op l l.tail

end Xgcm

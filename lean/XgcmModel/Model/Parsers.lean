import XgcmModel.Model.Basic
/-
  Metadata parsers: COMODO decision chain (xgcm/comodo.py:46-143), SGRID padding table and
  node/cell matching on the token list (xgcm/sgrid.py:88-238), convention hierarchy and the
  merge with user kwargs (xgcm/metadata_parsers.py:4-45, xgcm/grid.py:139-183).
-/
namespace Xgcm

/-- a dimension coordinate carrying `axis = <this axis>`: its name, its length and its
    `c_grid_axis_shift` in DOUBLED units (`some (-1)` = -0.5, `some 1` = +0.5, `none` = no attribute) -/
structure CCoord where
  name : String
  len : Nat
  shift2 : Option Int
  deriving DecidableEq, Repr

/-- OrderedDict assignment: keep the place of an existing key, else append -/
def odSet (d : List (Pos × String)) (k : Pos) (v : String) : List (Pos × String) :=
  if d.any (·.1 == k) then d.map (fun e => if e.1 == k then (k, v) else e) else d ++ [(k, v)]

/-- `get_axis_positions_and_coords` (COMODO) -/
def comodoAxis (coords : List CCoord) : Except Err (List (Pos × String)) :=
  if coords.isEmpty then .error .value else
  -- `if not shift`: no attribute, or a shift of 0
  match coords.filter (fun c => c.shift2 == none || c.shift2 == some 0) with
  | [] => .error .value
  | [center] =>
    let n := center.len
    (coords.filter (fun c => c.name != center.name)).foldlM (fun (acc : List (Pos × String)) c =>
      if c.len = n + 1 then .ok (odSet acc .outer c.name)
      else if c.len + 1 = n then .ok (odSet acc .inner c.name)
      else if c.shift2 = some (-1) then
        (if c.len = n then .ok (odSet acc .left c.name) else .error .value)
      else if c.shift2 = some 1 then
        (if c.len = n then .ok (odSet acc .right c.name) else .error .value)
      else .error .value) [(.center, center.name)]
  | _ => .error .value

/-! ### SGRID -/

def padToPos : String → Option Pos
  | "high" => some .left
  | "low" => some .right
  | "both" => some .inner
  | "none" => some .outer
  | _ => none

/-- tokens of `"<cell>: <node> (padding: <pad>) …".replace(":", " ").split()`; for the node
    dimension `node`: the cell dimension and the padding word -/
def sgridMatch (tokens : List String) (node : String) : Except Err (String × String) :=
  match (List.range tokens.length).filter (fun i => tokens.getD i "" == node) with
  | [i] =>
    if i = 0 then .error .index else
    match tokens[i - 1]?, tokens[i + 2]? with
    | some cell, some pad => .ok (cell, pad.replace ")" "")
    | _, _ => .error .index
  | _ => .error .index

def sgridAxis (tokens : List String) (node : String) : Except Err (List (Pos × String)) :=
  match sgridMatch tokens node with
  | .error e => .error e
  | .ok (cell, pad) =>
    match padToPos pad with
    | some p => .ok [(.center, cell), (p, node)]
    | none => .error .key

/-- which axes SGRID announces -/
def sgridAxes (topologyDim : Nat) (hasVertical : Bool) : Except Err (List String) :=
  match topologyDim with
  | 1 => .ok ["X"]
  | 2 => .ok (if hasVertical then ["X", "Y", "Z"] else ["X", "Y"])
  | 3 => .ok ["X", "Y", "Z"]
  | _ => .error .value

/-! ### hierarchy and merge -/

inductive Convention where | sgrid | comodo
  deriving DecidableEq, Repr

/-- SGRID when the dataset declares it, COMODO otherwise -/
def chooseConvention (declaresSgrid : Bool) : Convention := if declaresSgrid then .sgrid else .comodo

/-- merging parsed coords with user coords: both given is a conflict -/
def mergeCoords {β : Type} (user parsed : Option β) : Except Err (Option β) :=
  match user, parsed with
  | some _, some _ => .error .value
  | some u, none => .ok (some u)
  | none, p => .ok p

end Xgcm

import XgcmModel.Model.Basic
/-
  Chunk bookkeeping of the lazy path: `_get_chunk_pattern_for_merging_boundary`
  (xgcm/grid_ufunc.py:1038-1073), the block decomposition that
  `dask.array.map_overlap(func, depth={axis: (lo, hi)}, boundary='none', trim=False)` performs on the
  merged pattern (926-984), `_check_if_length_would_change` (987-1010) and the dask-mode decision of the
  dispatcher (xgcm/grid.py:650-683).
-/
namespace Xgcm

variable {α β : Type}

/-- chunk pattern after merging the pad cells into the first / last chunk -/
def mergeChunks (chunks : List Nat) (lo hi : Nat) : List Nat :=
  match chunks with
  | [] => []
  | [c] => [lo + c + hi]
  | c :: rest => (c + lo) :: (rest.dropLast ++ [rest.getLastD 0 + hi])

/-- a sliding-window function of width d + 1 applied along a line (what every predefined
    ufunc body is after padding by lo + hi = d cells) -/
def sten (d : Nat) (g : List α → β) (l : List α) : List β :=
  (List.range (l.length - d)).map (fun i => g ((l.drop i).take (d + 1)))

/-- what map_overlap computes on the padded line `l` chunked as `mergeChunks chunks lo hi`:
    block j, extended by `lo` cells of its left and `hi` cells of its right neighbour (nothing
    beyond the ends: boundary='none'), is the stretch of `l` that starts at the block's original
    offset and is d = lo + hi cells longer than the original chunk; results are concatenated -/
def blockwise (d : Nat) (g : List α → β) : List Nat → List α → List β
  | [], _ => []
  | c :: cs, l => sten d g (l.take (c + d)) ++ blockwise d g cs (l.drop c)

/-- the window function of a two-point operator (`d` only totalises the look-up; windows of `sten 1`
    always have two cells) -/
def win2 (op : α → α → β) (d : α) (w : List α) : β := op (w.getD 0 d) (w.getD 1 d)

/-- a collection of independent lines (the non-core dimensions, flattened) cut into blocks:
    what dask="parallelized" hands to the kernel one block at a time -/
def splitBy : List Nat → List α → List (List α)
  | [], _ => []
  | c :: cs, l => l.take c :: splitBy cs (l.drop c)

/-- `_check_if_length_would_change`: refuse when the signature mentions a disallowed position -/
def overlapAllowed (disallowed : List String) (positions : List Pos) : Bool :=
  positions.all (fun p => !disallowed.contains p.toString)

/-- dask-related arguments the dispatcher passes for one axis -/
structure DaskMode where
  dask : String
  mapOverlap : Bool
  deriving DecidableEq, Repr

/-- `_1d_grid_ufunc_dispatch`: "parallelized" for dask data, "forbidden" otherwise; when the
    operated dimension is itself chunked: "allowed" and map_overlap unless the operation is cumsum -/
def daskMode (isDask coreChunked : Bool) (funcname : String) : DaskMode :=
  if coreChunked then { dask := "allowed", mapOverlap := funcname != "cumsum" }
  else { dask := if isDask then "parallelized" else "forbidden", mapOverlap := false }

end Xgcm

import XgcmModel.Model.Grid
import XgcmModel.Model.Pad1D
/-
  `Grid.__init__` resolution of periodic / boundary / fill_value into per-axis
  settings (xgcm/grid.py:215-260), `Axis.__init__` defaults and validation
  (xgcm/axis.py:119-131), per-call completion
  (`_complete_user_kwargs_using_axis_defaults`, xgcm/grid.py:296-312) and
  `pad` / `_pad_basic` on a grid without face connections
  (xgcm/padding.py:316-427).
-/
namespace Xgcm

/-- the `periodic` constructor argument -/
inductive PerArg where
  | bool (b : Bool)
  | list (names : List String)
  | dict (m : List (String × Bool))

variable {α : Type}

/-- `periodic_dict` -/
def PerArg.toDict (p : PerArg) (axes : List String) : List (String × Bool) :=
  match p with
  | .bool b => axes.map (fun a => (a, b))
  | .list l => l.map (fun a => (a, true))   -- only the NAMED axes are visited (known finding C02-periodic-list)
  | .dict m => m

/-- boundary word derived from the `periodic` entry of an axis (None when the
    axis is not in `periodic_dict`) -/
def derivedWord (trueWord falseWord : String) : Option Bool → Option String
  | some true => some trueWord
  | some false => some falseWord
  | none => none

/-- what `Grid.__init__` hands to `Axis(boundary=…)` for axis `ax`:
    the grid-level boundary entry if given, otherwise derived from `periodic`
    for the axes `periodic_dict` names, otherwise `None` -/
def ctorBoundaryWord (trueWord falseWord : String) (axes : List String) (per : PerArg)
    (boundary : KW String) (ax : String) : Option String :=
  let given : Option String := match boundary with
    | .none => none
    | .scalar w => some w
    | .dict m => alookup ax m
  match given with
  | some w => some w
  | none => derivedWord trueWord falseWord (alookup ax (per.toDict axes))

/-- `Axis.__init__`: None -> default word; unknown word -> ValueError -/
def axisBoundary (dfltWord : String) (w : Option String) : Res Rule :=
  match Rule.ofString? (w.getD dfltWord) with
  | some r => .ok r
  | none => .error .value

def ctorFill (dflt : α) (fill : KW α) (ax : String) : α :=
  match fill with
  | .none => dflt
  | .scalar v => v
  | .dict m => (alookup ax m).getD dflt

/-- per-axis (rule, fill) of a constructed Grid -/
def ctorResolve (trueWord falseWord dfltWord : String) (dfltFill : α) (axes : List String)
    (per : PerArg) (boundary : KW String) (fill : KW α) (ax : String) : Res (Rule × α) := do
  let r ← axisBoundary dfltWord (ctorBoundaryWord trueWord falseWord axes per boundary ax)
  pure (r, ctorFill dfltFill fill ax)

/-! ### padding -/

namespace NDArr

/-- `da.pad({dim: (lo, hi)}, mode)` along axis number `k` -/
def padAlong (a : NDArr α) (k : Nat) (rule : Rule) (fill : α) (lo hi : Nat) : NDArr α :=
  { dims := a.dims
    shape := a.shape.set k (lo + a.shape.getD k 0 + hi)
    get := fun idx => ext rule fill (a.line k idx) ((idx.getD k 0 : Int) - (lo : Int)) }

end NDArr

/-- one entry of the width mapping, already resolved against the grid -/
structure PadStep (α : Type) where
  k : Nat
  rule : Rule
  fill : α
  lo : Nat
  hi : Nat

/-- `_pad_basic`: one `xarray.pad` per entry of the width mapping, in its order -/
def padSeq (ws : List (PadStep α)) (a : NDArr α) : NDArr α :=
  ws.foldl (fun acc w => acc.padAlong w.k w.rule w.fill w.lo w.hi) a

/-- `pad()` on a simple grid: completion of rule / fill, zero-width short-circuit,
    then `_pad_basic`.  `widths`: the `boundary_width` mapping in its order. -/
def padGrid (g : GridM α) (a : NDArr α) (widths : List (String × Nat × Nat))
    (boundary : KW String) (fill : KW α) : Res (NDArr α) := do
  if ¬ boundaryWordsOk g boundary then throw Err.value else
  if widths.all (fun w => w.2.1 == 0 && w.2.2 == 0) then pure a else
  let steps ← widths.mapM (fun (w : String × Nat × Nat) => do
    let ax ← match g.axis? w.1 with | some x => pure x | none => throw Err.key
    let (_, d) ← ax.positionName a.dims
    let k ← match a.dimIdx d with | some k => pure k | none => throw Err.key
    let word := boundary.resolve ax.name ax.boundary.toString
    let rule ← match Rule.ofString? word with | some r => pure r | none => throw Err.key
    pure ({ k := k, rule := rule, fill := fill.resolve ax.name ax.fill, lo := w.2.1, hi := w.2.2 } : PadStep α))
  pure (padSeq steps a)

end Xgcm

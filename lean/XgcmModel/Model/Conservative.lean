import XgcmModel.Model.Basic
/-
  `_interp_1d_conservative` (xgcm/transform.py:88-132) and the bin check / flip of
  `interp_1d_conservative` (135-181).  NaN target_data values are `none`.
  Generic over the value type: only + − × ÷, <, = and 0 are used.
-/
namespace Xgcm

variable {α : Type} [Add α] [Sub α] [Mul α] [Div α] [LT α] [DecidableLT α] [DecidableEq α]
  [OfNat α 0]

/-- [theta_min, theta_max] of one cell, `none` when both bounds are missing -/
def cellInterval (t1 t2 : Option α) : Option (α × α) :=
  match t1, t2 with
  | none, none => none
  | none, some b => some (b, b)
  | some a, none => some (a, a)
  | some a, some b => if a < b then some (a, b) else some (b, a)

/-- what cell (phi, [lo, hi]) adds to bin [h1, h2]; `isLast`: j == m - 1 -/
def cellToBin (phi lo hi h1 h2 : α) (isLast : Bool) : α :=
  if h1 > hi ∨ h2 < lo then 0
  else if hi = lo then
    (if hi < h2 ∨ isLast then phi else 0)
  else
    let hatMin := if lo < h1 then h1 else lo        -- max(theta_min, theta_hat_1[j])
    let hatMax := if h2 < hi then h2 else hi        -- min(theta_max, theta_hat_2[j])
    ((hatMax - hatMin) / (hi - lo)) * phi

/-- contributions of one cell to all bins; `edges` = increasing bin edges b₀ … b_m -/
def cellRow (phi : α) (iv : Option (α × α)) : List α → List α
  | [] => []
  | [_] => []
  | a :: b :: rest =>
    (match iv with
      | none => 0
      | some (lo, hi) => cellToBin phi lo hi a b rest.isEmpty) :: cellRow phi iv (b :: rest)

def addRows : List α → List α → List α := List.zipWith (· + ·)

/-- the kernel: `output[:] = 0; for i: for j: output[j] += …` -/
def consKernel (phi : List α) (t1 t2 : List (Option α)) (edges : List α) : List α :=
  let zero : List α := List.replicate (edges.length - 1) 0
  (List.zip phi (List.zip t1 t2)).foldl
    (fun acc c => addRows acc (cellRow c.1 (cellInterval c.2.1 c.2.2) edges)) zero

def allAdj (p : α → α → Bool) : List α → Bool
  | [] => true
  | [_] => true
  | a :: b :: r => p a b && allAdj p (b :: r)

/-- `interp_1d_conservative`: monotonicity check and flip.  `theta` has one more entry than `phi`. -/
def interp1dConservative (phi : List α) (theta : List (Option α)) (bins : List α) : Res (List α) :=
  if phi.length + 1 ≠ theta.length then .error .other else      -- `assert`
  let dec := allAdj (fun a b => decide (b < a)) bins             -- all(np.diff(bins) < 0)
  let inc := allAdj (fun a b => decide (a < b)) bins
  if dec then
    .ok (consKernel phi theta.dropLast theta.tail bins.reverse).reverse
  else if inc then
    .ok (consKernel phi theta.dropLast theta.tail bins)
  else .error .value

end Xgcm

import XgcmModel.Model.Basic
/-
  `Grid._assign_face_connections` (xgcm/grid.py:314-389): validation of the
  face-connection table.
-/
namespace Xgcm

/-- (neighbour face, neighbour axis, reverse) -/
abbrev Link := Nat × String × Bool
/-- per face: axis ↦ (left link, right link) -/
abbrev FaceLinks := List (String × (Option Link × Option Link))
abbrev FaceTable := List (Nat × FaceLinks)

def sideOf (pr : Option Link × Option Link) (pos : Nat) : Option (Option Link) :=
  match pos with
  | 0 => some pr.1
  | 1 => some pr.2
  | _ => none

/-- `for … in l: f …` with the first exception propagating -/
def forAllM {β : Type} (l : List β) (f : β → Res Unit) : Res Unit :=
  match l with
  | [] => .ok ()
  | x :: r => match f x with
    | .ok () => forAllM r f
    | .error e => .error e

/-- `check_neighbor(link, position)` for the link of face `fidx` on axis `axis` -/
def checkNeighbor (tbl : FaceTable) (axes : List String) (faces : List Nat)
    (fidx : Nat) (axis : String) (link : Option Link) (position : Nat) : Res Unit :=
  match link with
  | none => .ok ()
  | some (idx, ax, rev) =>
    -- need to swap position if the link is reversed
    let correct := if rev then (if position = 0 then 1 else 0) else position
    match (alookup idx tbl).bind (fun fl => alookup ax fl) |>.bind (fun pr => sideOf pr correct) with
    | none => .error .key                      -- KeyError / IndexError → KeyError
    | some none => .error .type                -- cannot unpack None
    | some (some (idxN, axN, revN)) =>
      if ¬ axes.contains ax then .error .key else
      if ¬ axes.contains axN then .error .key else
      if ¬ faces.contains idx then .error .index else
      if ¬ faces.contains idxN then .error .index else
      if idxN ≠ fidx ∨ axN ≠ axis ∨ revN ≠ rev then .error .value else
      .ok ()

/-- the double loop over faces and axes calling `check_neighbor` on both links -/
def checkAllLinks (tbl : FaceTable) (axes : List String) (faces : List Nat) : Res Unit :=
  forAllM tbl (fun (fe : Nat × FaceLinks) =>
    forAllM fe.2 (fun (ae : String × (Option Link × Option Link)) =>
      match checkNeighbor tbl axes faces fe.1 ae.1 ae.2.1 1 with
      | .ok () => checkNeighbor tbl axes faces fe.1 ae.1 ae.2.2 0
      | .error e => .error e))

/-- `for axis in axis_connections: self.axes[axis]…` -/
def checkAxisKeys (tbl : FaceTable) (axes : List String) : Res Unit :=
  forAllM tbl (fun fe => forAllM fe.2 (fun ae =>
    if axes.contains ae.1 then .ok () else .error .key))

/-- the whole constructor-time validation.  `fcKeys`: keys of the
    `face_connections` argument; `dsDims`: dimensions of the dataset -/
def assignFaceConnections (fcKeys : List String) (dsDims : List String) (tbl : FaceTable)
    (axes : List String) (faces : List Nat) : Res Unit :=
  match fcKeys with
  | [facedim] =>
    if ¬ dsDims.contains facedim then .error .value else
    match checkAllLinks tbl axes faces with
    | .error e => .error e
    | .ok () => checkAxisKeys tbl axes
  | _ => .error .value

end Xgcm

import XgcmModel.Model.Basic
/-
  `_interp_1d_linear` (xgcm/transform.py:15-41): direction test and flip,
  `np.interp`, edge masking.  Finite (non-NaN) target_data; a masked output is `none`.
-/
namespace Xgcm

variable {α : Type} [Add α] [Sub α] [Mul α] [Div α] [LT α] [DecidableLT α] [DecidableEq α]

/-- `np.interp(x, xp, fp)` for increasing `xp`: end values outside, otherwise the segment
    that contains x -/
def npInterpAux (x : α) : List α → List α → Option α
  | [a], [fa] => if x = a then some fa else none
  | a :: b :: xs, fa :: fb :: fs =>
    if x < b then some (((fb - fa) / (b - a)) * (x - a) + fa)
    else npInterpAux x (b :: xs) (fb :: fs)
  | _, _ => none

def npInterp (xp fp : List α) (x : α) : Option α :=
  match xp, fp with
  | [], _ => none
  | _, [] => none
  | a :: _, fa :: _ =>
    if x < a then some fa                                   -- left = fp[0]
    else
      match xp.getLast?, fp.getLast? with
      | some z, some fz =>
        if z < x then some fz                               -- right = fp[-1]
        else if x = z then some fz
        else npInterpAux x xp fp
      | _, _ => none

def listMin [LT α] [DecidableLT α] : List α → Option α
  | [] => none
  | a :: r => some (r.foldl (fun m x => if x < m then x else m) a)

def listMax [LT α] [DecidableLT α] : List α → Option α
  | [] => none
  | a :: r => some (r.foldl (fun m x => if m < x then x else m) a)

/-- one column: `none` at a level = NaN -/
def interp1dLinear (phi theta levels : List α) (maskEdges bypassChecks : Bool) : List (Option α) :=
  let flip : Bool := !bypassChecks &&
    (match theta.head?, theta.getLast? with
     | some f, some l => decide (l < f)
     | _, _ => false)
  let th := if flip then theta.reverse else theta
  let ph := if flip then phi.reverse else phi
  levels.map (fun lev =>
    let v := npInterp th ph lev
    if maskEdges then
      match listMin th, listMax th with
      | some tmin, some tmax => if lev < tmin ∨ tmax < lev then none else v
      | _, _ => v
    else v)

/-- `logarithmic=True` (method 'log'): `theta = np.log(theta); target_theta_levels = np.log(levels)`,
    then the same kernel.  `L` stands for the logarithm; the data are not transformed. -/
def interp1dLog (L : α → α) (phi theta levels : List α) (maskEdges bypassChecks : Bool) : List (Option α) :=
  interp1dLinear phi (theta.map L) (levels.map L) maskEdges bypassChecks

end Xgcm

import XgcmModel.Model.Basic
/-
  Output labelling: `_strip_all_coords` (xgcm/padding.py:60-67), `_reattach_coords`
  (xgcm/grid_ufunc.py:1112-1151), the cumsum path (xgcm/grid.py:1172-1184).
  A coordinate is its name and the dimensions it is defined on; values/attributes travel
  with the name (they are always taken from the grid dataset).
-/
namespace Xgcm

structure CoordM where
  name : String
  dims : List String
  deriving DecidableEq, Repr

/-- `_reattach_coords`: every coordinate of the grid dataset all of whose dimensions are
    dimensions of the result is assigned; unless `keep_coords`, the non-dimension ones are
    dropped again.  Nothing else is on the result: padding stripped the input's coordinates
    (padded path), `exclude_dims` dropped those on the operated dimension (unpadded path),
    cumsum drops all before re-attaching. -/
def reattach (dsCoords : List CoordM) (resDims : List String) (keepCoords : Bool) : List CoordM :=
  (dsCoords.filter (fun c => c.dims.all (resDims.contains ·))).filter
    (fun c => keepCoords || resDims.contains c.name)

/-- result dimensions of a one-axis shift: the operated dimension replaced, others untouched
    (order is C01's business) -/
def shiftDims (dims : List String) (old new : String) : List String :=
  dims.map (fun d => if d = old then new else d)

end Xgcm

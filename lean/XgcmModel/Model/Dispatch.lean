import XgcmModel.Model.Grid
import XgcmModel.Model.Stencil
/-
  `Grid._1d_grid_ufunc_dispatch` (xgcm/grid.py:599-747), `_select_grid_ufunc`
  (xgcm/grid.py:1547-1592) and the single-input single-axis path through
  `apply_as_grid_ufunc` (xgcm/grid_ufunc.py:561-819) with `pad`
  (xgcm/padding.py:341-427) on a grid without face connections.
-/
namespace Xgcm

variable {α : Type}

/-- `_select_grid_ufunc`: name prefix, then signature equivalence
    (for one-axis one-input signatures: same from/to positions) -/
def selectUfunc (table : List UfuncEntry) (funcname : String) (f t : Pos) : Res UfuncEntry :=
  let byName := table.filter (fun e => e.name.startsWith funcname)
  if byName.isEmpty then .error .notImpl else
  match byName.filter (fun e => e.from_ == f && e.to_ == t) with
  | [] => .error .notImpl
  | [e] => .ok e
  | _ => .error .value

/-- pad one line by the entry's widths under `rule`, then run the body -/
def op1d (o : Ops α) (e : UfuncEntry) (rule : Rule) (fill : α) (xs : List α) : Option (List α) :=
  e.body.eval o (pad1d rule fill e.lo e.hi xs)

/-- rule in force for a call on axis `ax`: call argument, else the axis' own.
    `none` = an unknown boundary word (KeyError in `_pad_basic`). -/
def ruleInForceCall (ax : AxisM α) (boundary : KW String) : Option Rule :=
  Rule.ofString? (boundary.resolve ax.name ax.boundary.toString)

def fillInForceCall (ax : AxisM α) (fill : KW α) : α :=
  fill.resolve ax.name ax.fill

/-- one pass of a predefined 1-D ufunc along one axis -/
def stepAxis (o : Ops α) (table : List UfuncEntry) (g : GridM α) (funcname : String)
    (axname : String) (f t : Pos) (boundary : KW String) (fill : KW α)
    (arr : NDArr α) : Res (NDArr α) :=
  match selectUfunc table funcname f t with
  | .error e => .error e
  | .ok e =>
  match g.axis? axname with
  | none => .error .key
  | some ax =>
  -- "Check that input args are in correct grid positions"
  match alookup f ax.coords with
  | none => .error .value
  | some dimIn =>
  match arr.dimIdx dimIn with
  | none => .error .value
  | some k =>
  match alookup t ax.coords with
  | none => .error .key
  | some dimOut =>
  -- pad(): the boundary words of all axes are validated first; then all-zero widths return
  if boundaryWordsOk g boundary = false then .error .value else
  match (if e.lo = 0 ∧ e.hi = 0 then some Rule.periodic else ruleInForceCall ax boundary) with
  | none => .error .key
  | some rule =>
    let fillv := fillInForceCall ax fill
    match op1d o e rule fillv (List.replicate (arr.shape.getD k 0) fillv) with
    | none => .error .notImpl
    | some pl =>
      .ok (arr.applyAlong k dimOut pl.length (fun l => (op1d o e rule fillv l).getD []) fillv)

/-- `_create_1d_grid_ufunc_signatures`: positions are read off the ORIGINAL data -/
def signatureFor (g : GridM α) (dims : List String) (to : KW String) (axname : String) :
    Res (Pos × Pos) := do
  let ax ← match g.axis? axname with | some a => pure a | none => throw Err.key
  let (fromPos, _) ← ax.positionName dims
  let toWord : Option String ← match to with
    | .none => pure none
    | .scalar w => pure (some w)
    | .dict m => match alookup axname m with | some w => pure (some w) | none => throw Err.key
  match toWord with
  | none => match alookup fromPos ax.defaultShifts with
    | some t => pure (fromPos, t)
    | none => throw Err.key
  | some w => match Pos.ofString? w with
    | some t => pure (fromPos, t)
    | none => throw Err.value          -- signature regex rejects the word

def foldAxes (o : Ops α) (table : List UfuncEntry) (g : GridM α) (funcname : String)
    (boundary : KW String) (fill : KW α) :
    List (String × Pos × Pos) → NDArr α → Res (NDArr α)
  | [], arr => pure arr
  | (axname, f, t) :: rest, arr => do
    let arr' ← stepAxis o table g funcname axname f t boundary fill arr
    foldAxes o table g funcname boundary fill rest arr'

/-- `_transpose_to_keep_same_dim_order` -/
def restoreOrder (g : GridM α) (orig : List String) (axes : List String) (res : NDArr α) :
    Res (NDArr α) := do
  let pairs ← axes.mapM (fun axname => do
    let ax ← match g.axis? axname with | some a => pure a | none => throw Err.key
    let (_, old) ← ax.positionName orig
    let (_, new) ← ax.positionName res.dims
    pure (old, new))
  -- later entries of the dict overwrite earlier ones
  let target := orig.map (fun d => (alookup d pairs.reverse).getD d)
  if target.length = res.dims.length ∧ target.all (fun d => res.dims.contains d) then
    pure (res.transposeTo target)
  else throw Err.value

/-- Grid.diff / interp / min / max on a simple grid -/
def dispatch (o : Ops α) (table : List UfuncEntry) (g : GridM α) (funcname : String)
    (arr : NDArr α) (axes : List String) (to : KW String) (boundary : KW String)
    (fill : KW α) : Res (NDArr α) := do
  let sigs ← axes.mapM (fun axname => do
    let (f, t) ← signatureFor g arr.dims to axname
    pure (axname, f, t))
  let res ← foldAxes o table g funcname boundary fill sigs arr
  restoreOrder g arr.dims axes res

end Xgcm

import XgcmModel.Model.Topology
import XgcmModel.Model.Pad1D
/-
  `_pad_face_connections` (xgcm/padding.py:70-313), step by step, at index
  level.  A face is a 2-D functional array over the two horizontal dimensions
  (first index: the dimension of the grid's first horizontal axis `X`, second:
  of `Y`); every other dimension (extra dims) lives inside the cell type `α`
  (all steps act pointwise on it; `neg` is the only arithmetic).
-/
namespace Xgcm

structure Arr2 (α : Type) where
  nx : Nat
  ny : Nat
  get : Nat → Nat → α

variable {α : Type}

/-- CPython's normalisation of a slice bound against a length -/
def pyBound (len : Nat) (b : Int) : Nat :=
  if b < 0 then ((len : Int) + b).toNat else min b.toNat len

/-- continuation of a line `g` of length `n` beyond its ends (= `ext` for functions) -/
def extF (rule : Rule) (fill : α) (n : Nat) (g : Nat → α) (i : Int) : α :=
  match rule with
  | .periodic => g (i % (n : Int)).toNat
  | .fill => if 0 ≤ i ∧ i < (n : Int) then g i.toNat else fill
  | .extend => g (if i < 0 then 0 else if i ≥ (n : Int) then n - 1 else i.toNat)

namespace Arr2

/-- `isel({xdim: slice(start, stop)})`; `stop = none` is `slice(start, None)` -/
def sliceX (a : Arr2 α) (start : Int) (stop : Option Int) : Arr2 α :=
  let s := pyBound a.nx start
  let e := match stop with | none => a.nx | some b => pyBound a.nx b
  { nx := e - s, ny := a.ny, get := fun i j => a.get (s + i) j }

def sliceY (a : Arr2 α) (start : Int) (stop : Option Int) : Arr2 α :=
  let s := pyBound a.ny start
  let e := match stop with | none => a.ny | some b => pyBound a.ny b
  { nx := a.nx, ny := e - s, get := fun i j => a.get i (s + j) }

/-- `isel({xdim: slice(None, None, -1)})` -/
def flipX (a : Arr2 α) : Arr2 α := { a with get := fun i j => a.get (a.nx - 1 - i) j }
def flipY (a : Arr2 α) : Arr2 α := { a with get := fun i j => a.get i (a.ny - 1 - j) }

/-- exchange of the two dimension names -/
def transpose (a : Arr2 α) : Arr2 α := { nx := a.ny, ny := a.nx, get := fun i j => a.get j i }

def map (f : α → α) (a : Arr2 α) : Arr2 α := { a with get := fun i j => f (a.get i j) }

/-- `xr.concat([a, b], dim=xdim)` -/
def concatX (a b : Arr2 α) : Arr2 α :=
  { nx := a.nx + b.nx, ny := a.ny
    get := fun i j => if i < a.nx then a.get i j else b.get (i - a.nx) j }

/-- `da.pad({xdim: (lo, hi)}, mode)` -/
def padX (a : Arr2 α) (rule : Rule) (fill : α) (lo hi : Nat) : Arr2 α :=
  { nx := lo + a.nx + hi, ny := a.ny
    get := fun i j => extF rule fill a.nx (fun i' => a.get i' j) ((i : Int) - (lo : Int)) }

def padY (a : Arr2 α) (rule : Rule) (fill : α) (lo hi : Nat) : Arr2 α :=
  { nx := a.nx, ny := lo + a.ny + hi
    get := fun i j => extF rule fill a.ny (fun j' => a.get i j') ((j : Int) - (lo : Int)) }

end Arr2

/-- everything `_pad_face_connections` consults besides the arrays -/
structure FPCfg (α : Type) where
  xAxis : String
  yAxis : String
  conn : FaceTable
  padAxes : List String            -- `pad_axes` in the order the code iterates them
  reqX : Nat × Nat                 -- requested widths (0,0 when the axis is not requested)
  reqY : Nat × Nat
  ruleX : Rule
  fillX : α
  ruleY : Rule
  fillY : α
  neg : α → α
  vectorAxis : Option String       -- `some ax` when the input is `{ax: component}`

def FPCfg.width (c : FPCfg α) : Nat := max (max c.reqX.1 c.reqX.2) (max c.reqY.1 c.reqY.2)

/-- `_pad_basic(da, grid, max_padding_width, …)`: every pad axis by (width, width) -/
def prepad (c : FPCfg α) (a : Arr2 α) : Arr2 α :=
  c.padAxes.foldl (fun acc ax =>
    if ax = c.xAxis then acc.padX c.ruleX c.fillX c.width c.width
    else if ax = c.yAxis then acc.padY c.ruleY c.fillY c.width c.width
    else acc) a

/-- one side of one axis of one face, target dimension = first index.
    `swap`: the link names the other axis; `negO`/`negT`: sign change that goes
    with the orthogonal / tangential flip. -/
def padSideX (w : Nat) (isRight rev swap negO negT : Bool) (neg : α → α)
    (target source : Arr2 α) : Arr2 α :=
  let wi : Int := w
  let src : Int × Option Int :=
    if isRight then (if rev then (-2 * wi, some (-wi)) else (wi, some (2 * wi)))
    else (if rev then (wi, some (2 * wi)) else (-2 * wi, some (-wi)))
  -- source_da.isel({source_dim: source_slice_index}); source_dim is the link's axis
  let sl0 := if swap then source.sliceY src.1 src.2 else source.sliceX src.1 src.2
  -- _maybe_swap_dimension_names
  let sl1 := if swap then sl0.transpose else sl0
  -- orthogonal flip (+ sign)
  let sl2 := if rev then (if negO then sl1.flipX.map neg else sl1.flipX) else sl1
  -- tangential flip (+ sign)
  let sl3 := if swap && !rev then (if negT then sl2.flipY.map neg else sl2.flipY) else sl2
  if isRight then (target.sliceX 0 (some (-wi))).concatX sl3
  else sl3.concatX (target.sliceX wi none)

/-- both sides of one pad axis, given the (left, right) links of the face on that axis
    (`for connection, is_right in [(left, False), (right, True)]`) -/
def padAxisWithLinks (c : FPCfg α) (data partner : Nat → Arr2 α)
    (links : Option Link × Option Link) (ax : String) (target : Arr2 α) : Arr2 α :=
  let w := c.width
  if w = 0 then target else
  let isX := ax = c.xAxis
  let one (t : Arr2 α) (lk : Option Link) (isRight : Bool) : Arr2 α :=
    match lk with
    | none => t
    | some (srcFace, srcAxis, rev) =>
      let swap := ax != srcAxis
      let isVec := c.vectorAxis.isSome
      let source := if isVec && swap then partner srcFace else data srcFace
      let negO := isVec && c.vectorAxis == some ax
      let negT := isVec && c.vectorAxis != some ax
      if isX then padSideX w isRight rev swap negO negT c.neg t source
      else (padSideX w isRight rev swap negO negT c.neg t.transpose source.transpose).transpose
  let t1 := one target links.1 false
  one t1 links.2 true

/-- `connection_single.get(axname, (None, None))` for face `face`, then both sides -/
def padAxisOfFace (c : FPCfg α) (data partner : Nat → Arr2 α) (face : Nat) (ax : String)
    (target : Arr2 α) : Arr2 α :=
  padAxisWithLinks c data partner
    (((alookup face c.conn).bind (fun fl => alookup ax fl)).getD (none, none)) ax target

/-- the per-face loop body: all pad axes in order, starting from the face's own prepadded array -/
def padFace (c : FPCfg α) (data partner : Nat → Arr2 α) (face : Nat) : Arr2 α :=
  c.padAxes.foldl (fun t ax =>
    if ax = c.xAxis ∨ ax = c.yAxis then padAxisOfFace c data partner face ax t else t)
    (data face)

/-- `_trim_expanded_padding_width` for both horizontal axes -/
def trim (c : FPCfg α) (a : Arr2 α) : Arr2 α :=
  let w : Int := c.width
  let stop (hi : Nat) : Option Int := if w - hi = 0 then none else some (-(w - hi))
  let a1 := if c.padAxes.contains c.xAxis then a.sliceX (w - c.reqX.1) (stop c.reqX.2) else a
  if c.padAxes.contains c.yAxis then a1.sliceY (w - c.reqY.1) (stop c.reqY.2) else a1

/-- `_pad_face_connections`: prepad every face (data and partner), run the face loop, trim -/
def padFaceConnections (c : FPCfg α) (data : Nat → Arr2 α) (partner : Nat → Arr2 α)
    (face : Nat) : Arr2 α :=
  let pd := fun f => prepad c (data f)
  let pp := fun f => prepad c (partner f)
  trim c (padFace c pd pp face)

end Xgcm

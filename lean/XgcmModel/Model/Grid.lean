import XgcmModel.Model.NDArr
import XgcmModel.Model.Pad1D
/-
  Grid / Axis objects as far as operations consult them:
  xgcm/axis.py:72-131 (Axis.__init__), xgcm/axis.py:179-200
  (_get_position_name), xgcm/grid.py:271-312 (kwarg mapping / completion).
-/
namespace Xgcm

structure AxisM (α : Type) where
  name : String
  coords : List (Pos × String)          -- insertion order of the dict
  defaultShifts : List (Pos × Pos)
  boundary : Rule
  fill : α

structure GridM (α : Type) where
  axes : List (AxisM α)

variable {α : Type}

def GridM.axis? (g : GridM α) (name : String) : Option (AxisM α) :=
  g.axes.find? (fun a => a.name == name)

/-- `Axis._get_position_name`: the unique axis dimension among `dims` -/
def AxisM.positionName (a : AxisM α) (dims : List String) : Res (Pos × String) :=
  let axdims := a.coords.map (·.2)
  let cands := (dims.filter (fun d => axdims.contains d)).eraseDups
  match cands with
  | [] => .error .key
  | [_] =>
    match a.coords.find? (fun pd => dims.contains pd.2) with
    | some pd => .ok pd
    | none => .error .runtime
  | _ => .error .key

/-- a keyword given per call: absent, one value for all axes, or a mapping -/
inductive KW (β : Type) where
  | none
  | scalar (v : β)
  | dict (m : List (String × β))

/-- `_map_kwargs_over_axes` followed by `defaults | user`
    (`_complete_user_kwargs_using_axis_defaults`), looked up at one axis -/
def KW.resolve {β : Type} (kw : KW β) (axname : String) (dflt : β) : β :=
  match kw with
  | .none => dflt
  | .scalar v => v
  | .dict m => (alookup axname m).getD dflt

/-- `pad()` checks the completed boundary mapping of ALL axes before anything else:
    an unknown word anywhere is a ValueError -/
def boundaryWordsOk (g : GridM α) (boundary : KW String) : Bool :=
  g.axes.all (fun ax => (Rule.ofString? (boundary.resolve ax.name ax.boundary.toString)).isSome)

/-- `Axis.__init__` default-shift completion from FALLBACK_SHIFTS -/
def defaultShiftsOf (fallback : List (Pos × List Pos)) (present : List Pos) : List (Pos × Pos) :=
  present.filterMap (fun p =>
    ((alookup p fallback).bind (fun cands => cands.find? (fun q => present.contains q))).map
      (fun q => (p, q)))

end Xgcm

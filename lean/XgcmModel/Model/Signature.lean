import XgcmModel.Model.Basic
/-
  Grid-ufunc signatures: AST, printer (`_GridUFuncSignature.__str__`), the
  recogniser/parser for the language of the regular expression `_SIGNATURE`
  (xgcm/grid_ufunc.py:33-43, 216-250), the type-hint route (252-320) and
  `equivalent` (180-213).  Strings are `List Char` (kernel-friendly).
-/
namespace Xgcm

abbrev Name := List Char
abbrev SigArg := List (Name × Pos)

structure Sig where
  ins : List SigArg
  outs : List SigArg
  deriving DecidableEq, Repr

/-- ASCII `\w` -/
def isWord (c : Char) : Bool := c.isAlphanum || c == '_'

def Pos.chars : Pos → List Char
  | .center => ['c','e','n','t','e','r']
  | .left => ['l','e','f','t']
  | .right => ['r','i','g','h','t']
  | .inner => ['i','n','n','e','r']
  | .outer => ['o','u','t','e','r']

/-! ### printer -/

def printPair (p : Name × Pos) : List Char := p.1 ++ [':'] ++ p.2.chars

def joinComma : List (List Char) → List Char
  | [] => []
  | [a] => a
  | a :: b :: r => a ++ [','] ++ joinComma (b :: r)

def printArg (a : SigArg) : List Char := ['('] ++ joinComma (a.map printPair) ++ [')']

def printArgs (as : List SigArg) : List Char := joinComma (as.map printArg)

def printSig (s : Sig) : List Char := printArgs s.ins ++ ['-', '>'] ++ printArgs s.outs

/-! ### parser (deterministic reading of the regular expression) -/

/-- `\w+` (greedy; the next character, `:`, is not a word character) -/
def parseName (cs : List Char) : Option (Name × List Char) :=
  let n := cs.takeWhile isWord
  if n.isEmpty then none else some (n, cs.dropWhile isWord)

def stripPrefix (p : List Char) (cs : List Char) : Option (List Char) :=
  if p.isPrefixOf cs then some (cs.drop p.length) else none

/-- `(?:center|left|right|inner|outer)`: alternatives in this order; no
    alternative is a prefix of another, so the first that matches is the only one -/
def parsePos (cs : List Char) : Option (Pos × List Char) :=
  [Pos.center, .left, .right, .inner, .outer].findSome? (fun p =>
    (stripPrefix p.chars cs).map (fun r => (p, r)))

def parsePair (cs : List Char) : Option ((Name × Pos) × List Char) := do
  let (n, r) ← parseName cs
  match r with
  | ':' :: r' => do
    let (p, r'') ← parsePos r'
    pure ((n, p), r'')
  | _ => none

/-- an optional single comma -/
def skipComma (r : List Char) : List Char :=
  match r with
  | ',' :: t => t
  | _ => r

/-- `(?:PAIR(?:,PAIR)*,?)*` up to the closing parenthesis: pairs, each optionally
    followed by ONE comma; stops at `)` -/
def parsePairs : Nat → List Char → Option (SigArg × List Char)
  | 0, _ => none
  | fuel + 1, cs =>
    match cs with
    | ')' :: _ => some ([], cs)
    | _ => do
      let (p, r) ← parsePair cs
      let (ps, r'') ← parsePairs fuel (skipComma r)
      pure (p :: ps, r'')

/-- `\( … \)` -/
def parseArg (cs : List Char) : Option (SigArg × List Char) :=
  match cs with
  | '(' :: r => do
    let (ps, r') ← parsePairs (r.length + 1) r
    match r' with
    | ')' :: r'' => pure (ps, r'')
    | _ => none
  | _ => none

/-- `ARG(?:,ARG)*` -/
def parseArgsMore : Nat → List Char → Option (List SigArg × List Char)
  | 0, _ => none
  | fuel + 1, cs =>
    match cs with
    | ',' :: r => do
      let (a, r') ← parseArg r
      let (as, r'') ← parseArgsMore fuel r'
      pure (a :: as, r'')
    | _ => some ([], cs)

def parseArgs (cs : List Char) : Option (List SigArg × List Char) := do
  let (a, r) ← parseArg cs
  let (as, r') ← parseArgsMore (r.length + 1) r
  pure (a :: as, r')

/-- `_parse_signature_from_string`: delete spaces, match `^ARGS->ARGS\Z` -/
def parseSig (text : List Char) : Option Sig := do
  let cs := text.filter (· != ' ')
  let (ins, r) ← parseArgs cs
  match r with
  | '-' :: '>' :: r' => do
    let (outs, r'') ← parseArgs r'
    if r''.isEmpty then pure { ins := ins, outs := outs } else none
  | _ => none

/-! ### type-hint route -/

/-- `re.findall("(\w+):(POS)", annotation)`: every non-overlapping pair found
    scanning left to right; anything else is skipped -/
def findPairs : Nat → List Char → SigArg
  | 0, _ => []
  | fuel + 1, cs =>
    match cs with
    | [] => []
    | _ :: rest =>
      match parsePair cs with
      | some (p, r) => p :: findPairs fuel r
      | none =>
        -- no match starts here.  (`\\w+` must run up to a ':'; a later start inside the same
        -- word run ends at the same place, so restarting one character further is exact.)
        findPairs fuel rest

/-- hints: annotation text per annotated parameter, and per annotated return value
    (`none` = no return annotation at all → `[()]`) -/
def parseHints (ins : List (List Char)) (outs : Option (List (List Char))) : Option Sig :=
  let i := ins.map (fun a => findPairs (a.length + 1) a)
  let o := match outs with
    | none => [[]]
    | some l => l.map (fun a => findPairs (a.length + 1) a)
  -- `_GridUFuncSignature.__init__` refuses an empty input list; then the printed
  -- form must match `_SIGNATURE`
  if i.isEmpty then none else
  let s : Sig := { ins := i, outs := o }
  match parseSig (printSig s) with
  | some _ => some s
  | none => none

/-! ### equivalence -/

def Sig.names (s : Sig) : List Name := (s.ins ++ s.outs).flatMap (fun a => a.map (·.1))
def Sig.shape (s : Sig) : List (List Pos) × List (List Pos) :=
  (s.ins.map (fun a => a.map (·.2)), s.outs.map (fun a => a.map (·.2)))

/-- index of first appearance of every name, in order -/
def firstIdx {κ : Type} [DecidableEq κ] (l : List κ) : List Nat := l.map (fun x => l.idxOf x)

/-- `equivalent`: same positions everywhere and the same pattern of first appearances -/
def Sig.equivalent (a b : Sig) : Bool :=
  a.shape == b.shape && firstIdx a.names == firstIdx b.names

end Xgcm

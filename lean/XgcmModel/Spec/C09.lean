import XgcmModel.Spec.C01
import XgcmModel.Model.Stencil
/-
  C09 specification: at each target point, the sum of all input values lying
  BEFORE that point along the axis (by coordinates); when no input precedes the
  target, the value is supplied by the boundary rule applied to the rest of
  the result: fill value / nearest value / wrap.
-/
namespace Xgcm

variable {α : Type}

/-- inputs (by index) lying before target point `k` -/
def before (f t : Pos) (nIn : Nat) (k : Nat) : List Nat :=
  (List.range nIn).filter (fun i => coord2 f i < coord2 t k)

/-- sum, in array order, of the inputs lying before target point `k` -/
def specSumBefore (o : Ops α) (f t : Pos) (xs : List α) (k : Nat) : α :=
  (before f t xs.length k).foldl (fun acc i => o.add acc (xs.getD i o.zero)) o.zero

def specCumsumAt (o : Ops α) (rule : Rule) (fill : α) (f t : Pos) (n : Nat) (xs : List α)
    (k : Nat) : α :=
  if (before f t xs.length k).isEmpty then
    match rule with
    | .fill => fill
    | .extend => specSumBefore o f t xs (k + 1)          -- nearest value
    | .periodic => specSumBefore o f t xs (t.len n - 1)  -- wrap: the last value
  else specSumBefore o f t xs k

def specCumsumLine (o : Ops α) (rule : Rule) (fill : α) (f t : Pos) (n : Nat) (xs : List α) :
    List α :=
  (List.range (t.len n)).map (specCumsumAt o rule fill f t n xs)

/-- N-D: along each named axis in turn, in place -/
def specCumsumAxis (o : Ops α) (g : GridM α) (origDims : List String) (axname : String)
    (to : KW String) (boundary : KW String) (fill : KW α) (arr : NDArr α) : Option (NDArr α) := do
  let ax ← g.axis? axname
  let (f, d) ← ax.coords.find? (fun pd => origDims.contains pd.2)
  let k ← arr.dimIdx d
  let present := ax.coords.map (·.1)
  let t ← match specToWord to axname with
    | some w => Pos.ofString? w
    | none => specDefaultShift present f
  if validShift f t = false then none else
  let dnew ← alookup t ax.coords
  let rule ← specRule ax boundary
  let fillv := specFill ax fill
  let nIn := arr.shape.getD k 0
  let n := match f with | .inner => nIn + 1 | .outer => nIn - 1 | _ => nIn
  pure (arr.mapLines k dnew (t.len n) (fun line i => specCumsumAt o rule fillv f t n line i))

def specCumsumND (o : Ops α) (g : GridM α) (arr : NDArr α) (axes : List String)
    (to : KW String) (boundary : KW String) (fill : KW α) : Option (NDArr α) :=
  axes.foldlM (fun a axname => specCumsumAxis o g arr.dims axname to boundary fill a) arr

end Xgcm

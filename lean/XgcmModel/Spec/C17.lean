import XgcmModel.Model.Topology
/-
  C17 specification, from the property statement.
-/
namespace Xgcm

/-- side 0 = left, side 1 = right -/
def linkAt (pr : Option Link × Option Link) (side : Nat) : Option Link :=
  if side = 0 then pr.1 else pr.2

/-- the link of face `f`, axis `a`, side `s` is reciprocated: the face and
    axis it names exist, and the named face's table holds — on the opposite
    side, or on the same side when the link is reversed — a link back to
    (f, a) with the same reverse flag -/
def LinkReciprocated (tbl : FaceTable) (axes : List String) (faces : List Nat)
    (f : Nat) (a : String) (s : Nat) (lk : Link) : Prop :=
  faces.contains lk.1 = true ∧ axes.contains lk.2.1 = true ∧
  faces.contains f = true ∧ axes.contains a = true ∧
  ∃ fl pr, alookup lk.1 tbl = some fl ∧ alookup lk.2.1 fl = some pr ∧
    linkAt pr (if lk.2.2 then s else 1 - s) = some (f, a, lk.2.2)

def Reciprocal (tbl : FaceTable) (axes : List String) (faces : List Nat) : Prop :=
  ∀ fe ∈ tbl, ∀ ae ∈ fe.2, ∀ s, s < 2 → ∀ lk, linkAt ae.2 s = some lk →
    LinkReciprocated tbl axes faces fe.1 ae.1 s lk

end Xgcm

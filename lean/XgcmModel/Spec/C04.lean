import XgcmModel.Spec.C03
/-
  C04 specification vocabulary: a global C-grid vector field (U through the
  lower-X face, V through the lower-Y face of every cell, positive in +X / +Y)
  and its pull-back to a rotated face.
-/
namespace Xgcm

variable {α : Type}

/-- flux through the lower face, in direction `n`, of the cell at (cx, cy):
    the face-normal component of (U, V) with the sign and staggering shift that the
    direction demands -/
def fluxAt (U V : Int → Int → α) (neg : α → α) (n : Int × Int) (cx cy : Int) : α :=
  if n = (1, 0) then U cx cy
  else if n = (-1, 0) then neg (U (cx + 1) cy)
  else if n = (0, 1) then V cx cy
  else neg (V cx (cy + 1))

/-- local component along local axis `a` (false: the X component `u` on lower-X faces,
    true: `v` on lower-Y faces) of a face with orientation `o` placed at `p` -/
def localComp (U V : Int → Int → α) (neg : α → α) (o : D4) (p : Int × Int) (N : Int) (a : Bool)
    (x y : Int) : α :=
  let n := if a then o.lin 0 1 else o.lin 1 0
  let c := o.app N x y
  fluxAt U V neg n (p.1 + c.1) (p.2 + c.2)

/-- proper rotations of the square (no mirror) -/
def D4.isRot (o : D4) : Bool := o.sw == (o.fx != o.fy)

/-- coordinates, in the component ARRAY of position `left`, of the value needed beyond the
    upper end when differencing/interpolating to cell centres: array index N (depth 1) -/
def upperHalo (N : Int) (a : Bool) (t : Int) : Int × Int := if a then (t, N) else (N, t)

end Xgcm

import XgcmModel.Model.Boundary
/-
  C02 specification, from the property statement and the `Grid` docstring.
-/
namespace Xgcm

variable {α : Type}

/-- an axis is non-periodic iff `periodic` is False, or a list that does not
    name it, or a mapping that sends it to False -/
def specPeriodic (per : PerArg) (ax : String) : Bool :=
  match per with
  | .bool b => b
  | .list l => l.contains ax
  | .dict m => (alookup ax m).getD true

/-- Grid-level rule: the `boundary` argument (scalar, or mapping naming the
    axis), else periodic wrap for a periodic axis and fill for a non-periodic one -/
def specGridRule (per : PerArg) (boundary : KW String) (ax : String) : Option Rule :=
  let given : Option String := match boundary with
    | .none => none
    | .scalar w => some w
    | .dict m => alookup ax m
  match given with
  | some w => Rule.ofString? w
  | none => some (if specPeriodic per ax then .periodic else .fill)

/-- Grid-level fill: the `fill_value` argument (scalar / mapping naming the axis), else 0 -/
def specGridFill (zero : α) (fill : KW α) (ax : String) : α :=
  match fill with
  | .none => zero
  | .scalar v => v
  | .dict m => (alookup ax m).getD zero

/-- rule in force for a call: call argument, else the grid-level setting -/
def specCallRule (gridRule : Rule) (boundary : KW String) (ax : String) : Option Rule :=
  match boundary with
  | .none => some gridRule
  | .scalar w => Rule.ofString? w
  | .dict m => match alookup ax m with
    | some w => Rule.ofString? w
    | none => some gridRule

def specCallFill (gridFill : α) (fill : KW α) (ax : String) : α :=
  match fill with
  | .none => gridFill
  | .scalar v => v
  | .dict m => (alookup ax m).getD gridFill

/-- cell `idx` of the array padded along axis `k` by `(lo, hi)`:
    original cells keep their value; new cells get the rule's value -/
def specPadCell (a : NDArr α) (k : Nat) (rule : Rule) (fill : α) (lo : Nat) (idx : List Nat) : α :=
  let n := a.shape.getD k 0
  let i : Int := (idx.getD k 0 : Int) - lo
  if 0 ≤ i ∧ i < n then a.get (idx.set k i.toNat)
  else match rule with
    | .fill => fill
    | .extend => a.get (idx.set k (if i < 0 then 0 else n - 1))
    | .periodic => a.get (idx.set k (i % (n : Int)).toNat)

end Xgcm

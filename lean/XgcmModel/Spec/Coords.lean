import XgcmModel.Model.Pad1D
/-
  SPECIFICATION vocabulary, written from the documentation (doc/grids.rst:
  "Axes and Positions") and the property statements, not from the code.

  Every grid point gets a doubled integer coordinate along its axis:
  cell `k` spans [2k, 2k+2]; its centre is at 2k+1, its left face at 2k, its
  right face at 2k+2; `outer` points are all n+1 faces (2k), `inner` points
  the n-1 interior faces (2k+2).
-/
namespace Xgcm

def coord2 : Pos → Int → Int
  | .center, k => 2 * k + 1
  | .left, k => 2 * k
  | .right, k => 2 * k + 2
  | .inner, k => 2 * k + 2
  | .outer, k => 2 * k

/-- index (possibly off the array) of the point of position `f` that sits at
    doubled coordinate `c` -/
def idxOf (f : Pos) (c : Int) : Int := (c - coord2 f 0) / 2

variable {α β : Type}

/-- C01: value at target point `k` = `op` of the two input values adjacent
    to it (coordinates ∓1), read through the boundary rule when off the array -/
def specOp (op : α → α → β) (rule : Rule) (fill : α) (f t : Pos) (xs : List α) (k : Nat) : β :=
  op (ext rule fill xs (idxOf f (coord2 t k - 1))) (ext rule fill xs (idxOf f (coord2 t k + 1)))

/-- the whole target line -/
def specLine (op : α → α → β) (rule : Rule) (fill : α) (f t : Pos) (n : Nat) (xs : List α) : List β :=
  (List.range (t.len n)).map (specOp op rule fill f t xs)

/-- the documented default shift: centre goes to the first of
    left, right, outer, inner that the axis has; every face goes to centre -/
def specDefaultShift (present : List Pos) : Pos → Option Pos
  | .center => [Pos.left, .right, .outer, .inner].find? (fun p => present.contains p)
  | _ => if present.contains .center then some .center else none

end Xgcm

import XgcmModel.Spec.Coords
import XgcmModel.Model.Grid
/-
  C01 specification for N-D arrays, written from the property statement:
  along each named axis in turn, every line of the array is replaced by the
  coordinate spec of that line; the axis dimension is replaced IN PLACE by the
  target position's dimension; nothing else moves.
-/
namespace Xgcm

variable {α : Type}

/-- replace dimension number `k` in place, line by line -/
def NDArr.mapLines (a : NDArr α) (k : Nat) (newdim : String) (m : Nat)
    (f : List α → Nat → α) : NDArr α :=
  { dims := a.dims.set k newdim
    shape := a.shape.set k m
    get := fun idx => f (a.line k idx) (idx.getD k 0) }

/-- rule in force per the documentation: call argument (scalar or mapping
    naming the axis), else the grid's setting for the axis -/
def specRule (ax : AxisM α) (boundary : KW String) : Option Rule :=
  match boundary with
  | .none => some ax.boundary
  | .scalar w => Rule.ofString? w
  | .dict m => match alookup ax.name m with
    | some w => Rule.ofString? w
    | none => some ax.boundary

def specFill (ax : AxisM α) (fill : KW α) : α :=
  match fill with
  | .none => ax.fill
  | .scalar v => v
  | .dict m => (alookup ax.name m).getD ax.fill

def specToWord (to : KW String) (axname : String) : Option String :=
  match to with
  | .none => none
  | .scalar w => some w
  | .dict m => alookup axname m

/-- one axis of the spec; `none` = the request is not a valid C01 request -/
def specAxis (op : α → α → α) (g : GridM α) (axname : String) (to : KW String)
    (boundary : KW String) (fill : KW α) (arr : NDArr α) : Option (NDArr α) := do
  let ax ← g.axis? axname
  let (f, d) ← ax.coords.find? (fun pd => arr.dims.contains pd.2)
  let k ← arr.dimIdx d
  let present := ax.coords.map (·.1)
  let t ← match specToWord to axname with
    | some w => Pos.ofString? w
    | none => specDefaultShift present f
  if validShift f t = false then none else
  let dnew ← alookup t ax.coords
  let rule ← specRule ax boundary
  let fillv := specFill ax fill
  let nIn := arr.shape.getD k 0
  -- cell count of the axis from the input's length
  let n := match f with | .inner => nIn + 1 | .outer => nIn - 1 | _ => nIn
  pure (arr.mapLines k dnew (t.len n) (fun line i => specOp op rule fillv f t line i))

def specDispatch (op : α → α → α) (g : GridM α) (arr : NDArr α) (axes : List String)
    (to : KW String) (boundary : KW String) (fill : KW α) : Option (NDArr α) :=
  axes.foldlM (fun a axname => specAxis op g axname to boundary fill a) arr

end Xgcm

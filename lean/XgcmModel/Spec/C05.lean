import XgcmModel.Model.FacePad
import XgcmModel.Spec.C17
/-
  C05 specification, from the property statement: the halo cell at depth `k`
  beyond a linked edge is the neighbouring face's cell `k` inward from the
  linked edge, at the same along-edge position (mirrored for an axis-swapping
  non-reversed link); vector components come from the partner across
  axis-swapping links and are negated exactly when the link reverses their
  direction; unlinked edges get the ordinary boundary rule.
  Coordinates are those of the UNPADDED face (0 … n-1).
-/
namespace Xgcm

variable {α : Type}

def faceLinks (c : FPCfg α) (f : Nat) (ax : String) : Option Link × Option Link :=
  ((alookup f c.conn).bind (fun fl => alookup ax fl)).getD (none, none)

/-- the documented value of the halo cell of face `f` beyond the X edge:
    `x < 0` or `x ≥ n` is its coordinate along X, `y` its along-edge coordinate -/
def specHaloX (c : FPCfg α) (data partner : Nat → Arr2 α) (n f : Nat) (x : Int) (y : Nat) : α :=
  let side : Nat := if x < 0 then 0 else 1
  let k : Nat := if x < 0 then (-x).toNat else (x - n + 1).toNat
  match linkAt (faceLinks c f c.xAxis) side with
  | none => extF c.ruleX c.fillX n (fun x' => (data f).get x' y) x
  | some (g, b, rev) =>
    let swap : Bool := b != c.xAxis
    let isVec := c.vectorAxis.isSome
    let src := if isVec && swap then partner g else data g
    let sside : Nat := if rev then side else 1 - side
    let cb := if sside = 0 then k - 1 else n - k         -- k cells inward from the linked edge
    let co := if swap && !rev then n - 1 - y else y      -- along-edge position (mirrored?)
    let v := if swap then src.get co cb else src.get cb co
    let negate := isVec && ((rev && c.vectorAxis == some c.xAxis) ||
                            (swap && !rev && c.vectorAxis != some c.xAxis))
    if negate then c.neg v else v

/-- the same beyond the Y edge: `y < 0` or `y ≥ n`, along-edge coordinate `x` -/
def specHaloY (c : FPCfg α) (data partner : Nat → Arr2 α) (n f : Nat) (x : Nat) (y : Int) : α :=
  let side : Nat := if y < 0 then 0 else 1
  let k : Nat := if y < 0 then (-y).toNat else (y - n + 1).toNat
  match linkAt (faceLinks c f c.yAxis) side with
  | none => extF c.ruleY c.fillY n (fun y' => (data f).get x y') y
  | some (g, b, rev) =>
    let swap : Bool := b != c.yAxis
    let isVec := c.vectorAxis.isSome
    let src := if isVec && swap then partner g else data g
    let sside : Nat := if rev then side else 1 - side
    let cb := if sside = 0 then k - 1 else n - k
    let co := if swap && !rev then n - 1 - x else x
    let v := if swap then src.get cb co else src.get co cb
    let negate := isVec && ((rev && c.vectorAxis == some c.yAxis) ||
                            (swap && !rev && c.vectorAxis != some c.yAxis))
    if negate then c.neg v else v

end Xgcm

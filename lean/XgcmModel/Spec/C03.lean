import XgcmModel.Spec.C05
/-
  C03 / C04 specification vocabulary: square faces placed on a global grid
  with one of the 8 orientations (symmetries of the square) each.
-/
namespace Xgcm

/-- a symmetry of the square: optional exchange of the two indices, then
    optional mirror of each -/
structure D4 where
  sw : Bool
  fx : Bool
  fy : Bool
  deriving DecidableEq, Repr

/-- where local cell (x, y) of an N × N face sits inside the face's square, in
    global orientation (an affine map, so it also places halo cells) -/
def D4.app (o : D4) (N : Int) (x y : Int) : Int × Int :=
  let x' := if o.sw then y else x
  let y' := if o.sw then x else y
  (if o.fx then N - 1 - x' else x', if o.fy then N - 1 - y' else y')

/-- the linear part of `app` (acts on directions) -/
def D4.lin (o : D4) (dx dy : Int) : Int × Int :=
  let dx' := if o.sw then dy else dx
  let dy' := if o.sw then dx else dy
  (if o.fx then -dx' else dx', if o.fy then -dy' else dy')

/-- outward unit normal of side `s` (false = lower, true = upper) of axis `a`
    (false = X, true = Y), in local coordinates -/
def sideNormal (a s : Bool) : Int × Int :=
  let v : Int := if s then 1 else -1
  if a then (0, v) else (v, 0)

/-- positive along-edge direction of a side of axis `a` -/
def sideTangent (a : Bool) : Int × Int := if a then (1, 0) else (0, 1)

/-- local coordinates of the halo cell at depth `k` beyond side (a, s), along-edge `t` -/
def haloCoord (N : Int) (a s : Bool) (k t : Int) : Int × Int :=
  let d : Int := if s then N - 1 + k else -k
  if a then (t, d) else (d, t)

/-- the cell the documentation names in the NEIGHBOUR's local coordinates -/
def docCoord (N : Int) (b s rev swap : Bool) (k t : Int) : Int × Int :=
  let sside := if rev then s else !s
  let cb : Int := if sside then N - k else k - 1
  let co : Int := if swap && !rev then N - 1 - t else t
  if b then (co, cb) else (cb, co)

/-- the junction is expressible in the `face_connections` format: the geometry
    mirrors the along-edge index exactly when the link is axis-swapping and not reversed -/
def expressible (of og : D4) (a s b s2 : Bool) : Bool :=
  let tf := of.lin (sideTangent a).1 (sideTangent a).2
  let tg := og.lin (sideTangent b).1 (sideTangent b).2
  decide (tf = (-tg.1, -tg.2)) == ((a != b) && !(s == s2))

end Xgcm

import XgcmModel.Model.NDArr
import XgcmModel.Model.Grid
import XgcmModel.Model.Stencil
import XgcmModel.Gen.Axis
import XgcmModel.Model.RatOps
/-
  Line protocol: whitespace-separated tokens.  Part of the trusted base
  (encoder/decoder); contains no model logic.
-/
namespace Xgcm.Proto
open Xgcm

abbrev P := StateT (List String) (Except String)

def tok : P String := do
  match (← get) with
  | [] => throw "unexpected end of line"
  | t :: r => set r; pure t

def nat : P Nat := do
  let t ← tok
  match t.toNat? with | some n => pure n | none => throw s!"bad nat {t}"

def int : P Int := do
  let t ← tok
  match t.toInt? with | some n => pure n | none => throw s!"bad int {t}"

def parseRat (t : String) : Option Rat :=
  match t.splitOn "/" with
  | [p] => p.toInt?.map (fun n => (n : Rat))
  | [p, q] => do
    let n ← p.toInt?
    let d ← q.toNat?
    if d = 0 then none else some (mkRat n d)
  | _ => none

def rat : P Rat := do
  let t ← tok
  match parseRat t with | some r => pure r | none => throw s!"bad rat {t}"

def many {β : Type} (n : Nat) (p : P β) : P (List β) :=
  (List.range n).mapM (fun _ => p)

def counted {β : Type} (p : P β) : P (List β) := do
  let n ← nat
  many n p

def pos : P Pos := do
  let t ← tok
  match Pos.ofString? t with | some p => pure p | none => throw s!"bad pos {t}"

def rule : P Rule := do
  let t ← tok
  match Rule.ofString? t with | some p => pure p | none => throw s!"bad rule {t}"

def bool : P Bool := do
  let t ← tok
  match t with
  | "T" => pure true | "F" => pure false | _ => throw s!"bad bool {t}"

def ndarr : P (NDArr Rat) := do
  let k ← nat
  let dims ← many k tok
  let shape ← many k nat
  let total := shape.foldl (· * ·) 1
  let data ← many total rat
  pure (NDArr.ofFlat dims shape data.toArray 0)

def kw {β : Type} (p : P β) : P (KW β) := do
  let t ← tok
  match t with
  | "N" => pure .none
  | "S" => do pure (.scalar (← p))
  | "D" => do
    let m ← counted (do let a ← tok; let v ← p; pure (a, v))
    pure (.dict m)
  | _ => throw s!"bad kw tag {t}"

def axis : P (AxisM Rat) := do
  let name ← tok
  let b ← rule
  let f ← rat
  let coords ← counted (do let p ← pos; let d ← tok; pure (p, d))
  let ds ← counted (do let p ← pos; let q ← pos; pure (p, q))
  -- user default shifts override the fallback completion (Axis.__init__)
  let present := coords.map (·.1)
  let fb := defaultShiftsOf Gen.fallbackShifts present
  let shifts := present.filterMap (fun p =>
    match alookup p ds with
    | some q => some (p, q)
    | none => (alookup p fb).map (fun q => (p, q)))
  pure { name := name, coords := coords, defaultShifts := shifts, boundary := b, fill := f }

def grid : P (GridM Rat) := do
  let axes ← counted axis
  pure { axes := axes }

def fmtRat (r : Rat) : String :=
  if r.den = 1 then toString r.num else s!"{r.num}/{r.den}"

def fmtArr (a : NDArr Rat) : String :=
  let k := a.dims.length
  String.intercalate " "
    ([toString k] ++ a.dims ++ a.shape.map toString ++ a.toFlat.map fmtRat)

def fmtRes (r : Res (NDArr Rat)) : String :=
  match r with
  | .ok a => "ok " ++ fmtArr a
  | .error e => "err " ++ toString e

def fmtOpt (r : Option (NDArr Rat)) : String :=
  match r with
  | some a => "ok " ++ fmtArr a
  | none => "none"

end Xgcm.Proto

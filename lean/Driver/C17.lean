import Driver.Proto
import XgcmModel.Model.Topology
namespace Xgcm.Driver
open Xgcm Xgcm.Proto

def link : P (Option Link) := do
  let t ← tok
  match t with
  | "N" => pure none
  | "L" => do
    let i ← nat
    let a ← tok
    let r ← bool
    pure (some (i, a, r))
  | _ => throw s!"bad link tag {t}"

def faceTable : P FaceTable :=
  counted (do
    let f ← nat
    let entries ← counted (do
      let a ← tok
      let l ← link
      let r ← link
      pure (a, (l, r)))
    pure (f, entries))

/-- `c17 <fcKeys> <dsDims> <table> <axes> <faces>` -/
def c17 : P String := do
  let fcKeys ← counted tok
  let dsDims ← counted tok
  let tbl ← faceTable
  let axes ← counted tok
  let faces ← counted nat
  match assignFaceConnections fcKeys dsDims tbl axes faces with
  | .ok _ => pure "ok"
  | .error e => pure s!"err {e}"

end Xgcm.Driver

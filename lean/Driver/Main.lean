import Driver.C01
import Driver.C02
import Driver.C09
import Driver.C15
import Driver.C17
import Driver.C05
import Driver.C03
import Driver.C07
import Driver.C08
import Driver.C16
import Driver.C11
import Driver.C14
import Driver.C19
import Driver.C06
open Xgcm Xgcm.Proto Xgcm.Driver

def commands : List (String × P String) :=
  [("c01", c01), ("c01spec", c01spec), ("c10interplike", c10interplike),
   ("c02ctor", c02ctor), ("c02ctorspec", c02ctorspec), ("c02pad", c02pad), ("c02padspec", c02padspec),
   ("c09", c09), ("c09spec", c09spec),
   ("sigparse", sigparse), ("sighints", sighints), ("sigequiv", sigequiv), ("c17", c17), ("c05", c05), ("c03op", c03op), ("c07", c07), ("c08", c08), ("c08names", c08names), ("c16", c16), ("c10", c10), ("c10arith", c10arith), ("c11", c11), ("c14comodo", c14comodo), ("c14sgrid", c14sgrid), ("c19", c19), ("c06merge", c06merge), ("c06mode", c06mode)]

def handle (line : String) : String :=
  let toks := (line.splitOn " ").filter (· ≠ "")
  match toks with
  | [] => "bad-op empty"
  | cmd :: rest =>
    match commands.find? (·.1 == cmd) with
    | none => s!"bad-op {cmd}"
    | some (_, p) =>
      match p.run rest with
      | .ok (out, []) => out
      | .ok (_, extra) => s!"bad-op trailing {extra.length}"
      | .error e => s!"bad-op {e}"

partial def loop (hin : IO.FS.Stream) (hout : IO.FS.Stream) : IO Unit := do
  let line ← hin.getLine
  if line.isEmpty then return ()
  let l := line.trimAscii.toString
  hout.putStrLn (handle l)
  hout.flush
  loop hin hout

def main : IO Unit := do
  loop (← IO.getStdin) (← IO.getStdout)

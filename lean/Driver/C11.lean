import Driver.Proto
import Driver.C02
import XgcmModel.Model.UFunc
namespace Xgcm.Driver
open Xgcm Xgcm.Proto

def sigArgs : P (List (List (String × Pos))) :=
  counted (counted (do let n ← tok; let p ← pos; pure (n, p)))

/-- `c11 <grid> <sig ins> <sig outs> <args> <axis> <bw: N | S widths> <boundary> <fill> <padBefore>` -/
def c11 : P String := do
  let g ← grid
  let ins ← sigArgs
  let outs ← sigArgs
  let args ← counted ndarr
  let axis ← counted (counted tok)
  let bwTag ← tok
  let bw ← match bwTag with
    | "N" => pure none
    | "S" => do pure (some (← widths))
    | _ => throw "bad bw tag"
  let b ← kw tok
  let f ← kw rat
  let pb ← bool
  match applyGridUfunc g { ins := ins, outs := outs } args axis bw b f pb with
  | .error e => pure s!"err {e}"
  | .ok c =>
    pure ("ok " ++ toString c.received.length ++ " " ++
      String.intercalate " " (c.received.map fmtArr) ++ " | " ++ toString c.outDims.length ++ " " ++
      String.intercalate " " (c.outDims.map (fun d => toString d.length ++ " " ++ String.intercalate " " d)))

end Xgcm.Driver

import Driver.Proto
import XgcmModel.Model.MetricOps
import XgcmModel.Model.Metrics
namespace Xgcm.Driver
open Xgcm Xgcm.Proto

def mvar : P MVar := do
  let n ← tok
  let ds ← counted tok
  pure { name := n, dims := ds }

structure MCall where
  key : List String
  names : List String
  ow : Bool

def mcall : P MCall := do
  let key ← counted tok
  let names ← counted tok
  let ow ← bool
  pure { key := key, names := names, ow := ow }

def fmtRegistry (r : Registry) : String :=
  String.intercalate ";" (r.map (fun e =>
    String.intercalate "," e.1 ++ ":" ++ String.intercalate "," (e.2.map (·.name))))

def runHistory (gridAxes : List String) (dsVars : List MVar) (calls : List MCall) :
    Registry × List String :=
  calls.foldl (fun (acc : Registry × List String) c =>
    let (r', e) := setMetrics gridAxes dsVars acc.1 c.key c.names c.ow
    let o := match e with | none => "ok" | some k => s!"err:{k}"
    (r', acc.2 ++ [o ++ "|" ++ fmtRegistry r'])) ([], [])

/-- `c16 <gridAxes> <dsVars> <calls>` → per call `outcome|registry`, joined by ` # ` -/
def c16 : P String := do
  let gridAxes ← counted tok
  let dsVars ← counted mvar
  let calls ← counted mcall
  pure (String.intercalate " # " (runHistory gridAxes dsVars calls).2)

/-- `c10 <gridAxes> <axisDims: n (ax k dims)> <dsVars> <calls> <queries: n (arrayDims axes)>`
    → per query `name[~]*name[~]` (`~` = interpolated) | `err:Kind` -/
def c10 : P String := do
  let gridAxes ← counted tok
  let axisDims ← counted (do let a ← tok; let ds ← counted tok; pure (a, ds))
  let dsVars ← counted mvar
  let calls ← counted mcall
  let queries ← counted (do let ad ← counted tok; let ax ← counted tok; pure (ad, ax))
  let r := (runHistory gridAxes dsVars calls).1
  let outs := queries.map (fun (q : List String × List String) =>
    -- the implementation orders the requested axes by the grid's axis order before enumerating
    let ordered := gridAxes.filter (q.2.contains ·)
    let axes := if q.2.all (gridAxes.contains ·) then ordered else q.2
    match getMetric axisDims r q.1 axes with
    | .ok sel => String.intercalate "*" (sel.map (fun f => f.1.name ++ (if f.2 then "~" else "")))
    | .error e => s!"err:{e}")
  pure (String.intercalate " # " outs)

/-- an optional value: `N` = missing (NaN) -/
def optRatN : P (Option Rat) := do
  let t ← tok
  if t == "N" then pure none else
  match parseRat t with | some r => pure (some r) | none => throw s!"bad rat {t}"

/-- `c10arith integrate <points: n (cells: k (x w)*)>` / `c10arith average <points: n (cells: k (x|N w)*)>` /
    `c10arith derivative <n diffs> <n metric>` → exact values, `div0` where the divisor is zero -/
def c10arith : P String := do
  let what ← tok
  match what with
  | "integrate" =>
    let pts ← counted (counted (do let x ← rat; let w ← rat; pure (x, w)))
    pure (String.intercalate " " (pts.map (fun cells => fmtRat (integrateCells cells))))
  | "average" =>
    let pts ← counted (counted (do let x ← optRatN; let w ← rat; pure (x, w)))
    pure (String.intercalate " " (pts.map (fun cells =>
      if ((validCells cells).map (·.2)).sum = 0 then "div0" else fmtRat (averageCells cells))))
  | "derivative" =>
    let d ← counted rat
    let m ← counted rat
    if m.any (· = 0) then pure "div0" else
    pure (String.intercalate " " ((derivativeLine d m).map fmtRat))
  | _ => throw s!"bad c10arith {what}"

end Xgcm.Driver

import Driver.Proto
import XgcmModel.Model.Linear
import XgcmModel.Model.TransformGuards
namespace Xgcm.Driver
open Xgcm Xgcm.Proto

/-- `c08 <phi> <theta> <levels> <mask> <bypass>` → `ok (v | nan)*` -/
def c08 : P String := do
  let phi ← counted rat
  let theta ← counted rat
  let levels ← counted rat
  let mask ← bool
  let bypass ← bool
  let out := interp1dLinear phi theta levels mask bypass
  pure ("ok " ++ String.intercalate " " (out.map (fun o => match o with | some v => fmtRat v | none => "nan")))

/-- optional token: `N` = not given -/
def optTok : P (Option String) := do
  let t ← tok
  pure (if t == "N" then none else some t)

/-- `c08names <kind: bare|one D|many> <target_dim|N> <tdata: U (not given) | A (anonymous) | name> <axisDim>
    <input name|N> <suffix|N>` → `<new dim|none> <result name|none>` -/
def c08names : P String := do
  let k ← tok
  let kind ← (match k with
    | "bare" => pure TargetKind.bare
    | "many" => pure TargetKind.manyDim
    | "one" => do let d ← tok; pure (TargetKind.oneDim d)
    | _ => throw s!"bad kind {k}")
  let td ← optTok
  let t ← tok
  let tdata : Option (Option String) := if t == "U" then none else if t == "A" then some none else some (some t)
  let axisDim ← tok
  let inp ← optTok
  let sfx0 ← optTok
  let sfx := sfx0.map (fun x => if x == "E" then "" else x)      -- `E` = the empty suffix
  let show' := fun (o : Option String) => match o with | some x => x | none => "none"
  pure (show' (transformDimName kind td tdata axisDim) ++ " " ++ show' (transformResultName inp sfx))

end Xgcm.Driver

import Driver.Proto
import XgcmModel.Model.Linear
namespace Xgcm.Driver
open Xgcm Xgcm.Proto

/-- `c08 <phi> <theta> <levels> <mask> <bypass>` → `ok (v | nan)*` -/
def c08 : P String := do
  let phi ← counted rat
  let theta ← counted rat
  let levels ← counted rat
  let mask ← bool
  let bypass ← bool
  let out := interp1dLinear phi theta levels mask bypass
  pure ("ok " ++ String.intercalate " " (out.map (fun o => match o with | some v => fmtRat v | none => "nan")))

end Xgcm.Driver

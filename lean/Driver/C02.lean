import Driver.Proto
import XgcmModel.Model.Boundary
import XgcmModel.Spec.C02
import XgcmModel.Gen.Axis
import XgcmModel.Gen.GridDefaults
namespace Xgcm.Driver
open Xgcm Xgcm.Proto

def perArg : P PerArg := do
  let t ← tok
  match t with
  | "B" => do pure (.bool (← bool))
  | "L" => do pure (.list (← counted tok))
  | "D" => do pure (.dict (← counted (do let a ← tok; let b ← bool; pure (a, b))))
  | _ => throw s!"bad periodic tag {t}"

def dfltFill : Rat := match Gen.axisDefaultFill with | some z => (z : Rat) | none => 0

/-- `c02ctor <axes> <periodic> <boundary> <fill>` → per axis `rule fill` | `err Kind` -/
def c02ctor : P String := do
  let axes ← counted tok
  let per ← perArg
  let b ← kw tok
  let f ← kw rat
  let outs := axes.map (fun ax =>
    match ctorResolve Gen.periodicTrueBoundary Gen.periodicFalseBoundary Gen.axisDefaultBoundary
        dfltFill axes per b f ax with
    | .ok (r, v) => s!"{ax} {r} {fmtRat v}"
    | .error e => s!"{ax} err {e}")
  pure (String.intercalate " ; " outs)

def c02ctorspec : P String := do
  let axes ← counted tok
  let per ← perArg
  let b ← kw tok
  let f ← kw rat
  let outs := axes.map (fun ax =>
    match specGridRule per b ax with
    | some r => s!"{ax} {r} {fmtRat (specGridFill (0 : Rat) f ax)}"
    | none => s!"{ax} err refused")
  pure (String.intercalate " ; " outs)

def widths : P (List (String × Nat × Nat)) :=
  counted (do let a ← tok; let lo ← nat; let hi ← nat; pure (a, lo, hi))

/-- `c02pad <grid> <arr> <widths> <boundary> <fill>` -/
def c02pad : P String := do
  let g ← grid
  let a ← ndarr
  let ws ← widths
  let b ← kw tok
  let f ← kw rat
  pure (fmtRes (padGrid g a ws b f))

/-- the specification of the same request: cell-wise `specPadCell`, axis after
    axis in the order of the width mapping, rules by `specCallRule` -/
def c02padspec : P String := do
  let g ← grid
  let a ← ndarr
  let ws ← widths
  let b ← kw tok
  let f ← kw rat
  let step (acc : Option (NDArr Rat)) (w : String × Nat × Nat) : Option (NDArr Rat) := do
    let arr ← acc
    let ax ← g.axis? w.1
    let (_, d) ← ax.coords.find? (fun pd => arr.dims.contains pd.2)
    let k ← arr.dimIdx d
    let rule ← specCallRule ax.boundary b ax.name
    let fillv := specCallFill ax.fill f ax.name
    let n := arr.shape.getD k 0
    let out : NDArr Rat := { dims := arr.dims, shape := arr.shape.set k (w.2.1 + n + w.2.2),
                             get := fun idx => specPadCell arr k rule fillv w.2.1 idx }
    pure (out.materialize 0)
  pure (fmtOpt (ws.foldl step (some a)))

end Xgcm.Driver

import Driver.Proto
import XgcmModel.Model.Conservative
namespace Xgcm.Driver
open Xgcm Xgcm.Proto

def optRat : P (Option Rat) := do
  let t ← tok
  if t == "nan" then pure none else
  match parseRat t with | some r => pure (some r) | none => throw s!"bad rat {t}"

/-- `c07 <phi> <theta> <bins>` (each counted) → `ok v*` | `err Kind` -/
def c07 : P String := do
  let phi ← counted rat
  let theta ← counted optRat
  let bins ← counted rat
  match interp1dConservative phi theta bins with
  | .ok out => pure ("ok " ++ String.intercalate " " (out.map fmtRat))
  | .error e => pure s!"err {e}"

end Xgcm.Driver

import Driver.Proto
import XgcmModel.Model.Signature
namespace Xgcm.Driver
open Xgcm Xgcm.Proto

/-- text as `<n> <code point>*` -/
def text : P (List Char) := do
  let cps ← counted nat
  pure (cps.map Char.ofNat)

def fmtText (cs : List Char) : String :=
  String.intercalate " " (toString cs.length :: cs.map (fun c => toString c.toNat))

/-- `sigparse <text>` → `ok <printed text>` | `none` -/
def sigparse : P String := do
  let t ← text
  match parseSig t with
  | some s => pure ("ok " ++ fmtText (printSig s))
  | none => pure "none"

/-- `sighints <k> <text>* <T|F> <m> <text>*` -/
def sighints : P String := do
  let ins ← counted text
  let hasRet ← bool
  let outs ← counted text
  match parseHints ins (if hasRet then some outs else none) with
  | some s => pure ("ok " ++ fmtText (printSig s))
  | none => pure "none"

/-- `sigequiv <text> <text>` → `T` | `F` | `none` (a text does not parse) -/
def sigequiv : P String := do
  let a ← text
  let b ← text
  match parseSig a, parseSig b with
  | some x, some y => pure (if x.equivalent y then "T" else "F")
  | _, _ => pure "none"

end Xgcm.Driver

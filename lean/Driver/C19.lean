import Driver.Proto
import XgcmModel.Model.Coords
namespace Xgcm.Driver
open Xgcm Xgcm.Proto

/-- `c19 <dsCoords: n (name k dim*)> <resDims> <keep>` → names of the coordinates on the result -/
def c19 : P String := do
  let cs ← counted (do let n ← tok; let ds ← counted tok; pure ({ name := n, dims := ds } : CoordM))
  let resDims ← counted tok
  let keep ← bool
  pure ("ok " ++ String.intercalate " " ((reattach cs resDims keep).map (·.name)))

end Xgcm.Driver

import Driver.Proto
import XgcmModel.Model.Chunks
import XgcmModel.Gen.Regex
namespace Xgcm.Driver
open Xgcm Xgcm.Proto

/-- `c06merge <chunks> lo hi` → merged chunk pattern -/
def c06merge : P String := do
  let chunks ← counted nat
  let lo ← nat
  let hi ← nat
  pure ("ok " ++ String.intercalate " " ((mergeChunks chunks lo hi).map toString))

/-- `c06mode <isDask> <coreChunked> <funcname> <positions>` → dask, map_overlap, allowed? -/
def c06mode : P String := do
  let isDask ← bool
  let cc ← bool
  let f ← tok
  let ps ← counted pos
  let m := daskMode isDask cc f
  let allowed := !m.mapOverlap || overlapAllowed Gen.disallowedOverlapPositions ps
  pure s!"ok {m.dask} {if m.mapOverlap then "T" else "F"} {if allowed then "T" else "F"}"

end Xgcm.Driver

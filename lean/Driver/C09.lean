import Driver.Proto
import XgcmModel.Model.Cumsum
import XgcmModel.Spec.C09
import XgcmModel.Gen.GridDefaults
namespace Xgcm.Driver
open Xgcm Xgcm.Proto

def c09 : P String := do
  let g ← grid
  let a ← ndarr
  let axes ← counted tok
  let to ← kw tok
  let b ← kw tok
  let f ← kw rat
  pure (fmtRes (cumsumND ratOps Gen.cumsumTable g a axes to b f))

def c09spec : P String := do
  let g ← grid
  let a ← ndarr
  let axes ← counted tok
  let to ← kw tok
  let b ← kw tok
  let f ← kw rat
  pure (fmtOpt (specCumsumND ratOps g a axes to b f))

end Xgcm.Driver

import Driver.C17
import XgcmModel.Model.FacePad
namespace Xgcm.Driver
open Xgcm Xgcm.Proto

abbrev Cell := Array Rat

def faceArrays (nfaces nrest : Nat) : P (Nat → Arr2 Cell) := do
  let nx ← nat
  let ny ← nat
  let vals ← many (nfaces * nx * ny * nrest) rat
  let arr := vals.toArray
  pure (fun f =>
    { nx := nx, ny := ny
      get := fun i j => (Array.range nrest).map (fun r => arr.getD (((f * nx + i) * ny + j) * nrest + r) 0) })

def fmtFaces (nfaces nrest : Nat) (out : Nat → Arr2 Cell) : String :=
  let a0 := out 0
  let vals : List String := (List.range nfaces).flatMap (fun f =>
    let a := out f
    (List.range a.nx).flatMap (fun i => (List.range a.ny).flatMap (fun j =>
      let cell := a.get i j
      (List.range nrest).map (fun r => fmtRat (cell.getD r 0)))))
  String.intercalate " " ([toString a0.nx, toString a0.ny] ++ vals)

/-- `c05 xAxis yAxis <table> <padAxes> reqX reqY ruleX fillX ruleY fillY <N | V ax> nfaces nrest <data> [<partner>]` -/
def c05 : P String := do
  let xA ← tok
  let yA ← tok
  let tbl ← faceTable
  let padAxes ← counted tok
  let rxl ← nat; let rxh ← nat; let ryl ← nat; let ryh ← nat
  let ruleX ← rule; let fillX ← rat
  let ruleY ← rule; let fillY ← rat
  let vtag ← tok
  let vec ← match vtag with
    | "N" => pure none
    | "V" => do pure (some (← tok))
    | _ => throw "bad vec tag"
  let nfaces ← nat
  let nrest ← nat
  let data ← faceArrays nfaces nrest
  let partner ← match vec with
    | none => pure data
    | some _ => faceArrays nfaces nrest
  let cfg : FPCfg Cell :=
    { xAxis := xA, yAxis := yA, conn := tbl, padAxes := padAxes, reqX := (rxl, rxh), reqY := (ryl, ryh),
      ruleX := ruleX, fillX := Array.replicate nrest fillX, ruleY := ruleY,
      fillY := Array.replicate nrest fillY, neg := fun c => c.map (fun x => -x), vectorAxis := vec }
  pure ("ok " ++ fmtFaces nfaces nrest (fun f => padFaceConnections cfg data partner f))

end Xgcm.Driver

import Driver.Proto
import XgcmModel.Model.Dispatch
import XgcmModel.Model.InterpLike
import XgcmModel.Spec.C01
import XgcmModel.Gen.Gridops
namespace Xgcm.Driver
open Xgcm Xgcm.Proto

/-- `c01 <func> <grid> <arr> <axes> <to> <boundary> <fill>`: model answer -/
def c01 : P String := do
  let fname ← tok
  let g ← grid
  let a ← ndarr
  let axes ← counted tok
  let to ← kw tok
  let b ← kw tok
  let f ← kw rat
  pure (fmtRes (dispatch ratOps Gen.gridops g fname a axes to b f))

/-- same request, answered by the specification -/
def c01spec : P String := do
  let fname ← tok
  let g ← grid
  let a ← ndarr
  let axes ← counted tok
  let to ← kw tok
  let b ← kw tok
  let f ← kw rat
  match Func.ofString? fname with
  | none => pure "none"
  | some fn => pure (fmtOpt (specDispatch (fn.op ratOps) g a axes to b f))

/-- `c10interplike <grid> <arr> <like dims> <boundary> <fill>`: the model of Grid.interp_like -/
def c10interplike : P String := do
  let g ← grid
  let a ← ndarr
  let likeDims ← counted tok
  let b ← kw tok
  let f ← kw rat
  pure (fmtRes (interpLike ratOps Gen.gridops g a likeDims b f))

end Xgcm.Driver

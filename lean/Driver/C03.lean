import Driver.C05
import XgcmModel.Model.Dispatch
import XgcmModel.Gen.Gridops
namespace Xgcm.Driver
open Xgcm Xgcm.Proto

/-- stencil of a predefined ufunc along the first (axisX) or second index of a padded face -/
def faceStencil (e : UfuncEntry) (axisX : Bool) (nrest : Nat) (P : Arr2 Cell) : Option (Arr2 Cell) :=
  let probe := e.body.eval ratOps (List.replicate (if axisX then P.nx else P.ny) (0 : Rat))
  match probe with
  | none => none
  | some pl =>
    let m := pl.length
    let lineOut (fixed r : Nat) : List Rat :=
      let line := if axisX then (List.range P.nx).map (fun i => (P.get i fixed).getD r 0)
                  else (List.range P.ny).map (fun j => (P.get fixed j).getD r 0)
      (e.body.eval ratOps line).getD []
    some (if axisX then
      { nx := m, ny := P.ny
        get := fun i j => (Array.range nrest).map (fun r => (lineOut j r).getD i 0) }
    else
      { nx := P.nx, ny := m
        get := fun i j => (Array.range nrest).map (fun r => (lineOut i r).getD j 0) })

/-- `c03op <func> <from> <to> <X|Y> <c05 arguments with req widths ignored>`:
    Grid.diff/interp/min/max on a face-connected grid = pad by the selected ufunc's widths, then its body -/
def c03op : P String := do
  let fname ← tok
  let fpos ← pos
  let tpos ← pos
  let axTok ← tok
  let axisX := axTok == "X"
  let xA ← tok
  let yA ← tok
  let tbl ← faceTable
  let padAxes ← counted tok
  let ruleX ← rule; let fillX ← rat
  let ruleY ← rule; let fillY ← rat
  let vtag ← tok
  let vec ← match vtag with
    | "N" => pure none
    | "V" => do pure (some (← tok))
    | _ => throw "bad vec tag"
  let nfaces ← nat
  let nrest ← nat
  let data ← faceArrays nfaces nrest
  let partner ← match vec with
    | none => pure data
    | some _ => faceArrays nfaces nrest
  match selectUfunc Gen.gridops fname fpos tpos with
  | .error e => pure s!"err {e}"
  | .ok e =>
    let cfg : FPCfg Cell :=
      { xAxis := xA, yAxis := yA, conn := tbl, padAxes := padAxes,
        reqX := if axisX then (e.lo, e.hi) else (0, 0), reqY := if axisX then (0, 0) else (e.lo, e.hi),
        ruleX := ruleX, fillX := Array.replicate nrest fillX, ruleY := ruleY,
        fillY := Array.replicate nrest fillY, neg := fun c => c.map (fun x => -x), vectorAxis := vec }
    let outs := (List.range nfaces).map (fun f =>
      faceStencil e axisX nrest (padFaceConnections cfg data partner f))
    if outs.any Option.isNone then pure "err NotImplementedError" else
    pure ("ok " ++ fmtFaces nfaces nrest (fun f => (outs.getD f none).getD ⟨0, 0, fun _ _ => #[]⟩))

end Xgcm.Driver

import Driver.Proto
import XgcmModel.Model.Parsers
namespace Xgcm.Driver
open Xgcm Xgcm.Proto

def fmtCoords (r : Except Err (List (Pos × String))) : String :=
  match r with
  | .ok m => "ok " ++ String.intercalate " " (m.map (fun e => s!"{e.1}={e.2}"))
  | .error e => s!"err {e}"

/-- `c14comodo <n> (name len (N | shift2))*` -/
def c14comodo : P String := do
  let coords ← counted (do
    let n ← tok
    let l ← nat
    let s ← tok
    let sh ← if s == "N" then pure none else
      match s.toInt? with | some z => pure (some z) | none => throw "bad shift"
    pure ({ name := n, len := l, shift2 := sh } : CCoord))
  pure (fmtCoords (comodoAxis coords))

/-- `c14sgrid <tokens> <node>` -/
def c14sgrid : P String := do
  let toks ← counted tok
  let node ← tok
  pure (fmtCoords (sgridAxis toks node))

end Xgcm.Driver

import XgcmModel.Model.Basic
import XgcmModel.Model.Pad1D
import XgcmModel.Model.Stencil
import XgcmModel.Model.NDArr

#!/usr/bin/env python3
"""tools/seed_eval.py <seeded/NAME> [--no-suite] [--checks C01,C13] [--tier quick]

Confirms a seeded change and measures which checks notice it.
  1. the patch applies to a clean checkout of /repo's HEAD (scratch worktree under /tmp, removed afterwards)
  2. the demonstration exits 0 on the unchanged tree and 1 with the patch
  3. the pinned test-suite still passes with the patch (same summary as the unchanged tree)
  4. the patch is applied to /repo's working tree, the named checks are run, and the patch is undone
     (`git -C /repo checkout -- .`) whatever happens.
Results are merged into <seeded/NAME>/meta.json.  Nothing is ever committed in /repo.
"""
import json
import os
import re
import subprocess
import sys
import time

VERIF = os.path.dirname(os.path.dirname(os.path.abspath(__file__)))
REPO = "/repo"
PY = "/venv/bin/python"
EXPECT = "4087 passed, 95 skipped, 48 xfailed, 8 xpassed"


def sh(cmd, **kw):
    return subprocess.run(cmd, shell=True, capture_output=True, text=True, **kw)


def main():
    args = sys.argv[1:]
    d = os.path.abspath(args[0])
    no_suite = "--no-suite" in args
    tier = args[args.index("--tier") + 1] if "--tier" in args else "quick"
    meta_p = os.path.join(d, "meta.json")
    meta = json.load(open(meta_p)) if os.path.exists(meta_p) else {}
    checks = (args[args.index("--checks") + 1].split(",") if "--checks" in args else [meta.get("property")])
    patch = os.path.join(d, "patch.diff")
    demo = os.path.join(d, "demo.py")
    assert sh(f"git -C {REPO} status --porcelain").stdout.strip() == "", "/repo is not clean"
    env = dict(os.environ, PYTHONPATH=os.path.join(VERIF, "shims"), PYTHONDONTWRITEBYTECODE="1")
    if not meta.get("confirmed") or "--reconfirm" in args:
        wt = f"/tmp/wt_seed_{os.getpid()}"
        sh(f"git -C {REPO} worktree add -q --detach {wt} HEAD")
        try:
            r0 = sh(f"{PY} {demo}", cwd=wt, env=env, timeout=600)
            ap = sh(f"git apply {patch}", cwd=wt)
            meta["applies"] = ap.returncode == 0
            r1 = sh(f"{PY} {demo}", cwd=wt, env=env, timeout=600)
            meta["demo_exit_unchanged"] = r0.returncode
            meta["demo_exit_patched"] = r1.returncode
            meta["demo_output_patched"] = (r1.stdout + r1.stderr)[-1500:]
            if not no_suite:
                t = time.time()
                r = sh(f"{PY} -m pytest -q -p no:cacheprovider --timeout=900 -n 12 -q 2>&1 | tail -1", cwd=wt, timeout=3600)
                meta["suite_summary"] = r.stdout.strip()
                meta["suite_seconds"] = round(time.time() - t)
                meta["suite_same_as_unchanged"] = EXPECT in r.stdout
        finally:
            sh(f"git -C {REPO} worktree remove --force {wt}")
        meta["confirmed"] = bool(meta.get("applies") and meta["demo_exit_unchanged"] == 0 and meta["demo_exit_patched"] == 1
                                 and (no_suite or meta.get("suite_same_as_unchanged")))
    det = meta.setdefault("detection", {})
    if checks and checks[0]:
        ap = sh(f"git -C {REPO} apply {patch}")
        # evidence/<id>.json must describe runs on the unchanged tree only: keep and restore it
        saved = {c: open(os.path.join(VERIF, "evidence", c + ".json")).read() for c in checks
                 if os.path.exists(os.path.join(VERIF, "evidence", c + ".json"))}
        try:
            assert ap.returncode == 0, ap.stderr
            for c in checks:
                t = time.time()
                r = sh(f"{VERIF}/check {c} --tier {tier}", cwd=VERIF, timeout=3600)
                line = next((l for l in r.stdout.splitlines() if l.startswith("VIOLATION")), "")
                det[f"{c}:{tier}"] = {"exit": r.returncode, "violation_line": line, "seconds": round(time.time() - t),
                                      "summary": (r.stdout.strip().splitlines() or [""])[-1][:300]}
                if line:
                    m = re.search(r"replay=(\S+)", line)
                    if m and os.path.exists(m.group(1)):
                        rep = json.load(open(m.group(1)))
                        det[f"{c}:{tier}"]["replay_excerpt"] = json.dumps(rep.get("detail") or rep.get("case"))[:600]
                        det[f"{c}:{tier}"]["proof_broken"] = rep.get("proof_broken")
        finally:
            sh(f"git -C {REPO} checkout -- .")
            for c, txt in saved.items():
                open(os.path.join(VERIF, "evidence", c + ".json"), "w").write(txt)
            assert sh(f"git -C {REPO} status --porcelain").stdout.strip() == ""
    json.dump(meta, open(meta_p, "w"), indent=1)
    print(json.dumps({k: v for k, v in meta.items() if k != "demo_output_patched"}, indent=1)[:3000])


if __name__ == "__main__":
    main()

import json
props=[json.loads(l) for l in open('/verif/properties.jsonl')]
claimed = json.load(open('/verif/tools/claims.json'))
checks=[]
na=[]
for p in props:
    pid=p['id']
    if pid in claimed:
        c=claimed[pid]
        checks.append({
          "property_id": pid,
          "quick_cmd": f"./check {pid} --tier quick",
          "thorough_cmd": f"./check {pid} --tier thorough",
          "evidence_file": f"evidence/{pid}.json",
          "replay_cmd_template": f"./check {pid} --replay {{path}}",
          "engine": "lean4-proof+correspondence",
          "level_claimed": {"category":"proof","text":c["text"],"design_ref":c.get("design_ref","DESIGN.md section 5 / "+pid)},
          "level_note": c["note"],
          "technique": c["technique"],
        })
    else:
        na.append({"property_id":pid,"reason":"check not built yet in this round (no property is considered inapplicable to Lean proof; see DESIGN.md section 7)"})
m={"version":1,
 "setup_cmd":"cd lean && lake build XgcmModel driver",
 "hooks":{"guard":"XGCM_XGCM_VERIF","enable":"no hooks are compiled into xgcm; checks import /repo/xgcm as it is (editable install) with XGCM_XGCM_VERIF=1 set","baseline_off_cmd":"cd /repo && /venv/bin/python -m pytest -ra -q -p no:cacheprovider --timeout=900 --continue-on-collection-errors","source_commits":[],"add_only":True},
 "engines":[{"name":"lean4-proof+correspondence","path":"lean/ tools/ harness/","serves_properties":sorted(claimed),"kind_free_text":"Lean 4 theorems over an executable model whose tables are regenerated from /repo's sources on every run (tools/extract.py) and whose algorithms are tied to the real xgcm by a differential correspondence run (harness/*.py driving lean/.lake/build/bin/driver)"}],
 "checks":checks,
 "notes":"All checks: exit 0 held / 1 violation (VIOLATION line) / 2 infrastructure. VERIF_SEED seeds the single PRNG. See DESIGN.md.",
 "not_applicable":na}
json.dump(m,open('/verif/MANIFEST.json','w'),indent=1)
print(len(checks),'claimed',len(na),'na')

#!/usr/bin/env python3
"""./check <ID> [--tier quick|thorough] [--replay file]

Pipeline (DESIGN.md section 2.4):
  1. regenerate Gen/*.lean from /repo's current sources (translator)
  2. lake build  Properties.<ID>  and the model driver
  3. audit: forbidden-token grep + `#print axioms` of every property theorem
     (thorough: also leanchecker on the property module)
  4. correspondence + property evaluation on the real xgcm (harness/<id>.py)
  5. if 2/3/4 failed: failing-input search on the real code
  6. known findings, evidence JSON, exit code (0 held / 1 violation / 2 infrastructure)
"""
import argparse
import fcntl
import json
import os
import re
import subprocess
import sys
import time

VERIF = os.path.dirname(os.path.dirname(os.path.abspath(__file__)))
LEAN = os.path.join(VERIF, "lean")
PY = "/venv/bin/python"
STD_AXIOMS = {"propext", "Classical.choice", "Quot.sound"}
FORBIDDEN = re.compile(r"\bsorry\b|\badmit\b|^\s*axiom\s|native_decide|bv_decide|implemented_by|"
                       r"\bunsafe\s|maxHeartbeats\s+0")

# per property: harness budget (seconds, max cases) per tier
CONF = {
    "default": {"quick": (45, 600), "thorough": (420, 12000)},
    # C15: one case = one signature shape with its WHOLE single-character edit neighbourhood (thousands of strings),
    # slow on a cold machine; the quick tier is bounded by the number of shapes, not by the clock, so that every run
    # - warm or freshly restored - does the same work (the 468 shapes are all covered when the budget is widened)
    "C15": {"quick": (180, 120), "thorough": (420, 12000)},
    # C12: one case = a probe in several fresh interpreters (one per hash seed); bounded by the number of probes
    "C12": {"quick": (150, 24), "thorough": (420, 12000)},
}

TRUSTED_BASE = [
    "Lean 4.33.0 kernel (thorough tier: re-checked by leanchecker)",
    "axioms: subset of {propext, Classical.choice, Quot.sound}; no native_decide, no bv_decide, no sorry, no own axioms (audited every run)",
    "tools/extract.py (translator /repo/xgcm/*.py -> Gen/*.lean, Python ast)",
    "harness/*.py correspondence generators, canonicalisation and line protocol; Driver/*.lean protocol codec",
    "Lean compiler executing the model definitions in the driver",
    "third-party semantics (xarray pad/apply_ufunc/concat/isel, numpy, dask, re) are modelled, validated by the correspondence only",
    "real arithmetic: theorems over abstract operations / ordered fields; correspondence on dyadic rationals where float64 is exact",
]


def sh(cmd, cwd=None, timeout=None, env=None):
    p = subprocess.run(cmd, cwd=cwd, capture_output=True, text=True, timeout=timeout, env=env)
    return p.returncode, p.stdout + p.stderr


def strip_comments(text):
    text = re.sub(r"/-.*?-/", lambda m: "\n" * m.group(0).count("\n"), text, flags=re.S)
    return re.sub(r"--.*", "", text)


def lean_sources():
    for root, _, files in os.walk(LEAN):
        if ".lake" in root:
            continue
        for f in files:
            if f.endswith(".lean"):
                yield os.path.join(root, f)


def grep_forbidden():
    hits = []
    for path in lean_sources():
        with open(path) as f:
            body = strip_comments(f.read())
        for i, line in enumerate(body.splitlines(), 1):
            if FORBIDDEN.search(line):
                hits.append(f"{os.path.relpath(path, VERIF)}:{i}: {line.strip()[:100]}")
    return hits


def property_theorems(pid):
    """names of the theorems declared in Properties/<pid>.lean (fully qualified)"""
    path = os.path.join(LEAN, "XgcmModel", "Properties", f"{pid}.lean")
    with open(path) as f:
        body = strip_comments(f.read())
    ns = []
    names = []
    for line in body.splitlines():
        m = re.match(r"\s*namespace\s+(\S+)", line)
        if m:
            ns.append(m.group(1))
        m = re.match(r"\s*end\s+(\S+)", line)
        if m and ns and ns[-1] == m.group(1):
            ns.pop()
        m = re.match(r"\s*(?:@\[[^\]]*\]\s*)?theorem\s+(\S+)", line)
        if m:
            names.append(".".join(ns + [m.group(1)]))
    return names


def audit_axioms(pid, thms):
    os.makedirs(os.path.join(LEAN, ".lake", "audit"), exist_ok=True)
    path = os.path.join(LEAN, ".lake", "audit", f"{pid}.lean")
    with open(path, "w") as f:
        f.write(f"import XgcmModel.Properties.{pid}\n")
        for t in thms:
            f.write(f"#print axioms {t}\n")
    rc, out = sh(["lake", "env", "lean", path], cwd=LEAN, timeout=600)
    res = {}
    # "'X' depends on axioms: [a, b]"  |  "'X' does not depend on any axioms"
    for m in re.finditer(r"'([^']+)' depends on axioms: \[([^\]]*)\]", out.replace("\n ", " ")):
        res[m.group(1)] = {a.strip() for a in m.group(2).split(",") if a.strip()}
    for m in re.finditer(r"'([^']+)' does not depend on any axioms", out):
        res[m.group(1)] = set()
    return rc, out, res


def main():
    ap = argparse.ArgumentParser()
    ap.add_argument("pid")
    ap.add_argument("--tier", default=os.environ.get("VERIF_TIER", "quick"))
    ap.add_argument("--replay")
    args = ap.parse_args()
    pid = args.pid
    tier = args.tier if args.tier in ("quick", "thorough") else "quick"
    seed = int(os.environ.get("VERIF_SEED", "0"))
    t0 = time.time()
    log = []
    os.makedirs(os.path.join(VERIF, "evidence"), exist_ok=True)
    os.makedirs(os.path.join(VERIF, "replays"), exist_ok=True)
    ev_path = os.path.join(VERIF, "evidence", f"{pid}.json")

    def say(*a):
        print(*a, flush=True)

    # ---- 1+2: translate and build (serialised: lake is not re-entrant) -------------
    lock = open(os.path.join(LEAN, ".buildlock"), "w")
    fcntl.flock(lock, fcntl.LOCK_EX)
    try:
        rc, out = sh([sys.executable, os.path.join(VERIF, "tools", "extract.py")])
        say(out.strip())
        if rc != 0:
            say("INFRA: translator failed")
            return 2
        rc_drv, out_drv = sh(["lake", "build", "driver"], cwd=LEAN, timeout=1800)
        if rc_drv != 0:
            say(out_drv[-3000:])
            say("INFRA: model driver does not build")
            return 2
        rc_prop, out_prop = sh(["lake", "build", f"XgcmModel.Properties.{pid}"], cwd=LEAN, timeout=1800)
    finally:
        fcntl.flock(lock, fcntl.LOCK_UN)
    proof_broken = []
    if rc_prop != 0:
        errs = re.findall(r"error: (\S+\.lean:\d+:\d+): (.*)", out_prop)
        proof_broken = [f"{p}: {m[:160]}" for p, m in errs][:20] or ["lake build failed"]
        say("proof obligations no longer check:")
        for e in proof_broken:
            say("   " + e)

    # ---- 3: audit ---------------------------------------------------------------------
    thms = property_theorems(pid)
    audit_bad = []
    forb = grep_forbidden()
    if forb:
        audit_bad += ["forbidden token: " + h for h in forb]
    axioms_seen = {}
    if rc_prop == 0:
        rc_a, out_a, axioms_seen = audit_axioms(pid, thms)
        for t in thms:
            if t not in axioms_seen:
                audit_bad.append(f"no axiom report for {t}")
            elif not axioms_seen[t] <= STD_AXIOMS:
                audit_bad.append(f"{t} depends on {sorted(axioms_seen[t] - STD_AXIOMS)}")
        if tier == "thorough":
            rc_l, out_l = sh(["lake", "env", "leanchecker", f"XgcmModel.Properties.{pid}"], cwd=LEAN,
                             timeout=3600)
            if rc_l != 0:
                audit_bad.append("leanchecker rejected the property module: " + out_l[-300:])
    if audit_bad:
        say("audit failures:")
        for a in audit_bad[:20]:
            say("   " + a)

    # ---- 4/5: harness (correspondence + property on the real code) ---------------------
    conf = CONF.get(pid, CONF["default"])[tier]
    seconds, max_cases = conf
    searching = bool(proof_broken or audit_bad)
    if searching and not args.replay:
        # a proof obligation broke: widen to the thorough generator with a time cap
        seconds, max_cases = max(seconds, 240), max(max_cases, 6000)
    # anchored source differs from the committed baseline (tools/anchors.json): look harder.  Never an alarm by itself.
    source_changed = {}
    try:
        sys.path.insert(0, os.path.join(VERIF, "tools"))
        import fingerprint
        anchored = set()
        for line in open(os.path.join(VERIF, "properties.jsonl")):
            pr = json.loads(line)
            if pr["id"] == pid:
                anchored = {os.path.basename(f) for f in pr.get("anchors", {}).get("files", [])}
        source_changed = {m: q for m, q in fingerprint.changed_since_baseline().items() if m in anchored}
    except Exception as e:  # noqa: BLE001  -- informational only
        say(f"(fingerprint comparison skipped: {type(e).__name__}: {e})")
    if source_changed and not args.replay and not searching:
        n_fn = sum(len(q) for q in source_changed.values())
        say(f"anchored source differs from the baseline in {n_fn} place(s) "
            f"({', '.join(m + ':' + '/'.join(q[:3]) for m, q in source_changed.items())}): widening the search")
        seconds, max_cases = int(seconds * 3.5), max_cases * 4
    res_path = os.path.join(VERIF, "replays", f".result-{pid}-{os.getpid()}.json")
    cmd = [PY, os.path.join(VERIF, "harness", "run.py"), pid, "--tier",
           "thorough" if searching else tier, "--seed", str(seed), "--seconds", str(seconds),
           "--max-cases", str(max_cases), "--out", res_path]
    if args.replay:
        cmd += ["--replay", args.replay]
    env = dict(os.environ)
    env["PYTHONHASHSEED"] = env.get("PYTHONHASHSEED", "0")
    try:
        p = subprocess.run(cmd, capture_output=True, text=True, timeout=seconds * 4 + 900, env=env)
    except subprocess.TimeoutExpired:
        say("INFRA: harness timed out")
        return 2
    if p.returncode != 0 or not os.path.exists(res_path):
        say(p.stdout[-2000:])
        say(p.stderr[-4000:])
        say("INFRA: harness failed")
        return 2
    with open(res_path) as f:
        res = json.load(f)
    os.remove(res_path)
    for n in res.get("notes", []):
        say("note: " + n)
    if res.get("infra_error"):
        say("INFRA: harness error")
        return 2

    # ---- 6: verdict ---------------------------------------------------------------------
    violations = 0
    seen_known = {}
    for fid, origin in res["known_hits"]:
        seen_known.setdefault(fid, origin)
    known = {k["id"]: k for k in json.load(open(os.path.join(VERIF, "known_findings.json")))["findings"]}
    for fid in seen_known:
        k = known.get(fid, {})
        say(f"KNOWN-FINDING: property={pid} {fid}: {k.get('what', '')}")
    replay_out = None
    if res["violations"]:
        v = res["violations"][0]
        replay_out = os.path.join(VERIF, "replays", f"{pid}-{v['digest']}.json")
        with open(replay_out, "w") as f:
            json.dump({"property": pid, "case": v["case"], "detail": v["detail"], "seed": seed,
                       "how_found": v["origin"], "proof_broken": proof_broken,
                       "n_failing_cases": len(res["violations"])}, f, indent=1, default=str)
        say(f"VIOLATION property={pid} replay={replay_out}")
        violations = len(res["violations"])
    elif proof_broken or audit_bad or res["corr_mismatch"]:
        what = {"property": pid, "seed": seed,
                "theorems_no_longer_checking": proof_broken, "audit": audit_bad,
                "correspondence_cases_differing": res["corr_mismatch"][:5],
                "note": "no input violating the property itself was found within the search budget; "
                        "the property is no longer shown to hold"}
        replay_out = os.path.join(VERIF, "replays", f"{pid}-unproved-{int(time.time())}.json")
        with open(replay_out, "w") as f:
            json.dump(what, f, indent=1, default=str)
        say(f"VIOLATION property={pid} replay={replay_out} no-failing-input-found")
        violations = 1

    n_thm = len(thms)
    n_corr = 1
    obligations = n_thm + 1 + n_corr      # theorems + audit + correspondence
    discharged = (n_thm if rc_prop == 0 else 0) + (0 if audit_bad or rc_prop != 0 else 1) + \
                 (0 if (res["corr_mismatch"] or res["violations"]) else 1)
    evidence = {
        "property_id": pid, "tier": tier, "seed": seed, "level": "proof",
        "coverage": {
            "obligations": obligations, "discharged": discharged,
            "checker_cmd": f"cd lean && lake build XgcmModel.Properties.{pid} && lake env lean .lake/audit/{pid}.lean"
                           + (" && lake env leanchecker XgcmModel.Properties." + pid if tier == "thorough" else ""),
            "trusted_base": TRUSTED_BASE,
            "theorems": thms,
            "axioms": {t: sorted(a) for t, a in axioms_seen.items()},
            "evaluations": res["evaluations"], "distinct_nontrivial": res["distinct_nontrivial"],
            "rule": res["rule"], "samples": res["samples"], "exhaustive": res["exhaustive"],
            "branch_histogram": res["hist"], "correspondence_mismatches": len(res["corr_mismatch"]),
            "known_findings_hit": sorted(seen_known), "tie": res.get("tie", "translator + correspondence"),
            "anchored_source_changed_since_baseline": source_changed,
        },
        "assumptions": res.get("assumptions", []) + [
            "model = code only as far as the regenerated tables and the sampled correspondence show"],
        "wall_s": round(time.time() - t0, 2),
        "violations": violations,
    }
    with open(ev_path, "w") as f:
        json.dump(evidence, f, indent=1, default=str)
    say(f"{pid} [{tier}] theorems={n_thm} evaluations={res['evaluations']} "
        f"nontrivial={res['distinct_nontrivial']} corr_mismatch={len(res['corr_mismatch'])} "
        f"violations={violations} wall={evidence['wall_s']}s")
    return 1 if violations else 0


if __name__ == "__main__":
    sys.exit(main())

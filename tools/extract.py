#!/usr/bin/env python3
"""Translator: /repo/xgcm/*.py  ->  /verif/lean/XgcmModel/Gen/*.lean

Parses the sources with `ast` (never imports xgcm) and writes plain-data Lean
files.  Files are rewritten only when their content changes, so that
`lake build` stays incremental.  Anything the recognisers do not understand is
emitted as an `opaque` value instead of failing: Gen files must always
type-check; the theorems over them are what may stop checking.
"""
import ast
import json
import os
import sys

REPO = os.environ.get("XGCM_REPO", "/repo")
HERE = os.path.dirname(os.path.abspath(__file__))
GEN = os.environ.get("XGCM_GEN_OUT") or os.path.join(os.path.dirname(HERE), "lean", "XgcmModel", "Gen")

POSITIONS = ["center", "left", "right", "inner", "outer"]


def lean_str(s):
    return json.dumps(s, ensure_ascii=True)


def src(path):
    with open(os.path.join(REPO, "xgcm", path)) as f:
        return f.read()


def write_if_changed(name, text):
    path = os.path.join(GEN, name)
    os.makedirs(GEN, exist_ok=True)
    old = None
    if os.path.exists(path):
        with open(path) as f:
            old = f.read()
    if old != text:
        with open(path, "w") as f:
            f.write(text)
        return True
    return False


# --------------------------------------------------------------------------
# gridops.py  ->  Gen/Gridops.lean
# --------------------------------------------------------------------------

class Unrecognised(Exception):
    pass


def _is_ellipsis_slice(node, kind):
    """a[..., 1:] (kind='tail') or a[..., :-1] (kind='init')"""
    if not isinstance(node, ast.Subscript):
        return False
    sl = node.slice
    if not (isinstance(sl, ast.Tuple) and len(sl.elts) == 2):
        return False
    e0, e1 = sl.elts
    if not (isinstance(e0, ast.Constant) and e0.value is Ellipsis):
        return False
    if not isinstance(e1, ast.Slice) or e1.step is not None:
        return False
    if kind == "tail":
        return (isinstance(e1.lower, ast.Constant) and e1.lower.value == 1
                and e1.upper is None)
    if kind == "init":
        up = e1.upper
        is_m1 = (isinstance(up, ast.UnaryOp) and isinstance(up.op, ast.USub)
                 and isinstance(up.operand, ast.Constant) and up.operand.value == 1) or (
                     isinstance(up, ast.Constant) and up.value == -1)
        return e1.lower is None and is_m1
    return False


def _kw(call, name):
    for k in call.keywords:
        if k.arg == name:
            return k.value
    return None


def _const_m1(node):
    if isinstance(node, ast.Constant) and node.value == -1:
        return True
    return (isinstance(node, ast.UnaryOp) and isinstance(node.op, ast.USub)
            and isinstance(node.operand, ast.Constant) and node.operand.value == 1)


def _np_call(node, fname):
    return (isinstance(node, ast.Call) and isinstance(node.func, ast.Attribute)
            and isinstance(node.func.value, ast.Name) and node.func.value.id == "np"
            and node.func.attr == fname)


# The bodies are run through a small SYMBOLIC EVALUATOR: straight-line code (assignments, tuple unpacking, return /
# raise NotImplementedError) over values that are either an Expr term (a string), a tuple of values, a stacked pair
# (np.stack([l, r], axis=-1)) or a function value (np.min, np.max, a module-level helper).  Calls of module-level
# helpers are evaluated by binding their parameters (any number, any depth up to 6, no recursion), so that moving
# code into helpers - or inlining helpers - changes nothing in what is extracted.

def _sv_expr(v):
    if isinstance(v, str):
        return v
    raise Unrecognised("not an array expression")


def _np_attr(node):
    """np.<name> used as a value or as a callee"""
    if isinstance(node, ast.Attribute) and isinstance(node.value, ast.Name) and node.value.id == "np":
        return node.attr
    return None


def _call_np(fname, args, kwargs):
    ax = kwargs.get("axis")
    if fname in ("min", "max") and len(args) == 1 and ax == -1 and isinstance(args[0], tuple) \
            and args[0][0] == "stack":
        return f"({'.pmin' if fname == 'min' else '.pmax'} {args[0][1]} {args[0][2]})"
    if fname == "cumsum" and len(args) == 1 and ax == -1:
        return f"(.cumsum {_sv_expr(args[0])})"
    if fname == "stack" and len(args) == 1 and ax == -1 and isinstance(args[0], tuple) and args[0][0] == "tuple" \
            and len(args[0][1]) == 2:
        return ("stack", _sv_expr(args[0][1][0]), _sv_expr(args[0][1][1]))
    raise Unrecognised("np." + fname)


def expr_of(node, env, helpers, depth=0):
    """symbolic value of a Python expression"""
    if isinstance(node, ast.Name):
        if node.id in env:
            return env[node.id]
        if node.id in helpers:
            return ("func", node.id)
        raise Unrecognised(node.id)
    if _np_attr(node) is not None:
        return ("npfunc", _np_attr(node))
    if isinstance(node, (ast.Tuple, ast.List)):
        return ("tuple", [expr_of(e, env, helpers, depth) for e in node.elts])
    if isinstance(node, ast.Constant) and isinstance(node.value, (int, float)) and not isinstance(node.value, bool):
        return ("const", node.value)
    if isinstance(node, ast.UnaryOp) and isinstance(node.op, ast.USub) and isinstance(node.operand, ast.Constant):
        return ("const", -node.operand.value)
    if _is_ellipsis_slice(node, "tail"):
        return f"(.tail {_sv_expr(expr_of(node.value, env, helpers, depth))})"
    if _is_ellipsis_slice(node, "init"):
        return f"(.init {_sv_expr(expr_of(node.value, env, helpers, depth))})"
    if isinstance(node, ast.BinOp):
        l = expr_of(node.left, env, helpers, depth)
        r = expr_of(node.right, env, helpers, depth)
        if isinstance(node.op, ast.Sub):
            return f"(.sub {_sv_expr(l)} {_sv_expr(r)})"
        if isinstance(node.op, ast.Add):
            return f"(.add {_sv_expr(l)} {_sv_expr(r)})"
        if isinstance(node.op, ast.Div) and isinstance(r, tuple) and r[0] == "const" \
                and float(r[1]).is_integer() and r[1] > 0:
            return f"(.divNat {_sv_expr(l)} {int(r[1])})"
        raise Unrecognised("binop")
    if isinstance(node, ast.Call):
        args = [expr_of(a, env, helpers, depth) for a in node.args]
        kwargs = {}
        for k in node.keywords:
            if k.arg is None:
                raise Unrecognised("**kwargs")
            v = expr_of(k.value, env, helpers, depth)
            kwargs[k.arg] = v[1] if isinstance(v, tuple) and v[0] == "const" else v
        f = expr_of(node.func, env, helpers, depth)
        if isinstance(f, tuple) and f[0] == "npfunc":
            return _call_np(f[1], args, kwargs)
        if isinstance(f, tuple) and f[0] == "func" and depth < 6:
            h = helpers[f[1]]
            params = [a.arg for a in h.args.args]
            if h.args.vararg or h.args.kwarg or h.args.kwonlyargs or len(args) + len(kwargs) != len(params) \
                    or any(k not in params for k in kwargs):
                raise Unrecognised("helper signature")
            bound = dict(zip(params, args))
            bound.update(kwargs)
            return body_of(h, bound, helpers, depth + 1)
        raise Unrecognised("call")
    raise Unrecognised(ast.dump(node)[:60])


def body_of(fn, env, helpers, depth=0):
    env = dict(env)
    stmts = [s for s in fn.body
             if not (isinstance(s, ast.Expr) and isinstance(s.value, ast.Constant))]
    if not stmts:
        raise Unrecognised("empty body")
    for s in stmts[:-1]:
        if isinstance(s, ast.Assign) and len(s.targets) == 1:
            tgt = s.targets[0]
            val = expr_of(s.value, env, helpers, depth)
            if isinstance(tgt, ast.Name):
                env[tgt.id] = val
                continue
            if isinstance(tgt, ast.Tuple) and all(isinstance(t, ast.Name) for t in tgt.elts) \
                    and isinstance(val, tuple) and val[0] == "tuple" and len(val[1]) == len(tgt.elts):
                for t, v in zip(tgt.elts, val[1]):
                    env[t.id] = v
                continue
        raise Unrecognised("stmt")
    last = stmts[-1]
    if isinstance(last, ast.Return) and last.value is not None:
        return expr_of(last.value, env, helpers, depth)
    if isinstance(last, ast.Raise):
        exc = last.exc
        name = exc.id if isinstance(exc, ast.Name) else (
            exc.func.id if isinstance(exc, ast.Call) and isinstance(exc.func, ast.Name) else None)
        if name == "NotImplementedError":
            return ".raiseNotImpl"
    raise Unrecognised("last")


def parse_simple_sig(sig):
    """(X:from)->(X:to) with one name; returns (from, to) or None"""
    import re
    m = re.fullmatch(r"\((\w+):(\w+)\)->\((\w+):(\w+)\)", sig.replace(" ", ""))
    if not m or m.group(1) != m.group(3):
        return None
    if m.group(2) not in POSITIONS or m.group(4) not in POSITIONS:
        return None
    return m.group(1), m.group(2), m.group(4)


def literal(node):
    try:
        return ast.literal_eval(node)
    except Exception:
        return None


def gen_gridops():
    text = src("gridops.py")
    tree = ast.parse(text)
    helpers = {}
    entries = []
    consts_env = module_constants(tree)
    for node in tree.body:
        if not isinstance(node, ast.FunctionDef):
            continue
        deco = None
        deco_kwargs = None
        for d in node.decorator_list:
            if isinstance(d, ast.Call) and isinstance(d.func, ast.Name) and d.func.id == "as_grid_ufunc":
                deco = d
            else:
                # a decorator factory / functools.partial of one: evaluate it down to as_grid_ufunc(**kwargs)
                try:
                    v = _const_eval(d, consts_env)
                    if isinstance(v, _Deco):
                        deco_kwargs = v.kwargs
                except Exception:  # noqa: BLE001
                    pass
        if deco is None and deco_kwargs is None:
            helpers[node.name] = node
            continue
        if deco is not None:
            sig = literal(_kw(deco, "signature")) if _kw(deco, "signature") is not None else None
            bw = literal(_kw(deco, "boundary_width")) if _kw(deco, "boundary_width") is not None else None
            opts = {k.arg: literal(k.value) for k in deco.keywords
                    if k.arg not in ("signature", "boundary_width")}
        else:
            sig = deco_kwargs.get("signature")
            bw = deco_kwargs.get("boundary_width")
            opts = {k: v for k, v in deco_kwargs.items() if k not in ("signature", "boundary_width")}
        parsed = parse_simple_sig(sig) if isinstance(sig, str) else None
        try:
            if len(node.args.args) != 1:
                raise Unrecognised("arity")
            body = body_of(node, {node.args.args[0].arg: ".arg"}, helpers)
            if not isinstance(body, str):
                raise Unrecognised("the body does not return an array expression")
        except (Unrecognised, RecursionError):
            body = f"(.opaque {lean_str(ast.get_source_segment(text, node) or node.name)})"
        entries.append((node.name, sig, parsed, bw, opts, body))

    lines = ["import XgcmModel.Model.Stencil",
             "/- GENERATED by tools/extract.py from xgcm/gridops.py — do not edit -/",
             "namespace Xgcm.Gen", "open Xgcm", ""]
    lines.append("/-- every `@as_grid_ufunc` function of gridops.py whose signature is a single")
    lines.append("    one-axis shift, in source order -/")
    lines.append("def gridops : List UfuncEntry := [")
    rows = []
    odd = []
    for name, sig, parsed, bw, opts, body in entries:
        if parsed is None:
            odd.append((name, sig))
            continue
        dummy, f, t = parsed
        lo, hi = 0, 0
        if isinstance(bw, dict):
            if set(bw.keys()) == {dummy} and isinstance(bw[dummy], tuple) and len(bw[dummy]) == 2 \
                    and all(isinstance(w, int) and w >= 0 for w in bw[dummy]):
                lo, hi = bw[dummy]
            else:
                odd.append((name, sig))
                continue
        rows.append(f"  {{ name := {lean_str(name)}, from_ := .{f}, to_ := .{t}, lo := {lo}, hi := {hi},\n"
                    f"    body := {body} }}")
    lines.append(",\n".join(rows))
    lines.append("]")
    lines.append("")
    lines.append("/-- decorated functions whose signature / boundary_width the translator could not")
    lines.append("    put into `UfuncEntry` form (name, signature text) -/")
    lines.append("def gridopsOdd : List (String × String) := [" +
                 ", ".join(f"({lean_str(n)}, {lean_str(str(s))})" for n, s in odd) + "]")
    lines.append("")
    # decorator-time options (C11): name ↦ list of (option, repr)
    lines.append("/-- options bound at definition time, other than signature / boundary_width -/")
    lines.append("def gridopsOptions : List (String × List (String × String)) := [")
    lines.append(",\n".join(
        f"  ({lean_str(name)}, [" + ", ".join(f"({lean_str(k)}, {lean_str(repr(v))})" for k, v in sorted(opts.items())) + "])"
        for name, sig, parsed, bw, opts, body in entries if opts))
    lines.append("]")
    lines.append("")
    lines.append("end Xgcm.Gen")
    return write_if_changed("Gridops.lean", "\n".join(lines) + "\n")


# --------------------------------------------------------------------------
# axis.py / padding.py  ->  Gen/Axis.lean
# --------------------------------------------------------------------------

def module_assign(tree, name):
    for node in tree.body:
        if isinstance(node, ast.Assign) and len(node.targets) == 1 \
                and isinstance(node.targets[0], ast.Name) and node.targets[0].id == name:
            return node.value
    return None


# --------------------------------------------------------------------------
# module-level constants: a small evaluator of constant expressions
# --------------------------------------------------------------------------

class _NotConstant(Exception):
    pass


_PURE_BUILTINS = {"tuple": tuple, "list": list, "dict": dict, "set": set, "frozenset": frozenset, "sorted": sorted,
                  "zip": zip, "range": range, "len": len, "str": str, "int": int, "float": float, "reversed": reversed,
                  "enumerate": enumerate, "min": min, "max": max}
_PURE_METHODS = {str: {"split", "join", "strip", "lower", "upper", "format", "replace", "rstrip", "lstrip"},
                 dict: {"keys", "values", "items", "get", "copy"}, tuple: {"index", "count"}, list: {"index", "count", "copy"}}


def _const_eval(node, env):
    """value of an expression built from literals, earlier module constants, displays (with * / ** unpacking),
    f-strings, + and |, subscripts, and calls of a few pure builtins / methods (dict.fromkeys, str.split, ...)"""
    if isinstance(node, ast.Constant):
        return node.value
    if isinstance(node, ast.Name):
        if node.id in env:
            return env[node.id]
        raise _NotConstant(node.id)
    if isinstance(node, (ast.Tuple, ast.List, ast.Set)):
        out = []
        for e in node.elts:
            if isinstance(e, ast.Starred):
                out.extend(_const_eval(e.value, env))
            else:
                out.append(_const_eval(e, env))
        return tuple(out) if isinstance(node, ast.Tuple) else (list(out) if isinstance(node, ast.List) else set(out))
    if isinstance(node, ast.Dict):
        out = {}
        for k, v in zip(node.keys, node.values):
            if k is None:
                out.update(_const_eval(v, env))
            else:
                out[_const_eval(k, env)] = _const_eval(v, env)
        return out
    if isinstance(node, ast.JoinedStr):
        out = ""
        for v in node.values:
            if isinstance(v, ast.Constant):
                out += v.value
            elif isinstance(v, ast.FormattedValue) and v.conversion == -1 and v.format_spec is None:
                out += format(_const_eval(v.value, env))
            else:
                raise _NotConstant("f-string")
        return out
    if isinstance(node, ast.UnaryOp) and isinstance(node.op, ast.USub):
        return -_const_eval(node.operand, env)
    if isinstance(node, ast.BinOp) and isinstance(node.op, (ast.Add, ast.BitOr, ast.Mult, ast.Div, ast.Sub)):
        l, r = _const_eval(node.left, env), _const_eval(node.right, env)
        if isinstance(node.op, ast.Add):
            return l + r
        if isinstance(node.op, ast.BitOr):
            return l | r
        if isinstance(node.op, ast.Mult):
            return l * r
        if isinstance(node.op, ast.Sub):
            return l - r
        return l / r
    if isinstance(node, ast.Subscript):
        return _const_eval(node.value, env)[_const_eval(node.slice, env)]
    if isinstance(node, ast.Call):
        args = []
        for a in node.args:
            if isinstance(a, ast.Starred):
                args.extend(_const_eval(a.value, env))
            else:
                args.append(_const_eval(a, env))
        kwargs = {}
        for k in node.keywords:
            if k.arg is None:
                kwargs.update(_const_eval(k.value, env))
            else:
                kwargs[k.arg] = _const_eval(k.value, env)
        f = node.func
        # the decorator itself, functools.partial and one-expression helper functions of the module (decorator
        # factories): evaluated symbolically
        if isinstance(f, ast.Name) and f.id == "as_grid_ufunc" and f.id not in env:
            return _Deco(kwargs) if not args else _raise_not_constant()
        if ((isinstance(f, ast.Attribute) and isinstance(f.value, ast.Name) and f.value.id == "functools"
             and f.attr == "partial") or (isinstance(f, ast.Name) and f.id == "partial" and "partial" not in env)) and args:
            return _Partial(args[0], tuple(args[1:]), dict(kwargs))
        callee = None
        if isinstance(f, ast.Name) and isinstance(env.get(f.id), (_Func, _Partial)):
            callee = env[f.id]
        elif not isinstance(f, (ast.Name, ast.Attribute)):
            c = _const_eval(f, env)
            callee = c if isinstance(c, (_Func, _Partial)) else None
        if callee is not None:
            return _apply_callable(callee, args, kwargs, env)
        if isinstance(f, ast.Name) and f.id in _PURE_BUILTINS and f.id not in env:
            v = _PURE_BUILTINS[f.id](*args, **kwargs)
            return list(v) if isinstance(v, (zip, range, reversed, enumerate)) else v
        if isinstance(f, ast.Attribute):
            if isinstance(f.value, ast.Name) and f.value.id == "dict" and f.attr == "fromkeys" and "dict" not in env:
                return dict.fromkeys(*args)
            base = _const_eval(f.value, env)
            for ty, names in _PURE_METHODS.items():
                if isinstance(base, ty) and f.attr in names:
                    v = getattr(base, f.attr)(*args, **kwargs)
                    return list(v) if not isinstance(v, (str, int, float, tuple, list, dict, type(None))) else v
        raise _NotConstant("call")
    raise _NotConstant(type(node).__name__)


class _Deco:
    """as_grid_ufunc(**kwargs)"""
    def __init__(self, kwargs):
        self.kwargs = kwargs


class _Func:
    """a module-level function whose body is `return <expression>` (after an optional docstring)"""
    def __init__(self, node):
        self.node = node


class _Partial:
    def __init__(self, func, args, kwargs):
        self.func, self.args, self.kwargs = func, args, kwargs


def _raise_not_constant():
    raise _NotConstant("positional argument to as_grid_ufunc")


def _apply_callable(c, args, kwargs, env, depth=0):
    if depth > 6:
        raise _NotConstant("depth")
    if isinstance(c, _Partial):
        return _apply_callable(c.func, list(c.args) + list(args), {**c.kwargs, **kwargs}, env, depth + 1)
    if not isinstance(c, _Func):
        raise _NotConstant("callee")
    fn = c.node
    a = fn.args
    if a.posonlyargs or a.kwonlyargs or a.vararg:
        raise _NotConstant("signature")
    params = [x.arg for x in a.args]
    if len(args) > len(params):
        raise _NotConstant("arity")
    bound = dict(zip(params, args))
    extra = {}
    for k, v in kwargs.items():
        if k in params and k not in bound:
            bound[k] = v
        elif a.kwarg is not None:
            extra[k] = v
        else:
            raise _NotConstant("keyword")
    defaults = dict(zip(params[len(params) - len(a.defaults):], a.defaults))
    for p_ in params:
        if p_ not in bound:
            if p_ in defaults:
                bound[p_] = _const_eval(defaults[p_], env)
            else:
                raise _NotConstant("missing argument")
    if a.kwarg is not None:
        bound[a.kwarg.arg] = extra
    local = dict(env)
    local.update(bound)
    body = [s_ for s_ in fn.body if not (isinstance(s_, ast.Expr) and isinstance(s_.value, ast.Constant))]
    if len(body) != 1 or not isinstance(body[0], ast.Return) or body[0].value is None:
        raise _NotConstant("body")
    return _const_eval(body[0].value, local)


def module_constants(tree):
    """name -> value for every module-level assignment whose right-hand side is a constant expression (and, for
    the evaluation of decorator factories, every undecorated module-level function as a `_Func`)"""
    env = {}
    for node in tree.body:
        if isinstance(node, ast.FunctionDef) and not node.decorator_list:
            env[node.name] = _Func(node)
            continue
        tgt = node.targets[0] if isinstance(node, ast.Assign) and len(node.targets) == 1 else (
            node.target if isinstance(node, ast.AnnAssign) else None)
        val = getattr(node, "value", None)
        if isinstance(tgt, ast.Name) and val is not None:
            try:
                env[tgt.id] = _const_eval(val, env)
            except Exception:  # noqa: BLE001
                env.pop(tgt.id, None)
    return env



def find_func(tree, name, cls=None):
    for node in ast.walk(tree):
        if isinstance(node, ast.ClassDef) and cls is not None and node.name == cls:
            for sub in node.body:
                if isinstance(sub, ast.FunctionDef) and sub.name == name:
                    return sub
        if cls is None and isinstance(node, ast.FunctionDef) and node.name == name:
            return node
    # not found (renamed, moved): an empty function, so that every recogniser that walks it finds nothing and
    # reports "not recognised" through its table instead of the translator crashing
    stub = ast.parse("def _missing():\n    pass\n").body[0]
    stub.name = name
    return stub


def pos_term(p):
    return f".{p}" if p in POSITIONS else None


def _literal_by_shape(tree, pred):
    """the first module-level constant (whatever it is called) whose value satisfies `pred`"""
    for v in module_constants(tree).values():
        try:
            if v is not None and pred(v):
                return v
        except Exception:  # noqa: BLE001
            pass
    return None


def gen_axis():
    tree = ast.parse(src("axis.py"))
    consts = module_constants(tree)
    valid = consts.get("VALID_POSITION_NAMES")
    if not isinstance(valid, str):        # renamed: the "|"-separated string of the five position words
        valid = _literal_by_shape(tree, lambda v: isinstance(v, str) and sorted(v.split("|")) == sorted(POSITIONS))
    fb = consts.get("FALLBACK_SHIFTS")
    if not isinstance(fb, dict):          # renamed: the mapping position -> sequence of positions
        fb = _literal_by_shape(tree, lambda v: isinstance(v, dict) and len(v) >= 3 and all(
            k in POSITIONS and isinstance(vs, (list, tuple)) and all(x in POSITIONS for x in vs) for k, vs in v.items()))
    ptree = ast.parse(src("padding.py"))
    padmap = module_constants(ptree).get("_XGCM_BOUNDARY_KWARG_TO_XARRAY_PAD_KWARG")
    if not isinstance(padmap, dict):      # renamed: the mapping boundary word -> pad mode
        padmap = _literal_by_shape(ptree, lambda v: isinstance(v, dict) and {"periodic", "fill", "extend"} <= set(v)
                                   and all(isinstance(x, str) for x in v.values()))

    # defaults in Axis.__init__:  `if boundary is None: boundary = <lit>`,
    # `if fill_value is None: fill_value = <lit>`
    init = find_func(tree, "__init__", "Axis")
    defaults = {}
    for node in ast.walk(init):
        if isinstance(node, ast.If) and isinstance(node.test, ast.Compare) \
                and isinstance(node.test.left, ast.Name) and len(node.test.ops) == 1 \
                and isinstance(node.test.ops[0], ast.Is) \
                and isinstance(node.test.comparators[0], ast.Constant) \
                and node.test.comparators[0].value is None and len(node.body) == 1 \
                and isinstance(node.body[0], ast.Assign) \
                and isinstance(node.body[0].targets[0], ast.Name) \
                and node.body[0].targets[0].id == node.test.left.id:
            defaults[node.test.left.id] = literal(node.body[0].value)
        # the same default written as a conditional expression:
        #   x = <lit> if x is None else x        /        x = x if x is not None else <lit>
        if isinstance(node, ast.Assign) and len(node.targets) == 1 and isinstance(node.targets[0], ast.Name) \
                and isinstance(node.value, ast.IfExp) and isinstance(node.value.test, ast.Compare) \
                and len(node.value.test.ops) == 1 and isinstance(node.value.test.left, ast.Name) \
                and node.value.test.left.id == node.targets[0].id \
                and isinstance(node.value.test.comparators[0], ast.Constant) \
                and node.value.test.comparators[0].value is None:
            nm = node.targets[0].id
            op = node.value.test.ops[0]
            lit_side, same_side = (node.value.body, node.value.orelse) if isinstance(op, ast.Is) else (
                (node.value.orelse, node.value.body) if isinstance(op, ast.IsNot) else (None, None))
            if lit_side is not None and isinstance(same_side, ast.Name) and same_side.id == nm \
                    and literal(lit_side) is not None:
                defaults[nm] = literal(lit_side)

    lines = ["import XgcmModel.Model.Basic",
             "/- GENERATED by tools/extract.py from xgcm/axis.py, xgcm/padding.py — do not edit -/",
             "namespace Xgcm.Gen", "open Xgcm", ""]
    names = valid.split("|") if isinstance(valid, str) else []
    lines.append("def validPositionNames : List String := [" + ", ".join(lean_str(n) for n in names) + "]")
    rows = []
    fb_ok = isinstance(fb, dict) and all(k in POSITIONS and all(v in POSITIONS for v in vs) for k, vs in fb.items())
    if fb_ok:
        for k, vs in fb.items():
            rows.append(f"(.{k}, [" + ", ".join(f".{v}" for v in vs) + "])")
    lines.append("def fallbackShifts : List (Pos × List Pos) := [" + ", ".join(rows) + "]")
    lines.append(f"def fallbackShiftsRecognised : Bool := {'true' if fb_ok else 'false'}")
    # pad mode map: xgcm word (or None) -> numpy mode
    rows = []
    if isinstance(padmap, dict):
        for k, v in padmap.items():
            kk = "none" if k is None else f"(some {lean_str(k)})"
            rows.append(f"({kk}, {lean_str(str(v))})")
    lines.append("def padModeMap : List (Option String × String) := [" + ", ".join(rows) + "]")
    b = defaults.get("boundary")
    fv = defaults.get("fill_value")
    lines.append(f"def axisDefaultBoundary : String := {lean_str(str(b))}")
    if isinstance(fv, (int, float)) and float(fv).is_integer():
        lines.append(f"def axisDefaultFill : Option Int := some ({int(fv)})")
    else:
        lines.append("def axisDefaultFill : Option Int := none")
    lines.append("")
    lines.append("end Xgcm.Gen")
    return write_if_changed("Axis.lean", "\n".join(lines) + "\n")


# --------------------------------------------------------------------------
# grid.py -> Gen/GridDefaults.lean : periodic->boundary literals, cumsum table
# --------------------------------------------------------------------------

def _cmp_eq_const(node):
    """pos == "center"  ->  ('pos', 'center')"""
    if isinstance(node, ast.Compare) and len(node.ops) == 1 and isinstance(node.ops[0], ast.Eq) \
            and isinstance(node.left, ast.Name) and isinstance(node.comparators[0], ast.Constant):
        return node.left.id, node.comparators[0].value
    return None


def _cumsum_cond(test):
    """(pos == a and ax_to == b) or (pos == c and ax_to == d) -> [(a,b),(c,d)]"""
    pairs = []
    alts = test.values if isinstance(test, ast.BoolOp) and isinstance(test.op, ast.Or) else [test]
    for alt in alts:
        if not (isinstance(alt, ast.BoolOp) and isinstance(alt.op, ast.And) and len(alt.values) == 2):
            return None
        d = {}
        for v in alt.values:
            c = _cmp_eq_const(v)
            if c is None:
                return None
            d[c[0]] = c[1]
        if set(d) != {"pos", "ax_to"}:
            return None
        pairs.append((d["pos"], d["ax_to"]))
    return pairs


# --------------------------------------------------------------------------
# fallback for Grid.cumsum: partial evaluation of the shift decision
# --------------------------------------------------------------------------

class _Unknown:
    """a value the partial evaluator knows nothing about"""
    def __repr__(self):
        return "<?>"


_UNK = _Unknown()


class _Trimmed:
    """data.isel(**{dim: slice(0, -1)})"""


class _Stop(Exception):
    pass


class _Refused(Exception):
    pass


class _Break(Exception):
    pass


def _pe_expr(e, env):
    """value of an expression under `env`, or _UNK"""
    if isinstance(e, ast.Constant):
        return e.value
    if isinstance(e, ast.Name):
        return env.get(e.id, _UNK)
    if isinstance(e, ast.UnaryOp) and isinstance(e.op, ast.USub):
        v = _pe_expr(e.operand, env)
        return -v if isinstance(v, (int, float)) else _UNK
    if isinstance(e, ast.UnaryOp) and isinstance(e.op, ast.Not):
        v = _pe_expr(e.operand, env)
        return (not v) if isinstance(v, (bool, int, str, tuple)) else _UNK
    if isinstance(e, (ast.Tuple, ast.List)):
        vs = [_pe_expr(x, env) for x in e.elts]
        return tuple(vs)
    if isinstance(e, ast.Dict) and len(e.values) == 1:
        return {"__single__": _pe_expr(e.values[0], env)}
    if isinstance(e, ast.Compare) and len(e.ops) == 1:
        l, r = _pe_expr(e.left, env), _pe_expr(e.comparators[0], env)
        if isinstance(l, _Unknown) or isinstance(r, _Unknown):
            return _UNK
        if isinstance(e.ops[0], ast.Eq):
            return l == r
        if isinstance(e.ops[0], ast.NotEq):
            return l != r
        if isinstance(e.ops[0], ast.In) and isinstance(r, tuple):
            return l in r
        if isinstance(e.ops[0], ast.NotIn) and isinstance(r, tuple):
            return l not in r
        return _UNK
    if isinstance(e, ast.BoolOp):
        vs = [_pe_expr(v, env) for v in e.values]
        if isinstance(e.op, ast.And):
            if any(v is False for v in vs):
                return False
            return _UNK if any(isinstance(v, _Unknown) for v in vs) else all(vs)
        if any(v is True for v in vs):
            return True
        return _UNK if any(isinstance(v, _Unknown) for v in vs) else any(vs)
    if isinstance(e, ast.IfExp):
        t = _pe_expr(e.test, env)
        if isinstance(t, _Unknown):
            return _UNK
        return _pe_expr(e.body if t else e.orelse, env)
    if isinstance(e, ast.Call) and isinstance(e.func, ast.Attribute) and e.func.attr == "isel" \
            and isinstance(e.func.value, ast.Name) and e.func.value.id == "data":
        seg = ast.unparse(e).replace(" ", "")
        if seg == "data.isel(**{dim:slice(0,-1)})":
            return _Trimmed()
        return _UNK
    return _UNK


def _pe_block(stmts, env, stop_at):
    for s in stmts:
        if stop_at(s):
            raise _Stop()
        if isinstance(s, ast.Expr):
            continue
        if isinstance(s, ast.Raise):
            raise _Refused()
        if isinstance(s, ast.Break):
            raise _Break()
        if isinstance(s, ast.If):
            t = _pe_expr(s.test, env)
            if isinstance(t, _Unknown):
                raise Unrecognised("condition not decided by (pos, ax_to)")
            _pe_block(s.body if t else s.orelse, env, stop_at)
            continue
        if isinstance(s, ast.For):
            it = _pe_expr(s.iter, env)
            if not isinstance(it, tuple):
                raise Unrecognised("loop over something that is not a literal table")
            broke = False
            for row in it:
                names = _targets(s.target)
                if isinstance(s.target, ast.Name):
                    env[s.target.id] = row
                elif isinstance(row, tuple) and len(row) == len(names):
                    env.update(dict(zip(names, row)))
                else:
                    raise Unrecognised("loop target")
                try:
                    _pe_block(s.body, env, stop_at)
                except _Break:
                    broke = True
                    break
            if not broke:
                _pe_block(s.orelse, env, stop_at)
            continue
        if isinstance(s, ast.Assign) and len(s.targets) == 1:
            v = _pe_expr(s.value, env)
            t = s.targets[0]
            if isinstance(t, ast.Name):
                if t.id == "data":
                    if isinstance(v, _Trimmed):
                        if env.get("__trim__"):
                            raise Unrecognised("trimmed twice")
                        env["__trim__"] = True
                    else:
                        raise Unrecognised("data re-bound to something else")
                else:
                    env[t.id] = v
                continue
            if isinstance(t, (ast.Tuple, ast.List)) and isinstance(v, tuple) and len(v) == len(t.elts):
                for x, y in zip(_targets(t), v):
                    env[x] = y
                continue
        raise Unrecognised("statement " + type(s).__name__)


def _cumsum_by_partial_evaluation(tree, cs):
    """for each of the 25 (pos, ax_to) pairs, run the statements of Grid.cumsum's per-axis loop from the first one
    that tests / uses the pair up to the call of pad() with pos and ax_to fixed: refused, or (trim?, (lo, hi))"""
    consts = {}
    for node in tree.body:
        if isinstance(node, ast.Assign) and len(node.targets) == 1 and isinstance(node.targets[0], ast.Name):
            try:
                consts[node.targets[0].id] = ast.literal_eval(node.value)
            except Exception:
                pass

    def as_tuples(v):
        return tuple(as_tuples(x) for x in v) if isinstance(v, (list, tuple)) else v
    consts = {k: as_tuples(v) for k, v in consts.items()}
    loop = None
    for node in ast.walk(cs):
        if isinstance(node, ast.For) and any(
                isinstance(c, ast.Call) and isinstance(c.func, ast.Name) and c.func.id == "pad" for c in ast.walk(node)):
            loop = node
    if loop is None:
        raise Unrecognised("per-axis loop of cumsum not found")

    def is_pad(s):
        return any(isinstance(c, ast.Call) and isinstance(c.func, ast.Name) and c.func.id == "pad" for c in ast.walk(s))
    # start after the statement that resolves the default target position (`if ax_to is None: ...`)
    body = list(loop.body)
    start = 0
    for i, s in enumerate(body):
        if isinstance(s, ast.If) and "ax_to is None" in ast.unparse(s.test):
            start = i + 1
    rows = []
    for p in POSITIONS:
        for t in POSITIONS:
            env = dict(consts)
            env.update({"pos": p, "ax_to": t})
            try:
                _pe_block(body[start:], env, is_pad)
                raise Unrecognised("pad() never reached")
            except _Refused:
                continue
            except _Stop:
                pass
            w = env.get("ax_boundary_width")
            w = w.get("__single__") if isinstance(w, dict) else None
            if not (isinstance(w, tuple) and len(w) == 2 and all(isinstance(x, int) and not isinstance(x, bool) and x >= 0 for x in w)):
                raise Unrecognised("ax_boundary_width")
            rows.append((p, t, bool(env.get("__trim__")), w))
    return rows



def gen_grid_defaults():
    text = src("grid.py")
    tree = ast.parse(text)
    init = find_func(tree, "__init__", "Grid")
    # for ax, p in periodic_dict.items(): if boundary_dict[ax] is None: if p is True: = "periodic" else: = "fill"
    per_true = per_false = None
    for node in ast.walk(init):
        # the loop over the (axis, flag) pairs of the `periodic` mapping, whatever its variables are called
        if isinstance(node, ast.For) and isinstance(node.iter, ast.Call) \
                and isinstance(node.iter.func, ast.Attribute) and node.iter.func.attr == "items" \
                and isinstance(node.iter.func.value, ast.Name) \
                and "periodic" in node.iter.func.value.id:
            names = _targets(node.target)
            flag = names[-1] if names else None

            def is_flag_true(test):
                return isinstance(test, ast.Compare) and isinstance(test.left, ast.Name) and test.left.id == flag \
                    and len(test.ops) == 1 and isinstance(test.ops[0], ast.Is) \
                    and isinstance(test.comparators[0], ast.Constant) and test.comparators[0].value is True
            for sub in ast.walk(node):
                try:
                    if isinstance(sub, ast.If) and is_flag_true(sub.test) and len(sub.body) == 1 and len(sub.orelse) == 1:
                        per_true = literal(sub.body[0].value)          # if flag is True: ... = "periodic" else: ... = "fill"
                        per_false = literal(sub.orelse[0].value)
                    elif isinstance(sub, ast.IfExp) and is_flag_true(sub.test):
                        per_true = literal(sub.body)                   # "periodic" if flag is True else "fill"
                        per_false = literal(sub.orelse)
                except Exception:
                    pass
    # cumsum table
    cs = find_func(tree, "cumsum", "Grid")
    rows = []
    recognised = True
    chain = None
    for node in ast.walk(cs):
        if isinstance(node, ast.If) and _cumsum_cond(node.test) is not None:
            chain = node
            break
    while chain is not None:
        conds = _cumsum_cond(chain.test)
        if conds is None:
            recognised = False
            break
        trim = False
        width = None
        for s in chain.body:
            if isinstance(s, ast.Assign) and isinstance(s.targets[0], ast.Name):
                if s.targets[0].id == "data":
                    seg = ast.get_source_segment(text, s.value) or ""
                    if seg.replace(" ", "") == "data.isel(**{dim:slice(0,-1)})":
                        trim = True
                    else:
                        recognised = False
                elif s.targets[0].id == "ax_boundary_width":
                    v = s.value
                    if isinstance(v, ast.Dict) and len(v.values) == 1:
                        width = literal(v.values[0])
            elif isinstance(s, ast.Expr) and isinstance(s.value, ast.Constant):
                pass
            else:
                recognised = False
        if not (isinstance(width, tuple) and len(width) == 2):
            recognised = False
            break
        for (p, t) in conds:
            if p in POSITIONS and t in POSITIONS:
                rows.append((p, t, trim, width))
            else:
                recognised = False
        if len(chain.orelse) == 1 and isinstance(chain.orelse[0], ast.If):
            chain = chain.orelse[0]
        else:
            # final else must raise
            if not (len(chain.orelse) == 1 and isinstance(chain.orelse[0], ast.Raise)):
                recognised = False
            chain = None

    if not (recognised and rows):
        # the if/elif chain was not found in its known form: decide every (pos, ax_to) pair by partial evaluation
        try:
            rows2 = _cumsum_by_partial_evaluation(tree, cs)
            # keep the order of the known form where the content is the same (the table is a finite map)
            order = {("center", "right"): 0, ("left", "center"): 1, ("center", "left"): 2, ("right", "center"): 3,
                     ("center", "inner"): 4, ("outer", "center"): 5, ("center", "outer"): 6, ("inner", "center"): 7}
            rows = sorted(rows2, key=lambda r: order.get((r[0], r[1]), 99))
            recognised = bool(rows)
        except (Unrecognised, RecursionError, KeyError, TypeError, AttributeError):
            pass
    lines = ["import XgcmModel.Model.Basic",
             "/- GENERATED by tools/extract.py from xgcm/grid.py — do not edit -/",
             "namespace Xgcm.Gen", "open Xgcm", ""]
    lines.append(f"def periodicTrueBoundary : String := {lean_str(str(per_true))}")
    lines.append(f"def periodicFalseBoundary : String := {lean_str(str(per_false))}")
    lines.append("/-- Grid.cumsum: (from, to) ↦ (trim the last running value?, (lo, hi) pad widths) -/")
    lines.append("def cumsumTable : List ((Pos × Pos) × (Bool × Nat × Nat)) := [")
    lines.append(",\n".join(
        f"  ((.{p}, .{t}), ({'true' if trim else 'false'}, {w[0]}, {w[1]}))" for p, t, trim, w in rows))
    lines.append("]")
    lines.append(f"def cumsumTableRecognised : Bool := {'true' if recognised and rows else 'false'}")
    lines.append("")
    lines.append("end Xgcm.Gen")
    return write_if_changed("GridDefaults.lean", "\n".join(lines) + "\n")



# --------------------------------------------------------------------------
# grid_ufunc.py -> Gen/Regex.lean : regular-expression strings, option lists
# --------------------------------------------------------------------------

def _eval_strexpr(node, env):
    """evaluate module-level string constants built from literals and f-strings"""
    if isinstance(node, ast.Constant) and isinstance(node.value, str):
        return node.value
    if isinstance(node, ast.JoinedStr):
        out = ""
        for v in node.values:
            if isinstance(v, ast.Constant):
                out += v.value
            elif isinstance(v, ast.FormattedValue) and isinstance(v.value, ast.Name) \
                    and v.value.id in env and v.conversion == -1 and v.format_spec is None:
                out += env[v.value.id]
            else:
                return None
        return out
    return None


def lean_chars(s):
    def ch(c):
        if c == "'":
            return "'\\''"
        if c == "\\":
            return "'\\\\'"
        if c == "\n":
            return "'\\n'"
        return "'" + c + "'"
    return "[" + ", ".join(ch(c) for c in s) + "]"


def gen_regex():
    text = src("grid_ufunc.py")
    tree = ast.parse(text)
    wanted = ["_AXIS_NAME", "_AXIS_POSITION", "_AXIS_NAME_POSITION_PAIR", "_AXIS_NAME_POSITION_PAIR_LIST",
              "_ARGUMENT", "_ARGUMENT_LIST", "_SIGNATURE"]
    env = {k: v for k, v in module_constants(tree).items() if isinstance(v, str)}
    disallowed = module_constants(tree).get("DISALLOWED_OVERLAP_POSITIONS")
    disallowed = list(disallowed) if isinstance(disallowed, (list, tuple, set, frozenset)) else None
    # how the string parser tests the pattern: re.match / re.fullmatch
    matcher = None
    fn = find_func(tree, "_parse_signature_from_string")
    # names bound at module level to re.compile(_SIGNATURE) (a pre-compiled pattern is the same test)
    compiled = set()
    for node in tree.body:
        if isinstance(node, ast.Assign) and len(node.targets) == 1 and isinstance(node.targets[0], ast.Name) \
                and isinstance(node.value, ast.Call) and isinstance(node.value.func, ast.Attribute) \
                and node.value.func.attr == "compile" and isinstance(node.value.func.value, ast.Name) \
                and node.value.func.value.id == "re" and len(node.value.args) == 1 and not node.value.keywords \
                and isinstance(node.value.args[0], ast.Name) and node.value.args[0].id == "_SIGNATURE":
            compiled.add(node.targets[0].id)
    for node in ast.walk(fn if len(fn.body) > 1 or not isinstance(fn.body[0], ast.Pass) else tree):
        if isinstance(node, ast.Call) and isinstance(node.func, ast.Attribute) \
                and isinstance(node.func.value, ast.Name):
            if node.func.value.id == "re" and node.args and isinstance(node.args[0], ast.Name) \
                    and node.args[0].id == "_SIGNATURE":
                matcher = node.func.attr
            elif node.func.value.id in compiled and node.func.attr in ("match", "fullmatch", "search"):
                matcher = node.func.attr
    # options stored by GridUFunc.__init__ (self.X = kwargs.pop("X", default)) and those
    # read back in __call__ (kwargs.pop("X", self.X)) and forwarded to apply_as_grid_ufunc
    stored, popped_call, forwarded = [], [], []
    init = find_func(tree, "__init__", "GridUFunc")
    call = find_func(tree, "__call__", "GridUFunc")
    for node in ast.walk(init):
        if isinstance(node, ast.Assign) and isinstance(node.targets[0], ast.Attribute) \
                and isinstance(node.value, ast.Call) and isinstance(node.value.func, ast.Attribute) \
                and node.value.func.attr == "pop" and node.value.args \
                and isinstance(node.value.args[0], ast.Constant):
            stored.append(node.value.args[0].value)
    for node in ast.walk(call):
        if isinstance(node, ast.Call) and isinstance(node.func, ast.Attribute) and node.func.attr == "pop" \
                and isinstance(node.func.value, ast.Name) and node.func.value.id == "kwargs" \
                and node.args and isinstance(node.args[0], ast.Constant):
            popped_call.append(node.args[0].value)
        if isinstance(node, ast.Call) and isinstance(node.func, ast.Name) and node.func.id == "apply_as_grid_ufunc":
            for k in node.keywords:
                if k.arg is not None:
                    src_txt = ast.get_source_segment(text, k.value) or ""
                    forwarded.append((k.arg, src_txt))
    # the same facts written table-driven: ONE module-level dict literal of option defaults,
    #   for name, default in TABLE.items(): setattr(self, name, kwargs.pop(name, default))          (__init__)
    #   opts = {name: kwargs.pop(name, getattr(self, name)) for name in TABLE}; apply_as_grid_ufunc(..., **opts)   (__call__)
    tables = {}
    for node in tree.body:
        tgt = node.targets[0] if isinstance(node, ast.Assign) and len(node.targets) == 1 else (
            node.target if isinstance(node, ast.AnnAssign) else None)
        val = getattr(node, "value", None)
        if isinstance(tgt, ast.Name) and isinstance(val, ast.Dict) and val.keys and all(
                isinstance(k, ast.Constant) and isinstance(k.value, str) for k in val.keys):
            tables[tgt.id] = [k.value for k in val.keys]

    def table_of(it):
        if isinstance(it, ast.Name) and it.id in tables:
            return tables[it.id]
        if isinstance(it, ast.Call) and isinstance(it.func, ast.Attribute) and it.func.attr in ("items", "keys") \
                and isinstance(it.func.value, ast.Name) and it.func.value.id in tables and not it.args:
            return tables[it.func.value.id]
        return None
    for node in ast.walk(init):
        if isinstance(node, ast.For) and table_of(node.iter) is not None and len(node.body) == 1:
            names = _targets(node.target)
            b = node.body[0]
            c = b.value if isinstance(b, ast.Expr) else None
            if names and isinstance(c, ast.Call) and isinstance(c.func, ast.Name) and c.func.id == "setattr" \
                    and len(c.args) == 3 and isinstance(c.args[0], ast.Name) and c.args[0].id == "self" \
                    and isinstance(c.args[1], ast.Name) and c.args[1].id == names[0] \
                    and isinstance(c.args[2], ast.Call) and isinstance(c.args[2].func, ast.Attribute) \
                    and c.args[2].func.attr == "pop" and isinstance(c.args[2].func.value, ast.Name) \
                    and c.args[2].func.value.id == "kwargs" and c.args[2].args \
                    and isinstance(c.args[2].args[0], ast.Name) and c.args[2].args[0].id == names[0]:
                stored += [k for k in table_of(node.iter) if k not in stored]
    popped_into = {}
    for node in ast.walk(call):
        if isinstance(node, ast.Assign) and len(node.targets) == 1 and isinstance(node.targets[0], ast.Name) \
                and isinstance(node.value, ast.DictComp) and len(node.value.generators) == 1:
            g = node.value.generators[0]
            keys = table_of(g.iter)
            v = node.value.value
            if keys is not None and isinstance(g.target, ast.Name) and not g.ifs \
                    and isinstance(node.value.key, ast.Name) and node.value.key.id == g.target.id \
                    and isinstance(v, ast.Call) and isinstance(v.func, ast.Attribute) and v.func.attr == "pop" \
                    and isinstance(v.func.value, ast.Name) and v.func.value.id == "kwargs" and len(v.args) == 2 \
                    and isinstance(v.args[0], ast.Name) and v.args[0].id == g.target.id \
                    and ast.unparse(v.args[1]).replace(" ", "") == f"getattr(self,{g.target.id})":
                popped_into[node.targets[0].id] = keys
                popped_call += [k for k in keys if k not in popped_call]
    for node in ast.walk(call):
        if isinstance(node, ast.Call) and isinstance(node.func, ast.Name) and node.func.id == "apply_as_grid_ufunc":
            for k in node.keywords:
                if k.arg is None and isinstance(k.value, ast.Name) and k.value.id in popped_into:
                    forwarded += [(o, o) for o in popped_into[k.value.id] if (o, o) not in forwarded]
    allowed = None
    agu = find_func(tree, "as_grid_ufunc")
    for node in ast.walk(agu):
        if isinstance(node, ast.Assign) and isinstance(node.targets[0], ast.Name) \
                and node.targets[0].id == "_allowedkwargs":
            allowed = sorted(literal(node.value) or [])

    lines = ["import XgcmModel.Model.Basic",
             "/- GENERATED by tools/extract.py from xgcm/grid_ufunc.py — do not edit -/",
             "namespace Xgcm.Gen", "open Xgcm", ""]
    for w in wanted:
        v = env.get(w)
        nm = "re" + "".join(p.capitalize() for p in w.strip("_").lower().split("_"))
        if v is None:
            lines.append(f"def {nm} : Option (List Char) := none")
        else:
            lines.append(f"/-- {w} -/")
            lines.append(f"def {nm} : Option (List Char) := some {lean_chars(v)}")
    lines.append(f"def signatureMatcher : String := {lean_str(str(matcher))}")
    lines.append("def disallowedOverlapPositions : List String := ["
                 + ", ".join(lean_str(x) for x in (disallowed or [])) + "]")
    lines.append("def ufuncStoredOptions : List String := [" + ", ".join(lean_str(x) for x in stored) + "]")
    lines.append("def ufuncCallTimeOptions : List String := [" + ", ".join(lean_str(x) for x in popped_call) + "]")
    lines.append("def ufuncForwarded : List (String × String) := ["
                 + ", ".join(f"({lean_str(a)}, {lean_str(b)})" for a, b in forwarded) + "]")
    lines.append("def decoratorAllowedKwargs : List String := ["
                 + ", ".join(lean_str(x) for x in (allowed or [])) + "]")
    lines.append("")
    lines.append("end Xgcm.Gen")
    return write_if_changed("Regex.lean", "\n".join(lines) + "\n")


# --------------------------------------------------------------------------
# all anchored modules -> Gen/Sites.lean : writes to caller-owned objects (C18),
# iterations over sets (C12)
# --------------------------------------------------------------------------

MUTATORS = {"popitem", "pop", "update", "setdefault", "clear", "append", "extend", "remove", "insert",
            "sort", "reverse", "add", "discard"}
READERS = {"get", "values", "items", "keys", "popitem", "pop", "copy_shallow_never"}
PASS_THROUGH = {"_map_kwargs_over_axes", "_maybe_promote_str_to_list", "_maybe_unpack_vector_component",
                "_check_data_input", "_promote_to_sequence_and_check", "_strip_all_coords_never"}
SITE_MODULES = ["padding.py", "grid.py", "grid_ufunc.py", "transform.py", "metrics.py", "axis.py",
                "metadata_parsers.py", "comodo.py", "sgrid.py", "gridops.py"]
ENTRY_POINTS = [
    ("grid.py", "Grid.__init__"), ("grid.py", "Grid.diff"), ("grid.py", "Grid.interp"), ("grid.py", "Grid.min"),
    ("grid.py", "Grid.max"), ("grid.py", "Grid.cumsum"), ("grid.py", "Grid.derivative"),
    ("grid.py", "Grid.integrate"), ("grid.py", "Grid.average"), ("grid.py", "Grid.cumint"),
    ("grid.py", "Grid.transform"), ("grid.py", "Grid.get_metric"), ("grid.py", "Grid.interp_like"),
    ("grid.py", "Grid.set_metrics"), ("grid.py", "Grid.apply_as_grid_ufunc"),
    ("grid.py", "Grid.diff_2d_vector"), ("grid.py", "Grid.interp_2d_vector"),
    ("padding.py", "pad"), ("grid_ufunc.py", "apply_as_grid_ufunc"), ("grid_ufunc.py", "GridUFunc.__call__"),
    ("grid_ufunc.py", "GridUFunc.__init__"), ("grid_ufunc.py", "as_grid_ufunc"),
    ("transform.py", "transform"), ("axis.py", "Axis.__init__"),
]
# methods that are allowed to write the object's own state
SELF_WRITERS = {"Grid.__init__", "Grid.set_metrics", "Grid._assign_face_connections", "Axis.__init__",
                "GridUFunc.__init__", "_GridUFuncSignature.__init__"}


class _Fn:
    def __init__(self, module, qual, node):
        self.module, self.qual, self.node = module, qual, node
        a = node.args
        self.params = [x.arg for x in a.posonlyargs + a.args + a.kwonlyargs]
        self.vararg = a.vararg.arg if a.vararg else None
        self.kwarg = a.kwarg.arg if a.kwarg else None


def _collect_functions():
    fns = {}
    for m in SITE_MODULES:
        try:
            tree = ast.parse(src(m))
        except Exception:
            continue

        def visit(body, prefix):
            for node in body:
                if isinstance(node, (ast.FunctionDef,)):
                    q = prefix + node.name
                    fns[(m, q)] = _Fn(m, q, node)
                    visit(node.body, q + ".<locals>.")
                elif isinstance(node, ast.ClassDef):
                    visit(node.body, prefix + node.name + ".")
        visit(tree.body, "")
    return fns


def _level(e, T, kwname):
    """taint level of the value of e:  0 = fresh / immutable;  1 = a FRESH container whose elements are objects
    owned by the caller (writing into the container is invisible, its elements are not);  2 = an object the caller
    can see (an argument, something reachable from one through attributes / subscripts / iteration)"""
    if isinstance(e, ast.Name):
        return T.get(e.id, 0)
    if isinstance(e, ast.Starred):
        return _level(e.value, T, kwname)
    if isinstance(e, (ast.Tuple, ast.List, ast.Set)):
        return 1 if any(_level(x, T, kwname) for x in e.elts) else 0
    if isinstance(e, ast.Dict):
        return 1 if any(v is not None and _level(v, T, kwname) for v in list(e.values) + [k for k in e.keys if k is None]) \
            or any(k is None and _level(v, T, kwname) for k, v in zip(e.keys, e.values)) else 0
    if isinstance(e, ast.Subscript):
        return 2 if _level(e.value, T, kwname) else 0
    if isinstance(e, ast.Attribute):
        if isinstance(e.value, ast.Name) and e.value.id == "self":
            # an attribute of self: caller-visible when self is (a method that must not change its object), or when
            # the attribute was bound to a caller-visible object in this very function (self.x = argument)
            return 2 if (T.get("self", 0) == 2 or T.get("self." + e.attr, 0) == 2) else 0
        return 2 if _level(e.value, T, kwname) == 2 else 0
    if isinstance(e, ast.IfExp):
        return max(_level(e.body, T, kwname), _level(e.orelse, T, kwname))
    if isinstance(e, ast.BoolOp):
        return max(_level(v, T, kwname) for v in e.values)
    if isinstance(e, ast.NamedExpr):
        return _level(e.value, T, kwname)
    if isinstance(e, ast.BinOp) and isinstance(e.op, ast.BitOr):
        # dict union: a fresh mapping sharing the values of both sides
        return 1 if (_level(e.left, T, kwname) or _level(e.right, T, kwname)) else 0
    if isinstance(e, (ast.ListComp, ast.SetComp, ast.GeneratorExp, ast.DictComp)):
        return 1 if any(_level(g.iter, T, kwname) for g in e.generators) else 0
    if isinstance(e, ast.Call):
        f = e.func
        if isinstance(f, ast.Attribute):
            base = f.value
            if isinstance(base, ast.Name) and base.id == kwname and f.attr in ("pop", "get"):
                return 2                             # a value the caller passed as keyword argument
            bl = _level(base, T, kwname)
            if f.attr in ("get", "popitem", "pop", "setdefault") and bl:
                return 2                             # an element of a caller-owned container
            if f.attr in ("values", "items", "keys") and bl:
                return 1                             # a view: iterating yields the caller's objects
            if f.attr == "copy" and bl and not isinstance(base, ast.Attribute):
                return 1 if bl else 0                # (shallow) copy: fresh container, shared elements
            if f.attr in PASS_THROUGH:
                return max([_level(a, T, kwname) for a in e.args] + [0])
            return 0                                 # any other method call returns a new object
        if isinstance(f, ast.Name):
            if f.id in PASS_THROUGH:
                return max([_level(a, T, kwname) for a in e.args] + [0])
            if f.id in ("list", "tuple", "reversed", "zip", "enumerate", "iter", "sorted", "dict", "set", "frozenset"):
                return 1 if any(_level(a, T, kwname) for a in e.args) else 0
            if f.id == "next":
                return 2 if any(_level(a, T, kwname) for a in e.args) else 0
            return 0
    return 0


def _expr_tainted(e, T, kwname):
    return _level(e, T, kwname) > 0


def _targets(t):
    if isinstance(t, ast.Name):
        return [t.id]
    if isinstance(t, (ast.Tuple, ast.List)):
        out = []
        for x in t.elts:
            out += _targets(x)
        return out
    if isinstance(t, ast.Starred):
        return _targets(t.value)
    return []


def _merge(a, b):
    out = dict(a)
    for k, v in b.items():
        out[k] = max(out.get(k, 0), v)
    return out


def _analyse(fn, tainted_params, fns, writes, calls):
    """flow-sensitive (branches merged by union, loops run twice) taint pass over one function;
    `tainted_params` = frozenset of (parameter name, level)"""
    kwname = fn.kwarg
    is_method = "." in fn.qual and fn.params and fn.params[0] == "self"

    def record(node, kind, what):
        writes.add((fn.module, fn.qual, node.lineno, kind, what))

    def base_expr(e):
        # the object that is written through a (nested) subscript / attribute target
        return e.value if isinstance(e, (ast.Subscript, ast.Attribute)) else None

    def root_name(e):
        while isinstance(e, (ast.Subscript, ast.Attribute)):
            e = e.value
        return e.id if isinstance(e, ast.Name) else None

    def self_alias(e, T):
        """e is rooted at self.<attr>, and that attribute was bound IN THIS FUNCTION to an object the caller can
        see (self.x = argument): writing through it writes the caller's object, constructor or not"""
        while isinstance(e, (ast.Subscript, ast.Attribute)):
            if isinstance(e, ast.Attribute) and isinstance(e.value, ast.Name) and e.value.id == "self":
                return T.get("self." + e.attr, 0) == 2
            e = e.value
        return False

    def scan_calls(node, T):
        for c in ast.walk(node):
            if not isinstance(c, ast.Call):
                continue
            f = c.func
            if isinstance(f, ast.Attribute) and f.attr in MUTATORS:
                rn = root_name(f.value)
                if rn == "self" and is_method:
                    if isinstance(f.value, ast.Attribute) or isinstance(f.value, ast.Subscript):
                        if self_alias(f.value, T):
                            record(c, "call", f"{ast.unparse(f.value)}.{f.attr}()")
                        elif fn.qual.split(".<locals>.")[0] not in SELF_WRITERS:
                            record(c, "self-call", f"{ast.unparse(f.value)}.{f.attr}()")
                elif rn != kwname and _level(f.value, T, kwname) == 2:
                    record(c, "call", f"{ast.unparse(f.value)}.{f.attr}()")
            for k in c.keywords:
                # numpy's `out=` writes the result into the given array
                if k.arg == "out" and _level(k.value, T, kwname) == 2:
                    record(c, "out=", ast.unparse(k.value))
            # propagate into callees defined in xgcm
            cname = f.id if isinstance(f, ast.Name) else (f.attr if isinstance(f, ast.Attribute) else None)
            if cname is None:
                continue
            for key, callee in fns.items():
                if callee.qual.split(".")[-1] != cname:
                    continue
                params = list(callee.params)
                if params and params[0] == "self":
                    params = params[1:]
                tp = {}
                def put(name, lv):
                    if lv:
                        tp[name] = max(tp.get(name, 0), lv)
                for i, a in enumerate(c.args):
                    if isinstance(a, ast.Starred):
                        if callee.vararg:
                            put(callee.vararg, 1 if _level(a.value, T, kwname) else 0)
                        continue
                    lv = _level(a, T, kwname)
                    if i < len(params):
                        put(params[i], lv)
                    elif callee.vararg:
                        put(callee.vararg, 1 if lv else 0)
                for k in c.keywords:
                    if k.arg is None:
                        continue
                    lv = _level(k.value, T, kwname)
                    put(k.arg if k.arg in callee.params else ("**" + (callee.kwarg or "")), lv)
                if tp:
                    calls.add((key, frozenset(tp.items())))

    def run(stmts, T):
        for s in stmts:
            if isinstance(s, (ast.FunctionDef, ast.ClassDef)):
                continue
            if isinstance(s, ast.If):
                scan_calls(s.test, T)
                t1 = run(s.body, dict(T))
                t2 = run(s.orelse, dict(T))
                T = _merge(t1, t2)
                continue
            if isinstance(s, (ast.For,)):
                scan_calls(s.iter, T)
                for _ in range(2):
                    if _level(s.iter, T, kwname):
                        for nm in _targets(s.target):
                            T[nm] = 2
                    T = run(s.body, T)
                T = run(s.orelse, T)
                continue
            if isinstance(s, ast.While):
                scan_calls(s.test, T)
                for _ in range(2):
                    T = run(s.body, T)
                continue
            if isinstance(s, ast.Try):
                T = run(s.body, T)
                for h in s.handlers:
                    T = _merge(T, run(h.body, dict(T)))
                T = run(s.orelse, T)
                T = run(s.finalbody, T)
                continue
            if isinstance(s, ast.With):
                T = run(s.body, T)
                continue
            scan_calls(s, T)
            if isinstance(s, (ast.Assign, ast.AnnAssign, ast.AugAssign)):
                tgts = s.targets if isinstance(s, ast.Assign) else [s.target]
                val = s.value
                for t in tgts:
                    if isinstance(t, (ast.Subscript, ast.Attribute)):
                        rn = root_name(t)
                        if rn == "self" and is_method:
                            direct = isinstance(t, ast.Attribute) and isinstance(t.value, ast.Name)
                            if not direct and self_alias(base_expr(t), T):
                                record(s, "assign", ast.unparse(t))
                            elif fn.qual.split(".<locals>.")[0] not in SELF_WRITERS:
                                record(s, "self-assign", ast.unparse(t))
                            if direct and not isinstance(s, ast.AugAssign):
                                # self.x = <expr>: remember whether the attribute now names a caller-visible object
                                lv = _level(val, T, kwname) if val is not None else 0
                                if lv == 2:
                                    T["self." + t.attr] = 2
                                else:
                                    T.pop("self." + t.attr, None)
                        elif rn is not None and rn != kwname and _level(base_expr(t), T, kwname) == 2:
                            record(s, "assign", ast.unparse(t))
                    if isinstance(s, ast.AugAssign):
                        continue
                    if isinstance(t, (ast.Tuple, ast.List)):
                        # unpacking: element-wise for a literal of the same length, otherwise every name receives
                        # an ELEMENT of the container on the right
                        if isinstance(val, (ast.Tuple, ast.List)) and len(val.elts) == len(t.elts):
                            pairs = [(x, _level(v, T, kwname)) for x, v in zip(t.elts, val.elts)]
                        else:
                            lv_all = 2 if (val is not None and _level(val, T, kwname)) else 0
                            pairs = [(x, lv_all) for x in t.elts]
                        for x, lv in pairs:
                            for nm in _targets(x):
                                if lv:
                                    T[nm] = lv
                                else:
                                    T.pop(nm, None)
                        continue
                    for nm in _targets(t):
                        lv = _level(val, T, kwname) if val is not None else 0
                        if lv:
                            T[nm] = lv
                        else:
                            T.pop(nm, None)
            elif isinstance(s, ast.Delete):
                for t in s.targets:
                    if isinstance(t, ast.Subscript):
                        rn = root_name(t)
                        if rn is not None and rn != kwname and rn != "self" and _level(base_expr(t), T, kwname) == 2:
                            record(s, "del", ast.unparse(t))
        return T

    T0 = {n: lv for n, lv in tainted_params}
    if is_method and fn.qual.split(".<locals>.")[0] in SELF_WRITERS:
        # the methods that are allowed to write the object's own state may do so through a local alias as well
        # (`lst = self._metrics[key]; lst.append(v)` is the same write as `self._metrics[key].append(v)`); what
        # they were GIVEN - their other parameters, and attributes bound to those - stays caller-visible
        T0.pop("self", None)
    run(fn.node.body, T0)


SET_METHODS = ("union", "intersection", "difference", "symmetric_difference", "copy")
ORDER_CONSUMERS = ("list", "tuple", "zip", "enumerate", "iter", "next", "dict", "OrderedDict")


def _set_iterations():
    """every place where the order in which a SET yields its elements can reach a result: `for` loops and
    comprehensions over a set-typed expression, list()/tuple()/zip()/enumerate()/iter()/next()/dict.fromkeys()/
    str.join() of one, star-unpacking and .pop() of one.  Set-typed = a set()/frozenset() call, a set literal or
    comprehension, a union/intersection/difference of such, or a local name bound to one in the same function
    (flow-insensitive).  sorted(), len(), membership tests, comparisons and all()/any() are order-free."""
    out = []
    own_functions = {q.split(".")[-1] for (_, q) in _collect_functions()}
    for m in SITE_MODULES:
        try:
            tree = ast.parse(src(m))
        except Exception:
            continue
        scopes = [tree] + [n for n in ast.walk(tree) if isinstance(n, (ast.FunctionDef, ast.Lambda))]
        for scope in scopes:
            body_nodes = list(ast.walk(scope))
            names = set()

            def is_set(e):
                if isinstance(e, (ast.Set, ast.SetComp)):
                    return True
                if isinstance(e, ast.Name):
                    return e.id in names
                if isinstance(e, ast.Call):
                    f = e.func
                    if isinstance(f, ast.Name) and f.id in ("set", "frozenset"):
                        return True
                    if isinstance(f, ast.Attribute) and f.attr in SET_METHODS and is_set(f.value):
                        return True
                if isinstance(e, ast.BinOp) and isinstance(e.op, (ast.BitOr, ast.BitAnd, ast.Sub, ast.BitXor)):
                    return is_set(e.left) or is_set(e.right)
                if isinstance(e, ast.IfExp):
                    return is_set(e.body) or is_set(e.orelse)
                return False
            for _ in range(3):                       # names bound to sets (to a fixpoint over short chains)
                for n in body_nodes:
                    if isinstance(n, ast.Assign) and is_set(n.value):
                        for t in n.targets:
                            if isinstance(t, ast.Name):
                                names.add(t.id)
                    elif isinstance(n, ast.AnnAssign) and n.value is not None and is_set(n.value) \
                            and isinstance(n.target, ast.Name):
                        names.add(n.target.id)
            # generator / comprehension handed straight to an order-free consumer
            order_free = set()
            for n in body_nodes:
                if isinstance(n, ast.Call) and isinstance(n.func, ast.Name) and \
                        n.func.id in ("any", "all", "set", "frozenset", "sorted", "sum", "len") and n.args and \
                        isinstance(n.args[0], (ast.GeneratorExp, ast.ListComp, ast.SetComp)):
                    for g in n.args[0].generators:
                        order_free.add(id(g))
            for n in body_nodes:
                hits = []
                if id(n) in order_free:
                    continue
                if isinstance(n, ast.For) and is_set(n.iter):
                    hits.append(n.iter)
                elif isinstance(n, ast.comprehension) and is_set(n.iter):
                    hits.append(n.iter)
                elif isinstance(n, ast.Starred) and is_set(n.value):
                    hits.append(n.value)
                elif isinstance(n, ast.Call):
                    f = n.func
                    if isinstance(f, ast.Name) and f.id in ORDER_CONSUMERS:
                        hits += [a for a in n.args if is_set(a)]
                    elif isinstance(f, ast.Attribute) and f.attr in ("fromkeys", "join", "extend", "update") \
                            and not (f.attr == "update" and is_set(f.value)):
                        hits += [a for a in n.args if is_set(a)]
                    elif isinstance(f, ast.Attribute) and f.attr == "pop" and is_set(f.value) and not n.args:
                        hits.append(f.value)
                    # a set handed to one of xgcm's own functions (which may iterate it)
                    cname = f.id if isinstance(f, ast.Name) else (f.attr if isinstance(f, ast.Attribute) else None)
                    if cname in own_functions:
                        hits += [a for a in list(n.args) + [k.value for k in n.keywords] if is_set(a)]
                for h in hits:
                    out.append((m, h.lineno, ast.unparse(n if isinstance(n, ast.Call) else h)[:80]))
    return sorted(set(out))



def gen_sites():
    fns = _collect_functions()
    writes, seen = set(), set()
    work = []
    for m, q in ENTRY_POINTS:
        fn = fns.get((m, q))
        if fn is None:
            continue
        tp = {(x, 2) for x in fn.params}
        if fn.vararg:
            tp.add((fn.vararg, 1))
        work.append(((m, q), frozenset(tp)))
    # the numpy kernels of gridops.py are handed views of the caller's buffers (no copy is made when no padding
    # is needed): every parameter of every function there is caller-visible
    for (m, q), fn in fns.items():
        if m == "gridops.py" and "." not in q:
            work.append(((m, q), frozenset((x, 2) for x in fn.params)))
    recognised = True
    steps = 0
    try:
        while work and steps < 2000:
            steps += 1
            key, tp = work.pop()
            if (key, tp) in seen:
                continue
            seen.add((key, tp))
            calls = set()
            _analyse(fns[key], tp, fns, writes, calls)
            # nested helper functions are analysed with the same taint when they are called by name
            for c in calls:
                if c not in seen:
                    work.append(c)
    except Exception as e:  # noqa: BLE001
        recognised = False
        print(f"extract: site analysis failed: {type(e).__name__}: {e}", file=sys.stderr)

    # C12: iterations over set-typed values
    set_iters = _set_iterations()

    lines = ["import XgcmModel.Model.Basic",
             "/- GENERATED by tools/extract.py (static taint analysis of xgcm/*.py) — do not edit -/",
             "namespace Xgcm.Gen", "open Xgcm", ""]
    lines.append("/-- statements that modify, in place, an object reachable from an argument of a public entry")
    lines.append("    point (or the Grid's own state outside the constructor / set_metrics):")
    lines.append("    (module, function, line, kind, target) -/")
    lines.append("def argumentWrites : List (String × String × Nat × String × String) := [")
    lines.append(",\n".join(f"  ({lean_str(m)}, {lean_str(q)}, {ln}, {lean_str(k)}, {lean_str(w)})"
                           for m, q, ln, k, w in sorted(writes)))
    lines.append("]")
    lines.append(f"def sitesRecognised : Bool := {'true' if recognised else 'false'}")
    lines.append(f"def sitesFunctionsAnalysed : Nat := {len({k for k, _ in seen})}")
    lines.append("/-- iterations over / materialisations of set-typed values (informational, C12) -/")
    lines.append("def setIterations : List (String × Nat × String) := [")
    lines.append(",\n".join(f"  ({lean_str(m)}, {ln}, {lean_str(t)})" for m, ln, t in sorted(set(set_iters))))
    lines.append("]")
    lines.append("")
    lines.append("end Xgcm.Gen")
    return write_if_changed("Sites.lean", "\n".join(lines) + "\n")


def gen_tables():
    """small literal tables: SGRID padding words, COMODO shift constants, boundary word -> xarray pad mode"""
    lines = ["import XgcmModel.Model.Basic",
             "/- GENERATED by tools/extract.py from xgcm/sgrid.py, xgcm/comodo.py, xgcm/padding.py — do not edit -/",
             "namespace Xgcm.Gen", "open Xgcm", ""]
    # sgrid.py: pad2pos (a dict literal assigned inside a function)
    pad2pos = None
    for node in ast.walk(ast.parse(src("sgrid.py"))):
        if isinstance(node, ast.Assign) and len(node.targets) == 1 and isinstance(node.targets[0], ast.Name) \
                and node.targets[0].id == "pad2pos" and isinstance(node.value, ast.Dict):
            try:
                pad2pos = literal(node.value)
            except Exception:
                pad2pos = None
    if pad2pos is None:
        # renamed or hoisted: any dict literal whose keys are the four SGRID padding words
        for node in ast.walk(ast.parse(src("sgrid.py"))):
            if isinstance(node, ast.Dict):
                v = literal(node)
                if isinstance(v, dict) and set(v) == {"high", "low", "both", "none"}:
                    pad2pos = v
                    break
    lines.append("/-- `pad2pos` of sgrid.py: padding word -> position of the node dimension -/")
    lines.append("def sgridPad2Pos : List (String × String) := [" + ", ".join(
        f"({lean_str(str(k))}, {lean_str(str(v))})" for k, v in (pad2pos or {}).items()) + "]")
    # comodo.py: shift constants, as twice the value (an integer)
    ctree = ast.parse(src("comodo.py"))
    consts = {}
    for nm in ("axis_shift_left", "axis_shift_right", "axis_shift_center"):
        consts[nm] = module_constants(ctree).get(nm)
    def twice(x):
        return str(int(round(float(x) * 2))) if isinstance(x, (int, float)) and float(x) * 2 == round(float(x) * 2) else "999"
    lines.append("/-- COMODO `c_grid_axis_shift` constants (left, right, center), doubled -/")
    lines.append("def comodoShiftsTwice : List Int := [" + ", ".join(twice(consts.get(k)) for k in
                 ("axis_shift_left", "axis_shift_right", "axis_shift_center")) + "]")
    # padding.py: boundary word -> pad mode
    ptree = ast.parse(src("padding.py"))
    pmv = module_constants(ptree).get("_XGCM_BOUNDARY_KWARG_TO_XARRAY_PAD_KWARG")
    pmv = pmv if isinstance(pmv, dict) else {}
    if not pmv:
        pmv = _literal_by_shape(ptree, lambda v: isinstance(v, dict) and {"periodic", "fill", "extend"} <= set(v)
                                and all(isinstance(x, str) for x in v.values())) or {}
    lines.append("/-- `_XGCM_BOUNDARY_KWARG_TO_XARRAY_PAD_KWARG` (the `None` key spelled \"None\") -/")
    lines.append("def padModes : List (String × String) := [" + ", ".join(
        f"({lean_str(str(k))}, {lean_str(str(v))})" for k, v in pmv.items()) + "]")
    lines += ["", "end Xgcm.Gen"]
    return write_if_changed("Tables.lean", "\n".join(lines) + "\n")


GENERATORS = [gen_gridops, gen_axis, gen_grid_defaults, gen_regex, gen_sites, gen_tables]


# what a generator leaves behind when it fails: every name it defines, with NO content and every "recognised" flag
# false (the driver still builds; the obligations over the table stop checking)
FAILED_STUBS = {
    "gen_gridops": ("Gridops", "import XgcmModel.Model.Stencil\nnamespace Xgcm.Gen\nopen Xgcm\n"
                    "def gridops : List UfuncEntry := []\ndef gridopsOdd : List (String × String) := []\n"
                    "def gridopsOptions : List (String × List (String × String)) := []\nend Xgcm.Gen\n"),
    "gen_axis": ("Axis", "import XgcmModel.Model.Basic\nnamespace Xgcm.Gen\nopen Xgcm\n"
                 "def validPositionNames : List String := []\ndef fallbackShifts : List (Pos × List Pos) := []\n"
                 "def fallbackShiftsRecognised : Bool := false\ndef padModeMap : List (Option String × String) := []\n"
                 "def axisDefaultBoundary : String := \"None\"\ndef axisDefaultFill : Option Int := none\nend Xgcm.Gen\n"),
    "gen_grid_defaults": ("GridDefaults", "import XgcmModel.Model.Basic\nnamespace Xgcm.Gen\nopen Xgcm\n"
                          "def periodicTrueBoundary : String := \"None\"\ndef periodicFalseBoundary : String := \"None\"\n"
                          "def cumsumTable : List ((Pos × Pos) × (Bool × Nat × Nat)) := []\n"
                          "def cumsumTableRecognised : Bool := false\nend Xgcm.Gen\n"),
    "gen_regex": ("Regex", "import XgcmModel.Model.Basic\nnamespace Xgcm.Gen\nopen Xgcm\n"
                  + "".join(f"def {n} : Option (List Char) := none\n" for n in
                            ("reAxisName", "reAxisPosition", "reAxisNamePositionPair", "reAxisNamePositionPairList",
                             "reArgument", "reArgumentList", "reSignature"))
                  + "def signatureMatcher : String := \"None\"\ndef disallowedOverlapPositions : List String := []\n"
                    "def ufuncStoredOptions : List String := []\ndef ufuncCallTimeOptions : List String := []\n"
                    "def ufuncForwarded : List (String × String) := []\ndef decoratorAllowedKwargs : List String := []\n"
                    "end Xgcm.Gen\n"),
    "gen_sites": ("Sites", "import XgcmModel.Model.Basic\nnamespace Xgcm.Gen\nopen Xgcm\n"
                  "def argumentWrites : List (String × String × Nat × String × String) := []\n"
                  "def sitesRecognised : Bool := false\ndef sitesFunctionsAnalysed : Nat := 0\n"
                  "def setIterations : List (String × Nat × String) := [(\"extraction-failed\", 0, \"extraction-failed\")]\n"
                  "end Xgcm.Gen\n"),
    "gen_tables": ("Tables", "import XgcmModel.Model.Basic\nnamespace Xgcm.Gen\nopen Xgcm\n"
                   "def sgridPad2Pos : List (String × String) := []\ndef comodoShiftsTwice : List Int := []\n"
                   "def padModes : List (String × String) := []\nend Xgcm.Gen\n"),
}


def main():
    changed = []
    for g in GENERATORS:
        try:
            if g():
                changed.append(g.__name__)
        except SyntaxError as e:
            print(f"extract: source does not parse: {e}", file=sys.stderr)
            return 2
        except Exception as e:  # noqa: BLE001
            # a recogniser met something it cannot read: that is "not recognised", never a crash - the generated
            # file is replaced by one without content, so that every obligation over it stops checking and the
            # check goes looking for a failing input (it must not keep proving things about a stale table)
            print(f"extract: {g.__name__} failed ({type(e).__name__}: {e}); its table is emptied", file=sys.stderr)
            name, stub = FAILED_STUBS[g.__name__]
            write_if_changed(name + ".lean", "/- GENERATED by tools/extract.py: EXTRACTION FAILED ("
                             + type(e).__name__ + ") - every table empty / marked unrecognised -/\n" + stub)
            changed.append(g.__name__ + "(failed)")
    print("extract: regenerated " + (", ".join(changed) if changed else "nothing (up to date)"))
    return 0


if __name__ == "__main__":
    sys.exit(main())



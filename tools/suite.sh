#!/bin/sh
# tools/suite.sh <commit> <logfile>: run xgcm's pinned test-suite for <commit> in a scratch worktree
# (outside /repo and /verif), with xdist; removes the worktree afterwards.
set -e
C=${1:-HEAD}; LOG=${2:-/tmp/suite_$$.log}
WT=/tmp/wt_suite_$$
git -C /repo worktree add -q --detach "$WT" "$C"
cd "$WT"
/venv/bin/python -c "import xgcm,sys; assert xgcm.__file__.startswith('$WT'), xgcm.__file__"
set +e
/venv/bin/python -m pytest -q -p no:cacheprovider --timeout=900 -n 12 -q > "$LOG" 2>&1
echo "exit=$? commit=$(git rev-parse --short HEAD)" >> "$LOG"
cd /
git -C /repo worktree remove --force "$WT"
tail -2 "$LOG"

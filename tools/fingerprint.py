#!/usr/bin/env python3
"""tools/fingerprint.py [--update]: structural fingerprints (sha1 of the AST, docstrings and comments excluded) of
every function / method of /repo/xgcm/*.py (tests excluded).

`tools/anchors.json` (committed) holds the fingerprints of the tree on which the checks were last brought up.
`./check` compares the current working tree with it: a property whose anchored modules contain a function that
differs gets a WIDER search (longer run, more cases, the thorough generator).  A difference is never reported as a
violation by itself - it only decides how hard the check looks."""
import ast
import hashlib
import json
import os
import sys

REPO = os.environ.get("XGCM_REPO", "/repo")
VERIF = os.path.dirname(os.path.dirname(os.path.abspath(__file__)))
ANCHORS = os.path.join(VERIF, "tools", "anchors.json")


def _strip_doc(node):
    for n in ast.walk(node):
        body = getattr(n, "body", None)
        if isinstance(body, list) and body and isinstance(body[0], ast.Expr) and isinstance(
                getattr(body[0], "value", None), ast.Constant) and isinstance(body[0].value.value, str):
            n.body = body[1:] or [ast.Pass()]
    return node


def fingerprints():
    out = {}
    d = os.path.join(REPO, "xgcm")
    for f in sorted(os.listdir(d)):
        if not f.endswith(".py") or f == "_version.py":
            continue
        try:
            tree = ast.parse(open(os.path.join(d, f)).read())
        except SyntaxError:
            out[f] = {"<module>": "syntax-error"}
            continue
        fns = {}

        def visit(node, prefix):
            for ch in ast.iter_child_nodes(node):
                if isinstance(ch, (ast.FunctionDef, ast.AsyncFunctionDef)):
                    q = prefix + ch.name
                    fns[q] = hashlib.sha1(ast.dump(_strip_doc(ch)).encode()).hexdigest()[:16]
                    visit(ch, q + ".")
                elif isinstance(ch, ast.ClassDef):
                    visit(ch, prefix + ch.name + ".")
        # module-level statements other than defs (tables, regexes, decorators' arguments)
        top = [n for n in tree.body if not isinstance(n, (ast.FunctionDef, ast.AsyncFunctionDef, ast.ClassDef, ast.Import,
                                                           ast.ImportFrom))]
        fns["<module-level>"] = hashlib.sha1("".join(ast.dump(_strip_doc(n)) for n in top).encode()).hexdigest()[:16]
        visit(tree, "")
        out[f] = fns
    return out


def changed_since_baseline():
    """-> {module: [qualified names that differ from / are missing in the committed baseline]}"""
    if not os.path.exists(ANCHORS):
        return {}
    base = json.load(open(ANCHORS))["fingerprints"]
    cur = fingerprints()
    out = {}
    for mod in sorted(set(base) | set(cur)):
        b, c = base.get(mod, {}), cur.get(mod, {})
        diff = sorted(q for q in set(b) | set(c) if b.get(q) != c.get(q))
        if diff:
            out[mod] = diff
    return out


if __name__ == "__main__":
    if "--update" in sys.argv:
        import subprocess
        head = subprocess.run(["git", "-C", REPO, "rev-parse", "--short", "HEAD"], capture_output=True, text=True).stdout.strip()
        json.dump({"repo_head": head, "fingerprints": fingerprints()}, open(ANCHORS, "w"), indent=1, sort_keys=True)
        print("baseline written for", head)
    else:
        print(json.dumps(changed_since_baseline(), indent=1))

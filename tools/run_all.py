#!/usr/bin/env python3
"""run every claimed check (quick by default) sequentially; summary at the end"""
import json, subprocess, sys, time, os
VERIF = os.path.dirname(os.path.dirname(os.path.abspath(__file__)))
tier = sys.argv[1] if len(sys.argv) > 1 else "quick"
ids = sys.argv[2:] or [c["property_id"] for c in json.load(open(os.path.join(VERIF, "MANIFEST.json")))["checks"]]
bad = []
for pid in ids:
    t0 = time.time()
    p = subprocess.run(["./check", pid, "--tier", tier], cwd=VERIF, capture_output=True, text=True)
    last = [l for l in p.stdout.strip().splitlines() if l.strip()][-1:] or [""]
    print(f"{pid} exit={p.returncode} {time.time()-t0:.0f}s :: {last[0][:160]}", flush=True)
    for l in p.stdout.splitlines():
        if l.startswith(("VIOLATION", "KNOWN-FINDING", "INFRA")):
            print("   ", l[:200])
    if p.returncode != 0:
        bad.append(pid)
print("FAILED:", bad)

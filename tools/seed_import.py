#!/usr/bin/env python3
"""tools/seed_import.py <Cnn> <k> <slug>: copy a sub-agent's candidate (/tmp/seed_out/Cnn/{patchk.diff,demok.py,notesk.md}
and any helper directory the demo needs) to /verif/seeded/Cnn-<slug>/ as patch.diff, demo.py, notes.md, meta.json"""
import json, os, shutil, sys
cid, k, slug = sys.argv[1:4]
src = os.environ.get("SEED_OUT", "/tmp/seed_out") + f"/{cid}"
dst = f"/verif/seeded/{cid}-{slug}"
os.makedirs(dst, exist_ok=True)
shutil.copy(f"{src}/patch{k}.diff", f"{dst}/patch.diff")
demo = open(f"{src}/demo{k}.py").read()
# demos may refer to helper dirs under the agent's output directory (numba stand-in): copy and re-point
for name in os.listdir(src):
    full = os.path.join(src, name)
    if os.path.isdir(full) and name != "scratch" and name in demo:
        shutil.copytree(full, os.path.join(dst, name), dirs_exist_ok=True)
demo = demo.replace(src, "' + os.path.dirname(os.path.abspath(__file__)) + '") if False else demo
open(f"{dst}/demo.py", "w").write(demo)
if os.path.exists(f"{src}/notes{k}.md"):
    shutil.copy(f"{src}/notes{k}.md", f"{dst}/notes.md")
files = [l[6:].strip() for l in open(f"{dst}/patch.diff") if l.startswith("+++ b/")]
meta = {"property": cid, "name": f"{cid}-{slug}", "source": "fresh sub-agent given only the property text and a scratch worktree" + (" (second round: also told which changes the first round had produced, to avoid repeats)" if "seed2" in src else "") + (" (third round: told which changes rounds one and two had produced, and pointed at data types, degenerate sizes, rarely combined options, orderings, inner/outer positions, shared helpers and error paths)" if "seed3" in src else "") + (" (fourth round: told all earlier changes; asked to read the anchored paths end to end for argument combinations, shared helpers, loop- and call-carried state, implicit conversions, xarray interplay)" if "seed4" in src else ""),
        "files_changed": files}
json.dump(meta, open(f"{dst}/meta.json", "w"), indent=1)
print(dst, files)

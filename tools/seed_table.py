#!/usr/bin/env python3
"""tools/seed_table.py: markdown table of the seeded changes under /verif/seeded (from their meta.json)"""
import glob
import json
import os

VERIF = os.path.dirname(os.path.dirname(os.path.abspath(__file__)))
rows = []
for p in sorted(glob.glob(os.path.join(VERIF, "seeded", "*", "meta.json"))):
    m = json.load(open(p))
    det = m.get("detection", {})
    own = m["property"]
    caught, missed = [], []
    for k, v in det.items():
        c = k.split(":")[0]
        if k.endswith(":quick"):
            (caught if v["exit"] == 1 and v.get("violation_line") else missed).append(c + ("" if v["exit"] in (0, 1) else "(infra)"))
    rows.append((m["name"], ", ".join(m.get("files_changed", [])), m.get("summary", ""),
                 "yes" if m.get("confirmed") else "NO", ", ".join(caught) or "-", ", ".join(missed) or "-",
                 m.get("strengthened", "")))
print("| seeded change | file | what it does / what it needs | confirmed (demo 0/1, suite unchanged) | caught by (quick) | also run, silent | check strengthened because of it |")
print("|---|---|---|---|---|---|---|")
for r in rows:
    print("| " + " | ".join(x.replace("|", "/") for x in r) + " |")

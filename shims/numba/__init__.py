"""Pure-Python stand-in for the small part of numba that xgcm.transform uses.

numba is not installed in this sandbox, so `xgcm.transform` cannot be imported and
`Grid.transform` raises ImportError.  The verification harness (only) puts this directory
on sys.path: `guvectorize` runs the *same Python kernel source* of xgcm, looping over the
leading (broadcast) dimensions exactly as a generalised ufunc does.  xgcm itself is untouched.
"""
import re

import numpy as np

boolean = "boolean"


class _T:
    def __init__(self, name):
        self.name = name

    def __getitem__(self, item):
        return (self.name, item)


float32 = _T("float32")
float64 = _T("float64")


def guvectorize(signatures, layout, **kwargs):
    lhs, rhs = layout.split("->")
    in_specs = re.findall(r"\(([^)]*)\)", lhs)
    out_specs = re.findall(r"\(([^)]*)\)", rhs)
    in_dims = [[s for s in spec.split(",") if s.strip()] for spec in in_specs]
    out_dims = [[s for s in spec.split(",") if s.strip()] for spec in out_specs]
    assert len(out_dims) == 1

    def deco(kernel):
        def wrapper(*args):
            args = [np.asarray(a) for a in args]
            assert len(args) == len(in_dims), (len(args), len(in_dims))
            sizes = {}
            loop_shapes = []
            for a, dims in zip(args, in_dims):
                k = len(dims)
                core = a.shape[a.ndim - k:] if k else ()
                for name, sz in zip(dims, core):
                    if sizes.setdefault(name, sz) != sz:
                        raise ValueError(f"core dimension {name} mismatch: {sizes[name]} vs {sz}")
                loop_shapes.append(a.shape[: a.ndim - k])
            loop = np.broadcast_shapes(*loop_shapes)
            out_core = tuple(sizes[n] for n in out_dims[0])
            dtype = np.result_type(*[a.dtype for a, d in zip(args, in_dims) if d]) if args else float
            if not np.issubdtype(dtype, np.floating):
                dtype = np.float64
            out = np.empty(loop + out_core, dtype=dtype)
            bargs = []
            for a, dims in zip(args, in_dims):
                k = len(dims)
                core = a.shape[a.ndim - k:] if k else ()
                bargs.append(np.broadcast_to(a, loop + tuple(core)))
            for idx in np.ndindex(*loop):
                call = []
                for a, dims in zip(bargs, in_dims):
                    v = a[idx]
                    if not dims:
                        v = v.item() if isinstance(v, np.ndarray) else v
                    else:
                        v = np.array(v, dtype=dtype)     # fresh, writable, like numba's views
                    call.append(v)
                o = out[idx]
                kernel(*call, o)
            return out
        wrapper.__name__ = getattr(kernel, "__name__", "gufunc")
        wrapper.py_func = kernel
        return wrapper
    return deco
